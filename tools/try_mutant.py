#!/venv/bin/python
"""Run checks against a scratch copy of /repo with one file replaced by a mutant saved by mutation_sweep.py.
usage: tools/try_mutant.py <survivor_N.py.txt> [props...]"""
import os, shutil, subprocess, sys, tempfile
from pathlib import Path
V = Path(__file__).resolve().parents[1]
mut = Path(sys.argv[1])
props = sys.argv[2:] or [f"C{i:02d}" for i in range(1, 19)]
txt = mut.read_text()
head, _, code = txt.partition("\n")
rel = head[2:].split(":")[0]
d = Path(tempfile.mkdtemp(prefix="sa_mut_"))
try:
    shutil.copytree("/repo/func_adl_xAOD", d / "func_adl_xAOD", ignore=shutil.ignore_patterns("__pycache__"))
    shutil.copy("/repo/README.md", d / "README.md")
    (d / rel).write_text(code)
    env = dict(os.environ, SA_REPO=str(d), SA_EVIDENCE_DIR=str(d / "ev"))
    print(head)
    for p in props:
        r = subprocess.run([str(V / "check"), p, "--tier", "quick"], cwd=V, env=env, capture_output=True, text=True)
        if r.returncode:
            print(p, "rc", r.returncode)
            for l in r.stdout.splitlines():
                if l.strip().startswith("FAIL") or "ANALYSIS-ERROR" in l:
                    print("   ", l.strip()[:260])
finally:
    shutil.rmtree(d, ignore_errors=True)
