#!/venv/bin/python
"""Development aid: which functions of the package does no obligation of any check point at (by construct name or by location)?
usage: for every property  SA_DUMP_OBS=<dir> ./check Cxx --tier quick ; then tools/coverage_map.py <dir>"""
import ast, json, sys
from pathlib import Path
D = Path(sys.argv[1])
REPO = Path("/repo")
obs = []
for f in sorted(D.glob("*.obs.json")):
    obs += json.loads(f.read_text())
lines = {}      # file -> set of line numbers named by an obligation
names = set()
for o in obs:
    for part in o["construct"].replace(":", ".").split("."):
        names.add(part)
    loc = o.get("loc") or ""
    if ":" in loc:
        f, _, l = loc.rpartition(":")
        if l.isdigit():
            lines.setdefault(f, set()).add(int(l))
tot = cov = 0
for py in sorted((REPO / "func_adl_xAOD").rglob("*.py")):
    if "template" in py.parts:
        continue
    rel = str(py.relative_to(REPO))
    tree = ast.parse(py.read_text())
    for n in ast.walk(tree):
        if isinstance(n, (ast.FunctionDef, ast.AsyncFunctionDef)):
            tot += 1
            hit_l = any(n.lineno <= l <= n.end_lineno for l in lines.get(rel, ()))
            hit_n = n.name in names
            if hit_l or hit_n:
                cov += 1
            else:
                print(f"uncovered {rel}:{n.lineno} {n.name} ({n.end_lineno - n.lineno + 1} lines)")
print(f"{cov}/{tot} functions are named by at least one obligation; {len(obs)} obligations")
