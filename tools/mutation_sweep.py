#!/venv/bin/python
"""Blind-spot search: systematic single-point AST mutants of func_adl_xAOD, filtered by the repository's own test
suite (only mutants that still pass all 316 tests are interesting), then run through all 18 checks.

  stage 1  generate mutants (one edit each) for the given files
  stage 2  run the pinned test suite on each (scratch copy of the repo, PYTHONPATH) -> survivors
  stage 3  run every check on each survivor (scratch copy via SA_REPO) -> flagged / unflagged

Output: <out>/mutants.jsonl, <out>/summary.json.  Nothing here is a registered check; it is a development tool whose
results are triaged by hand (an unflagged survivor is either an equivalent mutant, a change outside every property,
or a blind spot).
"""
import ast, copy, json, os, shutil, subprocess, sys, tempfile, hashlib
from concurrent.futures import ThreadPoolExecutor
from pathlib import Path

V = Path(__file__).resolve().parents[1]
REPO = Path("/repo")
PROPS = [f"C{i:02d}" for i in range(1, 19)]


def mutants_of(path: Path):
    src = path.read_text()
    tree = ast.parse(src)
    out = []

    def emit(desc, node_lineno, new_tree):
        try:
            code = ast.unparse(new_tree)
            compile(code, str(path), "exec")
        except Exception:
            return
        out.append({"file": str(path.relative_to(REPO)), "line": node_lineno, "op": desc, "code": code})

    nodes = list(ast.walk(tree))
    for idx, n in enumerate(nodes):
        # M2 raise -> pass
        if isinstance(n, ast.Raise):
            t = copy.deepcopy(tree)
            m = list(ast.walk(t))[idx]
            m.__class__ = ast.Pass
            m._fields = ()
            for a in ("exc", "cause"):
                if hasattr(m, a):
                    delattr(m, a)
            emit("raise->pass", n.lineno, t)
        # M1 delete expression statement (calls only)
        if isinstance(n, ast.Expr) and isinstance(n.value, ast.Call):
            t = copy.deepcopy(tree)
            m = list(ast.walk(t))[idx]
            m.value = ast.Constant(value=None)
            emit("delete-call-stmt:" + ast.unparse(n.value)[:40], n.lineno, t)
        # M3 negate if test
        if isinstance(n, ast.If):
            t = copy.deepcopy(tree)
            m = list(ast.walk(t))[idx]
            m.test = ast.UnaryOp(op=ast.Not(), operand=m.test)
            emit("negate-if:" + ast.unparse(n.test)[:40], n.lineno, t)
        # M6 comparison operator swaps
        if isinstance(n, ast.Compare) and len(n.ops) == 1:
            swaps = {ast.Eq: ast.NotEq, ast.NotEq: ast.Eq, ast.Lt: ast.LtE, ast.LtE: ast.Lt, ast.Gt: ast.GtE, ast.GtE: ast.Gt,
                     ast.Is: ast.IsNot, ast.IsNot: ast.Is, ast.In: ast.NotIn, ast.NotIn: ast.In}
            if type(n.ops[0]) in swaps:
                t = copy.deepcopy(tree)
                m = list(ast.walk(t))[idx]
                m.ops = [swaps[type(n.ops[0])]()]
                emit("cmp-swap:" + ast.unparse(n)[:40], n.lineno, t)
        # M4/M5 constants
        if isinstance(n, ast.Constant) and not isinstance(n.value, str):
            v = n.value
            repl = None
            if v is True:
                repl = False
            elif v is False:
                repl = True
            elif isinstance(v, int) and not isinstance(v, bool) and -3 <= v <= 3:
                repl = v + 1 if v >= 0 else v - 1
            if repl is not None:
                t = copy.deepcopy(tree)
                m = list(ast.walk(t))[idx]
                m.value = repl
                emit(f"const:{v}->{repl}", n.lineno, t)
        # M7 keyword argument dropped
        if isinstance(n, ast.Call) and n.keywords:
            for ki, k in enumerate(n.keywords):
                if k.arg in ("retain_scope", "p_depth", "tree_type", "is_class_var", "initial_value", "p_depth_element", "p_depth_type"):
                    t = copy.deepcopy(tree)
                    m = list(ast.walk(t))[idx]
                    del m.keywords[ki]
                    emit(f"drop-kw:{k.arg}", n.lineno, t)
    return out


def run_tests(mut, workdir: Path):
    dst = workdir / mut["file"]
    orig = dst.read_text()
    dst.write_text(mut["code"])
    try:
        env = dict(os.environ, PYTHONPATH=str(workdir), PYTHONDONTWRITEBYTECODE="1")
        r = subprocess.run(["/venv/bin/python", "-m", "pytest", "-q", "-x", "-p", "no:cacheprovider", "--timeout=300"], cwd=workdir, env=env,
                           capture_output=True, text=True, timeout=900)
        tail = r.stdout.strip().splitlines()[-1] if r.stdout.strip() else ""
        return r.returncode == 0 and "316 passed" in tail
    except subprocess.TimeoutExpired:
        return False
    finally:
        dst.write_text(orig)


def run_checks(mut, workdir: Path):
    dst = workdir / mut["file"]
    orig = dst.read_text()
    dst.write_text(mut["code"])
    res = {}
    try:
        env = dict(os.environ, SA_REPO=str(workdir), SA_EVIDENCE_DIR=str(workdir / "_ev"))
        for p in PROPS:
            r = subprocess.run([str(V / "check"), p, "--tier", "quick"], cwd=V, env=env, capture_output=True, text=True)
            if r.returncode != 0:
                fails = [l.strip()[5:].split(" at ")[0] for l in r.stdout.splitlines() if l.strip().startswith("FAIL")]
                res[p] = {"rc": r.returncode, "fails": fails[:2]}
    finally:
        dst.write_text(orig)
    return res


def worker_dirs(n):
    dirs = []
    for i in range(n):
        d = Path(tempfile.mkdtemp(prefix=f"sweep{i}_"))
        shutil.copytree(REPO / "func_adl_xAOD", d / "func_adl_xAOD", ignore=shutil.ignore_patterns("__pycache__"))
        shutil.copytree(REPO / "tests", d / "tests", ignore=shutil.ignore_patterns("__pycache__"))
        for f in ("README.md", "pyproject.toml", "pytest.ini", "version_info.py"):
            if (REPO / f).exists():
                shutil.copy(REPO / f, d / f)
        dirs.append(d)
    return dirs


def main():
    out = Path(sys.argv[1])
    files = [REPO / f for f in sys.argv[2:]]
    out.mkdir(parents=True, exist_ok=True)
    muts = []
    for f in files:
        muts += mutants_of(f)
    for i, m in enumerate(muts):
        m["id"] = i
    print(len(muts), "mutants", flush=True)
    nw = int(os.environ.get("SWEEP_WORKERS", "8"))
    dirs = worker_dirs(nw)
    import queue
    q = queue.Queue()
    for d in dirs:
        q.put(d)

    def stage(m):
        d = q.get()
        try:
            m["tests_pass"] = run_tests(m, d)
            if m["tests_pass"]:
                m["checks"] = run_checks(m, d)
            return m
        finally:
            q.put(d)

    done = 0
    with open(out / "mutants.jsonl", "w") as fh, ThreadPoolExecutor(nw) as ex:
        for m in ex.map(stage, muts):
            done += 1
            rec = {k: v for k, v in m.items() if k != "code"}
            fh.write(json.dumps(rec) + "\n")
            fh.flush()
            if m.get("tests_pass") and not any(v["rc"] == 1 for v in m.get("checks", {}).values()):
                (out / f"survivor_{m['id']}.py.txt").write_text(f"# {m['file']}:{m['line']} {m['op']}\n" + m["code"])
            if done % 50 == 0:
                print(done, "done", flush=True)
    for d in dirs:
        shutil.rmtree(d, ignore_errors=True)
    surv = [m for m in muts if m.get("tests_pass")]
    flagged = [m for m in surv if any(v["rc"] == 1 for v in m.get("checks", {}).values())]
    json.dump({"mutants": len(muts), "pass_tests": len(surv), "flagged_by_some_check": len(flagged),
               "unflagged": [{"id": m["id"], "file": m["file"], "line": m["line"], "op": m["op"],
                              "exit2": [p for p, v in m.get("checks", {}).items() if v["rc"] == 2]} for m in surv if m not in flagged]},
              open(out / "summary.json", "w"), indent=1)
    print("mutants", len(muts), "pass tests", len(surv), "flagged", len(flagged))


if __name__ == "__main__":
    main()
