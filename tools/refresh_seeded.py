#!/venv/bin/python
"""Re-run every check against every archived seeded change and refresh meta.json / matrix.json."""
import json, os, subprocess, sys
from pathlib import Path
V = Path(__file__).resolve().parents[1]
sys.path.insert(0, str(V / "tools"))
import seed_matrix as sm
from concurrent.futures import ThreadPoolExecutor
seeds = sorted(p for p in (V / "seeded").glob("C*-*") if (p / "patch.diff").exists())
rows = []
with ThreadPoolExecutor(12) as ex:
    for seed, res in ex.map(sm.one, seeds):
        if "_patch" in res:
            print(seed.name, "PATCH CONFLICT"); continue
        fired = [p for p, v in res.items() if v["rc"] == 1]
        errs = [p for p, v in res.items() if v["rc"] == 2]
        own = seed.name.split("-")[0]
        meta = json.loads((seed / "meta.json").read_text())
        meta["checks_that_fire"] = fired
        meta["checks_that_exit_2"] = errs
        meta["rule_instances"] = {p: v["fails"] for p, v in res.items() if v["fails"]}
        meta["detected_by_own_property_check"] = own in fired
        (seed / "meta.json").write_text(json.dumps(meta, indent=1))
        rows.append({"seed": seed.name, "fired": fired, "errors": errs, "detail": meta["rule_instances"]})
        print(seed.name, "OWN" if own in fired else ("other" if fired else "MISSED"), fired, errs)
(V / "seeded" / "matrix.json").write_text(json.dumps(rows, indent=1))
print(sum(1 for r in rows if r["seed"].split("-")[0] in r["fired"]), "/", len(rows), "detected by their own property's check")
