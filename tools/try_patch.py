#!/venv/bin/python
"""Run checks against a scratch copy of /repo with a patch applied (never touches /repo).
usage: tools/try_patch.py <patch.diff> [props...]   (default: all implemented props)"""
import os, shutil, subprocess, sys, tempfile, glob
from pathlib import Path
V = Path(__file__).resolve().parents[1]

def run(patch, props, verbose=False):
    d = Path(tempfile.mkdtemp(prefix="sa_try_"))
    try:
        shutil.copytree("/repo/func_adl_xAOD", d / "func_adl_xAOD", ignore=shutil.ignore_patterns("__pycache__"))
        shutil.copy("/repo/README.md", d / "README.md")
        r = subprocess.run(["patch", "-p1", "--no-backup-if-mismatch", "-s", "-i", str(patch)], cwd=d, capture_output=True, text=True)
        if r.returncode != 0:
            return {"_patch": "FAILED: " + (r.stdout + r.stderr).strip()[:300]}
        env = dict(os.environ, SA_REPO=str(d), SA_EVIDENCE_DIR=str(d / "ev"))
        out = {}
        for p in props:
            r = subprocess.run([str(V / "check"), p, "--tier", "quick"], cwd=V, env=env, capture_output=True, text=True)
            fails = [l.strip() for l in r.stdout.splitlines() if l.strip().startswith("FAIL") or "ANALYSIS-ERROR" in l]
            out[p] = (r.returncode, fails)
            if verbose and r.returncode:
                print(r.stdout)
        return out
    finally:
        shutil.rmtree(d, ignore_errors=True)

if __name__ == "__main__":
    patch = Path(sys.argv[1]).resolve()
    props = sys.argv[2:] or sorted(p.stem.upper() for p in (V / "sa/props").glob("c*.py"))
    res = run(patch, props)
    if "_patch" in res:
        print(res["_patch"]); sys.exit(3)
    hit = False
    for p, (rc, fails) in res.items():
        if rc != 0:
            hit = True
            print(f"{p}: rc={rc}")
            for f in fails[:6]:
                print("    " + f[:300])
    if not hit:
        print("no check fired")
