#!/venv/bin/python
"""Regenerate MANIFEST.json from the table below (kept next to the checkers)."""
import json, sys
from pathlib import Path
V = Path(__file__).resolve().parents[1]
sys.path.insert(0, str(V))
from sa.manifest_table import CHECKS, NOT_APPLICABLE, ENGINES

props = [json.loads(l)["id"] for l in open(V / "properties.jsonl")]
checks = []
for pid in props:
    if pid in CHECKS:
        c = CHECKS[pid]
        checks.append({
            "property_id": pid,
            "quick_cmd": f"./check {pid} --tier quick",
            "thorough_cmd": f"./check {pid} --tier thorough",
            "evidence_file": f"/verif/evidence/{pid}.json",
            "replay_cmd_template": f"./check {pid} --tier quick --replay {{path}}",
            "engine": "sa",
            "level_claimed": {"category": "other", "text": c["text"], "design_ref": c.get("design_ref", f"DESIGN.md section 3, {pid}")},
            "level_note": c["note"],
            "technique": c["technique"],
        })
na = [{"property_id": pid, "reason": NOT_APPLICABLE.get(pid, "checker under construction; not yet claimed")}
      for pid in props if pid not in CHECKS]
m = {
    "version": 1,
    "setup_cmd": "true",
    "hooks": {
        "guard": "FUNC_ADL_XAOD_VERIF",
        "enable": "no hooks: every check parses /repo's working tree with ast/jinja2's parser; the guard name is reserved and unused",
        "baseline_off_cmd": "cd /repo && /venv/bin/python -m pytest -ra -q -p no:cacheprovider --timeout=900 --continue-on-collection-errors",
        "source_commits": [],
        "add_only": True,
    },
    "engines": ENGINES,
    "checks": checks,
    "notes": "Technique family: static analysis only. ./check <ID> --tier quick|thorough; exit 0 held (KNOWN-FINDING lines possible), 1 VIOLATION, 2 ANALYSIS-ERROR. See DESIGN.md.",
    "not_applicable": na,
}
(V / "MANIFEST.json").write_text(json.dumps(m, indent=1) + "\n")
print(f"{len(checks)} checks, {len(na)} not applicable")
