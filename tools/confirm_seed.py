#!/venv/bin/python
"""Confirm a seeded change against /repo's current HEAD in a scratch worktree:
demo passes clean, patch applies, suite passes with patch, demo fails with patch.
usage: tools/confirm_seed.py <seed dir with patch.diff + demo.py|test_demo.py> ...   (parallel over args)"""
import json, os, shutil, subprocess, sys, tempfile
from concurrent.futures import ThreadPoolExecutor
from pathlib import Path

def sh(cmd, cwd, env=None, timeout=1200):
    r = subprocess.run(cmd, cwd=cwd, env=env, capture_output=True, text=True, timeout=timeout)
    return r.returncode, (r.stdout + r.stderr)

def confirm(seed: Path):
    wt = Path(tempfile.mkdtemp(prefix="confirm_", dir="/root/scratch/wtc"))
    wt.rmdir()
    res = {"seed": str(seed)}
    try:
        rc, out = sh(["git", "-C", "/repo", "worktree", "add", "-q", "--detach", str(wt), "HEAD"], "/")
        if rc:
            res["error"] = out; return res
        env = dict(os.environ, PYTHONPATH=str(wt), PYTHONDONTWRITEBYTECODE="1")
        demo = seed / "demo.rebased.py" if (seed / "demo.rebased.py").exists() else seed / "demo.py"
        patch = seed / "patch.rebased.diff" if (seed / "patch.rebased.diff").exists() and (seed / "patch.rebased.diff").stat().st_size > 0 else seed / "patch.diff"
        res["patch_used"] = patch.name
        res["demo_used"] = demo.name
        if demo.exists():
            dcmd = ["/venv/bin/python", str(demo)]
        else:
            dcmd = ["/venv/bin/python", "-m", "pytest", "-q", "-p", "no:cacheprovider", str(seed / "test_demo.py")]
        rc, out = sh(dcmd, wt, env)
        res["demo_clean_rc"] = rc
        if rc: res["demo_clean_tail"] = out[-600:]
        rc, out = sh(["git", "apply", str(patch)], wt)
        if rc:
            rc, out = sh(["git", "apply", "--3way", str(patch)], wt)
        if rc:
            rc2, out2 = sh(["patch", "-p1", "--no-backup-if-mismatch", "-i", str(patch)], wt)
            if rc2:
                res["apply"] = "CONFLICT: " + out2[-300:]; return res
        res["apply"] = "ok"
        rc, out = sh(["git", "diff", "HEAD"], wt)
        res["rebased_patch"] = out
        rc, out = sh(["/venv/bin/python", "-m", "pytest", "-q", "-p", "no:cacheprovider", "-n", "2"], wt, env)
        res["suite"] = out.strip().splitlines()[-1] if out.strip() else ""
        res["suite_rc"] = rc
        rc, out = sh(dcmd, wt, env)
        res["demo_patched_rc"] = rc
        res["demo_patched_tail"] = out[-400:]
        res["confirmed"] = res["demo_clean_rc"] == 0 and res["suite_rc"] == 0 and "316 passed" in res["suite"] and rc != 0
        return res
    except Exception as e:
        res["error"] = repr(e); return res
    finally:
        subprocess.run(["git", "-C", "/repo", "worktree", "remove", "--force", str(wt)], capture_output=True)
        shutil.rmtree(wt, ignore_errors=True)

if __name__ == "__main__":
    seeds = [Path(a).resolve() for a in sys.argv[1:]]
    with ThreadPoolExecutor(6) as ex:
        for r in ex.map(confirm, seeds):
            rp = r.pop("rebased_patch", None)
            out = Path(r["seed"]) / "confirm.json"
            r["repo_head"] = subprocess.run(["git", "-C", "/repo", "rev-parse", "--short", "HEAD"], capture_output=True, text=True).stdout.strip()
            out.write_text(json.dumps(r, indent=1))
            if rp is not None and r.get("confirmed"):
                (Path(r["seed"]) / "patch.head.diff").write_text(rp)
            print(Path(r["seed"]).parent.name, Path(r["seed"]).name, "CONFIRMED" if r.get("confirmed") else "NOT-CONFIRMED",
                  {k: v for k, v in r.items() if k in ("apply", "suite", "demo_clean_rc", "demo_patched_rc", "error")})
