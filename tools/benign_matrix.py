#!/venv/bin/python
"""Evaluate behaviour-preserving refactorings produced by sub-agents: confirm (suite passes, equiv.py digest identical on the clean
tree and with the patch) and run every check on the patched tree.  Any FAIL is a false alarm of the checks.
usage: tools/benign_matrix.py <dir with patch.diff + equiv.py> ..."""
import json, os, shutil, subprocess, sys, tempfile
from concurrent.futures import ThreadPoolExecutor
from pathlib import Path
V = Path(__file__).resolve().parents[1]
PROPS = [f"C{i:02d}" for i in range(1, 19)]


def sh(cmd, cwd, env=None, timeout=1800):
    r = subprocess.run(cmd, cwd=cwd, env=env, capture_output=True, text=True, timeout=timeout)
    return r.returncode, r.stdout + r.stderr


def one(seed: Path):
    res = {"seed": f"{seed.parent.name}/{seed.name}"}
    wt = Path(tempfile.mkdtemp(prefix="benign_", dir="/root/scratch/wtc"))
    wt.rmdir()
    try:
        rc, out = sh(["git", "-C", "/repo", "worktree", "add", "-q", "--detach", str(wt), "HEAD"], "/")
        if rc:
            res["error"] = out
            return res
        env = dict(os.environ, PYTHONPATH=str(wt), PYTHONDONTWRITEBYTECODE="1")
        eq = seed / "equiv.py"
        d0 = sh(["/venv/bin/python", str(eq)], wt, env)[1] if eq.exists() else None
        rc, out = sh(["git", "apply", str(seed / "patch.diff")], wt)
        if rc:
            res["apply"] = "CONFLICT " + out[-200:]
            return res
        rc, out = sh(["/venv/bin/python", "-m", "pytest", "-q", "-p", "no:cacheprovider", "-n", "2"], wt, env)
        res["suite"] = out.strip().splitlines()[-1] if out.strip() else ""
        d1 = sh(["/venv/bin/python", str(eq)], wt, env)[1] if eq.exists() else None
        res["equivalent"] = (d0 == d1) if d0 is not None else None
        envc = dict(os.environ, SA_REPO=str(wt), SA_EVIDENCE_DIR=str(wt / "_ev"))
        checks = {}
        for p in PROPS:
            r = subprocess.run([str(V / "check"), p, "--tier", "quick"], cwd=V, env=envc, capture_output=True, text=True)
            if r.returncode:
                checks[p] = {"rc": r.returncode, "lines": [l.strip()[:260] for l in r.stdout.splitlines() if l.strip().startswith("FAIL") or "ANALYSIS-ERROR" in l][:5]}
        res["checks"] = checks
        return res
    finally:
        subprocess.run(["git", "-C", "/repo", "worktree", "remove", "--force", str(wt)], capture_output=True)
        shutil.rmtree(wt, ignore_errors=True)


if __name__ == "__main__":
    seeds = [Path(a).resolve() for a in sys.argv[1:]]
    out = []
    with ThreadPoolExecutor(6) as ex:
        for r in ex.map(one, seeds):
            out.append(r)
            bad = {p: v for p, v in r.get("checks", {}).items()}
            print(r["seed"], "| suite:", r.get("suite"), "| equivalent:", r.get("equivalent"), "|", "SILENT" if not bad and "checks" in r else ("" if "checks" in r else r))
            for p, v in bad.items():
                print("    ", p, "rc", v["rc"])
                for l in v["lines"]:
                    print("        ", l)
    Path(os.environ.get("MATRIX_OUT", "/root/scratch/benign_matrix.json")).write_text(json.dumps(out, indent=1))
