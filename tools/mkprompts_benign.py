#!/venv/bin/python
"""Prompts for sub-agents that produce BEHAVIOUR-PRESERVING refactorings (to test the checks for false alarms).
usage: tools/mkprompts_benign.py <worktree root> <out root>"""
import json, sys
from pathlib import Path
V = Path(__file__).resolve().parents[1]
WT, OUT = sys.argv[1], sys.argv[2]
T = '''You are helping to test a verification tool for false alarms. Your job: produce realistic BEHAVIOUR-PRESERVING refactorings of the Python project iris-hep/func_adl_xAOD, which compiles func_adl/qastle LINQ-style query ASTs into C++ analysis code for ATLAS xAOD and CMS AOD/miniAOD (run in docker). Work ONLY inside your own scratch git worktree of the project: {wt}  (a git worktree at the project's current commit; never touch /repo or /verif, never read /verif). Put your results in {out}/.

The tool under test checks this semantic property of the project:

---
{prop}
---

Find the code that implements this property (the functions, tables, templates or scripts it depends on) and produce THREE independent refactorings of THAT code (each a separate patch against the clean commit, each of a different kind). Each must leave the behaviour of the project EXACTLY as it is - for every query, history and configuration the generated files are byte-for-byte the same (up to the numbering of generated C++ names) and the same errors are raised - while changing how the code is written, the way a maintainer would in an ordinary clean-up pull request. Use a different kind for each of the three, for example:
 - extract a block into a well-named helper function or method (or inline a trivial helper);
 - rename local variables, parameters, private functions or methods to better names (and update every use);
 - restructure control flow without changing it: guard clauses instead of nested if/else (or the reverse), `elif` chains into a dispatch on early returns, a loop into a comprehension or the reverse, merging or splitting conditions, De Morgan rewrites, `not x in y` -> `x not in y`;
 - modernise or re-spell: f-strings <-> concatenation/format, type annotations, dataclass field reordering where order does not matter, `dict(...)` <-> literals, pathlib idioms, context managers, constants pulled out to module level, logging statements added;
 - move a function within its module, reorder independent statements, split a long function into two steps;
 - for templates and shell scripts: re-indent, reorder independent lines, quote variables consistently, replace backticks by $( ), rename shell variables, add comments, use `[[ ]]` instead of `[ ]` where equivalent.
Earlier volunteers have already tried the obvious ones at the obvious places (renaming the locals of the main function, extracting its middle block into a helper, if/else into guard clauses): look for OTHER places the property depends on (helpers, tables, sibling backends, templates, scripts) and for less obvious kinds or combinations of kinds.
Make them substantial enough to be a real clean-up (10-60 changed lines each), not a one-character edit, and do NOT change behaviour "for the better" either: no bug fixes, no new checks, no changed messages, no changed defaults.

Each refactoring must:
1. modify only files of the project under func_adl_xAOD/ (Python sources or template files) - NOT the tests, NOT README.md;
2. keep the project's test suite passing: run it with
   cd {wt} && PYTHONPATH={wt} /venv/bin/python -m pytest -q -p no:cacheprovider -n 4
   (expected: 316 passed, 3 skipped). PYTHONPATH must point at your worktree, otherwise the installed copy in /repo is imported;
3. come with evidence of equivalence: a script {out}/change<N>/equiv.py that, run as  cd <tree> && PYTHONPATH=<tree> /venv/bin/python {out}/change<N>/equiv.py , translates a varied set of at least 8 queries (different operators, metadata, all three backends where relevant, error cases) with the project's executors into a temporary directory, and prints a digest (e.g. sha256 over the generated files with generated-name numbers normalised, plus the texts of raised errors). Run it on the clean tree and with your change and confirm the two outputs are identical; save them as {out}/change<N>/digest_clean.txt and digest_changed.txt. For template/script refactorings, compare rendered files modulo whitespace/comments or run the scripts with stub tools on PATH and compare the commands executed. The script must not depend on the location of the worktree.

Useful facts: /venv/bin/python (3.12) has the project's dependencies (func_adl, qastle, jinja2, pytest). To translate a query by hand, look at tests/utils and tests/atlas/xaod/utils.py (dummy executors / datasets) for how the tests do it; func_adl parses lambda *source text*, so pass lambdas as strings (e.g. ds.Select("lambda e: e.Jets('AntiKt4').Select(lambda j: j.pt())")) or keep one lambda per source line. python_on_whales is not installed (stub it via sys.modules if you need local_dataset). No network, no docker. Never use `git stash` (shared between worktrees): use `git diff > file`, `git checkout -- .`, `git apply file`. Use {out}/scratch for temporary files, not /tmp.

For each change N in 1..3 write into {out}/change<N>/ :
 - patch.diff : `git diff` of the change against the clean commit (apply-able with `git apply` at the repository root);
 - equiv.py, digest_clean.txt, digest_changed.txt;
 - NOTES.md : what kind of refactoring it is, which functions/files, and why it cannot change behaviour.
After saving a patch, restore the worktree to clean (`git -C {wt} checkout -- . && git -C {wt} clean -fdq`) before starting the next change, and leave the worktree clean at the end. Verify each patch applies to the clean worktree with `git -C {wt} apply --check`.

Finish with a short report listing, per change: files touched, the kind of refactoring, and confirmation that the suite passes and the digests are identical.'''
for l in (V / "properties.jsonl").read_text().splitlines():
    p = json.loads(l)
    pid = p["id"]
    anchors = ", ".join(p.get("anchors", {}).get("files", []))
    prop = f"{p['title']}\n\n{p['statement']}\n\n(The property is mainly implemented in: {anchors})"
    d = Path(OUT) / pid
    d.mkdir(parents=True, exist_ok=True)
    (d / "PROMPT.txt").write_text(T.format(wt=f"{WT}/{pid}", out=str(d), prop=prop))
print("prompts written to", OUT)
