#!/venv/bin/python
"""Run every check against every seeded change (scratch copies, parallel). Prints a detection matrix."""
import json, os, shutil, subprocess, sys, tempfile
from concurrent.futures import ThreadPoolExecutor
from pathlib import Path
V = Path(__file__).resolve().parents[1]
PROPS = [f"C{i:02d}" for i in range(1, 19)]

def one(seed: Path):
    patch = seed / "patch.rebased.diff" if (seed / "patch.rebased.diff").exists() and (seed / "patch.rebased.diff").stat().st_size > 0 else seed / "patch.diff"
    d = Path(tempfile.mkdtemp(prefix="sa_mx_"))
    try:
        shutil.copytree("/repo/func_adl_xAOD", d / "func_adl_xAOD", ignore=shutil.ignore_patterns("__pycache__"))
        shutil.copy("/repo/README.md", d / "README.md")
        r = subprocess.run(["patch", "-p1", "--no-backup-if-mismatch", "-s", "-i", str(patch)], cwd=d, capture_output=True, text=True)
        if r.returncode != 0:
            return seed, {"_patch": "CONFLICT"}
        env = dict(os.environ, SA_REPO=str(d), SA_EVIDENCE_DIR=str(d / "ev"))
        out = {}
        for p in PROPS:
            r = subprocess.run([str(V / "check"), p, "--tier", "quick"], cwd=V, env=env, capture_output=True, text=True)
            fails = [l.strip().split(" at ")[0][5:] for l in r.stdout.splitlines() if l.strip().startswith("FAIL")]
            err = [l.strip() for l in r.stdout.splitlines() if "ANALYSIS-ERROR" in l]
            out[p] = {"rc": r.returncode, "fails": fails[:4], "err": err[:1]}
        return seed, out
    finally:
        shutil.rmtree(d, ignore_errors=True)

if __name__ == "__main__":
    seeds = [Path(a) for a in sys.argv[1:]]
    rows = []
    with ThreadPoolExecutor(12) as ex:
        for seed, res in ex.map(one, seeds):
            name = f"{seed.parent.name}/{seed.name}"
            if "_patch" in res:
                print(f"{name}: PATCH CONFLICT"); continue
            own = seed.parent.name
            fired = [p for p, v in res.items() if v["rc"] == 1]
            errs = [p for p, v in res.items() if v["rc"] == 2]
            mark = "OWN" if own in fired else ("other" if fired else "MISSED")
            print(f"{name}: {mark:6s} fired={fired} err2={errs}")
            if own in fired:
                print("      ", res[own]["fails"][:2])
            for p in errs:
                print("      ERR", p, res[p]["err"])
            rows.append({"seed": name, "fired": fired, "errors": errs, "detail": {p: v["fails"] for p, v in res.items() if v["fails"]}})
    Path(os.environ.get("MATRIX_OUT", str(V / "seeded" / "matrix.json"))).write_text(json.dumps(rows, indent=1))
