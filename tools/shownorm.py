#!/venv/bin/python
"""Print functions as the rules see them (after E-NORM / E-ALPHA / E-INLINE).  usage: tools/shownorm.py <name substring>... (SA_REPO honoured)"""
import ast, sys
from pathlib import Path
sys.path.insert(0, str(Path(__file__).resolve().parents[1]))
from sa.core.pyfacts import Repo
repo = Repo()
for f in repo.all_functions():
    if any(a in f.qual for a in sys.argv[1:]):
        print(f"# {f.qual}  ({f.loc})")
        print(ast.unparse(f.node))
        print()
