#!/venv/bin/python
"""Fast false-alarm loop: apply each given refactoring (dir with patch.diff) to a scratch copy and run every quick check; print the alarms.
(no suite / equivalence run - tools/benign_matrix.py does that once)   usage: tools/benign_quick.py <dir>... [-v]"""
import os, re, shutil, subprocess, sys, tempfile
from concurrent.futures import ThreadPoolExecutor
from pathlib import Path
V = Path(__file__).resolve().parents[1]
PROPS = [f"C{i:02d}" for i in range(1, 19)]
verbose = "-v" in sys.argv


def one(seed: Path):
    d = Path(tempfile.mkdtemp(prefix="sa_bq_", dir="/root/scratch"))
    try:
        shutil.copytree("/repo/func_adl_xAOD", d / "func_adl_xAOD", ignore=shutil.ignore_patterns("__pycache__"))
        shutil.copy("/repo/README.md", d / "README.md")
        r = subprocess.run(["patch", "-p1", "--no-backup-if-mismatch", "-s", "-i", str(seed / "patch.diff")], cwd=d, capture_output=True, text=True)
        if r.returncode:
            return seed, {"patch": (9, [r.stdout[-200:]])}
        env = dict(os.environ, SA_REPO=str(d), SA_EVIDENCE_DIR=str(d / "ev"))
        out = {}
        for p in PROPS:
            r = subprocess.run([str(V / "check"), p, "--tier", "quick"], cwd=V, env=env, capture_output=True, text=True)
            if r.returncode:
                out[p] = (r.returncode, [l.strip() for l in r.stdout.splitlines() if l.strip().startswith("FAIL") or "ANALYSIS-ERROR" in l])
        return seed, out
    finally:
        shutil.rmtree(d, ignore_errors=True)


seeds = [Path(a).resolve() for a in sys.argv[1:] if a != "-v"]
n_silent = 0
with ThreadPoolExecutor(8) as ex:
    for seed, out in ex.map(one, seeds):
        name = f"{seed.parent.name}/{seed.name}"
        if not out:
            n_silent += 1
            print(name, "SILENT")
            continue
        print(name)
        seen = set()
        for p, (rc, lines) in out.items():
            for l in lines:
                t = re.sub(r"^FAIL C\d\d\.R\d+ ", "", l)
                if t in seen:
                    continue
                seen.add(t)
                print("    ", p, f"rc{rc}", l[: (400 if verbose else 200)])
print(f"{n_silent} / {len(seeds)} silent")
