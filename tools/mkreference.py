#!/venv/bin/python
"""Regenerate sa/reference_locals.json from /repo's current tree (run after a repair commit in /repo)."""
import json, sys
from pathlib import Path
V = Path(__file__).resolve().parents[1]
sys.path.insert(0, str(V))
import os
os.environ["SA_NO_ALPHA"] = "1"
from sa.core.pyfacts import Repo
from sa.core.alpha import describe, REF_FILE
from sa.core.align import local_sigs
repo = Repo()
out = {}
for f in repo.all_functions():
    if f.parent is None:
        h, order = describe(f.node)
        out[f.qual] = {"hash": h, "locals": order, "sigs": local_sigs(f.node)}
from sa.core.align import attribute_sigs, module_name_sigs
trees = {m.name: m.tree for m in repo.modules.values()}
out["__attrs__"] = attribute_sigs(trees)
out["__modnames__"] = module_name_sigs(trees)
from sa.core.imports_norm import import_bindings
out["__imports__"] = {name: import_bindings(t) for name, t in trees.items()}
REF_FILE.write_text(json.dumps(out, indent=0, sort_keys=True))
from sa.core.shell_alpha import var_sigs, first_assignment_order, REF as SHELL_REF
shell = {}
for p in sorted(Path("/repo/func_adl_xAOD/template").rglob("runner.sh")):
    shell["/".join(p.parts[-3:])] = dict(var_sigs(p.read_text()), __order__=first_assignment_order(p.read_text()))
SHELL_REF.write_text(json.dumps(shell, indent=0, sort_keys=True))
import subprocess
head = subprocess.run(["git", "-C", "/repo", "rev-parse", "HEAD"], capture_output=True, text=True).stdout.strip()
(REF_FILE.parent / "reference_head.txt").write_text(head + "\n")
print(len(out), "functions; reference tree", head[:10])
