#!/venv/bin/python
"""Regenerate sa/reference_locals.json from /repo's current tree (run after a repair commit in /repo)."""
import json, sys
from pathlib import Path
V = Path(__file__).resolve().parents[1]
sys.path.insert(0, str(V))
import os
os.environ["SA_NO_ALPHA"] = "1"
from sa.core.pyfacts import Repo
from sa.core.alpha import describe, REF_FILE
from sa.core.align import local_sigs
repo = Repo()
out = {}
for f in repo.all_functions():
    if f.parent is None:
        h, order = describe(f.node)
        out[f.qual] = {"hash": h, "locals": order, "sigs": local_sigs(f.node)}
REF_FILE.write_text(json.dumps(out, indent=0, sort_keys=True))
print(len(out), "functions")
