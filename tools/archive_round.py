#!/venv/bin/python
"""Archive confirmed seeded changes of one round: tools/archive_round.py <round no> <offset> <out dir with Cxx/changeN>...
   /tmp/wt/out3/C07/change2 -> seeded/C07-<offset+2>/ (patch.diff rebased to /repo HEAD when confirm_seed produced one, demo, NOTES.md, meta.json)."""
import json, shutil, subprocess, sys
from pathlib import Path
V = Path(__file__).resolve().parents[1]
rnd, off = int(sys.argv[1]), int(sys.argv[2])
props = {json.loads(l)["id"]: json.loads(l) for l in (V / "properties.jsonl").read_text().splitlines() if l.strip()}
head = subprocess.run(["git", "-C", "/repo", "rev-parse", "--short", "HEAD"], capture_output=True, text=True).stdout.strip()
for d in map(Path, sys.argv[3:]):
    conf = json.loads((d / "confirm.json").read_text()) if (d / "confirm.json").exists() else {}
    if not conf.get("confirmed"):
        print("skip (not confirmed)", d); continue
    pid = d.parent.name
    n = int(d.name.replace("change", ""))
    dst = V / "seeded" / f"{pid}-{off + n}"
    dst.mkdir(parents=True, exist_ok=True)
    patch = d / "patch.head.diff" if (d / "patch.head.diff").exists() and (d / "patch.head.diff").stat().st_size else d / "patch.diff"
    shutil.copy(patch, dst / "patch.diff")
    for f in ("demo.py", "test_demo.py", "NOTES.md"):
        if (d / f).exists():
            shutil.copy(d / f, dst / f)
    meta = {
        "property": pid, "title": props[pid]["title"],
        "origin": f"independent sub-agent given only the property text, the list of earlier mechanisms to avoid, and a scratch worktree (round {rnd})",
        "breaks": "see NOTES.md (clause broken and trigger)", "needs_to_manifest": "see NOTES.md",
        "confirmed_on_repo_head": conf.get("repo_head", head),
        "what_i_ran": [f"scratch git worktree of /repo HEAD {conf.get('repo_head', head)}; demo on clean tree -> exit {conf.get('demo_clean_rc')}",
                       f"git apply patch; full suite: {conf.get('suite')}", f"demo with the change -> exit {conf.get('demo_patched_rc')}"],
        "demo": "demo.py" if (d / "demo.py").exists() else "test_demo.py",
    }
    (dst / "meta.json").write_text(json.dumps(meta, indent=1))
    print("archived", dst.name)
