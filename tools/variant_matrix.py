#!/venv/bin/python
"""Run every check on every mechanical behaviour-preserving variant (sa/variants.py).  Also verifies that the variant
still passes the pinned test suite (so it really is behaviour-preserving as far as the tests can tell)."""
import os, shutil, subprocess, sys, tempfile
from concurrent.futures import ThreadPoolExecutor
from pathlib import Path
V = Path(__file__).resolve().parents[1]
sys.path.insert(0, str(V))
from sa.variants import VARIANTS
PROPS = sys.argv[1:] or [f"C{i:02d}" for i in range(1, 19)]
ONLY = os.environ.get("VARIANT_ONLY")          # substring filter on variant names
if ONLY:
    VARIANTS = {k: v for k, v in VARIANTS.items() if any(o in k for o in ONLY.split("|"))}

def one(item):
    name, gen = item
    d = Path(tempfile.mkdtemp(prefix="sa_var_"))
    try:
        shutil.copytree("/repo/func_adl_xAOD", d / "func_adl_xAOD", ignore=shutil.ignore_patterns("__pycache__"))
        shutil.copytree("/repo/tests", d / "tests", ignore=shutil.ignore_patterns("__pycache__"))
        for f in ("README.md", "pytest.ini", "pyproject.toml", "version_info.py"):
            if Path("/repo", f).exists():
                shutil.copy(Path("/repo", f), d / f)
        gen(d)
        env = dict(os.environ, PYTHONPATH=str(d), PYTHONDONTWRITEBYTECODE="1")
        t = subprocess.run(["/venv/bin/python", "-m", "pytest", "-q", "-p", "no:cacheprovider", "-n", "4"], cwd=d, env=env, capture_output=True, text=True)
        tests = t.stdout.strip().splitlines()[-1] if t.stdout.strip() else t.stderr[-200:]
        env = dict(os.environ, SA_REPO=str(d), SA_EVIDENCE_DIR=str(d / "_ev"))
        res = {}
        for p in PROPS:
            r = subprocess.run([str(V / "check"), p, "--tier", "quick"], cwd=V, env=env, capture_output=True, text=True)
            if r.returncode:
                res[p] = (r.returncode, [l.strip()[:230] for l in r.stdout.splitlines() if l.strip().startswith("FAIL") or "ANALYSIS-ERROR" in l][:6])
        return name, tests, res
    finally:
        shutil.rmtree(d, ignore_errors=True)

with ThreadPoolExecutor(4) as ex:
    for name, tests, res in ex.map(one, VARIANTS.items()):
        print(f"== {name}: tests: {tests}")
        for p, (rc, lines) in res.items():
            print(f"   {p} rc={rc}")
            for l in lines:
                print("      ", l)
