#!/venv/bin/python
"""Coverage probe for the template directory: delete one line at a time (non-blank, not a pure comment) and run the checks that read
templates on a scratch copy.  Development tool; its output (which lines no rule depends on) is triaged by hand.
usage: tools/template_sweep.py <out dir> [workers]"""
import json, os, shutil, subprocess, sys, tempfile, queue
from concurrent.futures import ThreadPoolExecutor
from pathlib import Path
V = Path(__file__).resolve().parents[1]
REPO = Path("/repo")
PROPS = ["C01", "C02", "C03", "C04", "C05", "C06", "C12", "C14", "C15", "C16", "C17"]
out = Path(sys.argv[1]); out.mkdir(parents=True, exist_ok=True)
nw = int(sys.argv[2]) if len(sys.argv) > 2 else 5
muts = []
for f in sorted((REPO / "func_adl_xAOD/template").rglob("*")):
    if not f.is_file() or f.suffix == ".md":
        continue
    lines = f.read_text().splitlines(keepends=True)
    for i, l in enumerate(lines):
        t = l.strip()
        if not t or t.startswith("#") and not t.startswith("#include") and not t.startswith("#!") and not t.startswith("#ifndef") and not t.startswith("#define") and not t.startswith("#endif") \
                or t.startswith("//") or t.startswith("/*") or t.startswith("*"):
            continue
        muts.append({"file": str(f.relative_to(REPO)), "line": i + 1, "text": t[:80]})
print(len(muts), "line deletions", flush=True)
dirs = queue.Queue()
for i in range(nw):
    d = Path(tempfile.mkdtemp(prefix="tsweep_"))
    shutil.copytree(REPO / "func_adl_xAOD", d / "func_adl_xAOD", ignore=shutil.ignore_patterns("__pycache__"))
    shutil.copy(REPO / "README.md", d / "README.md")
    dirs.put(d)

def run(m):
    d = dirs.get()
    try:
        p = d / m["file"]
        orig = p.read_text()
        ls = orig.splitlines(keepends=True)
        del ls[m["line"] - 1]
        p.write_text("".join(ls))
        env = dict(os.environ, SA_REPO=str(d), SA_EVIDENCE_DIR=str(d / "_ev"))
        res = {}
        for pr in PROPS:
            r = subprocess.run([str(V / "check"), pr, "--tier", "quick"], cwd=V, env=env, capture_output=True, text=True)
            if r.returncode:
                res[pr] = r.returncode
        p.write_text(orig)
        m["checks"] = res
        return m
    finally:
        dirs.put(d)

with open(out / "lines.jsonl", "w") as fh, ThreadPoolExecutor(nw) as ex:
    for k, m in enumerate(ex.map(run, muts)):
        fh.write(json.dumps(m) + "\n"); fh.flush()
        if (k + 1) % 50 == 0:
            print(k + 1, "done", flush=True)
un = [m for m in muts if not any(v == 1 for v in m["checks"].values())]
json.dump({"lines": len(muts), "flagged": len(muts) - len(un), "unflagged": un}, open(out / "summary.json", "w"), indent=1)
print("lines", len(muts), "unflagged", len(un))
