"""CLI: ./check <ID> [--tier quick|thorough] [--replay path]"""
import argparse
import importlib
import os
import sys

from sa.core.common import run_property

PROPS = [f"C{i:02d}" for i in range(1, 19)]


def main():
    ap = argparse.ArgumentParser()
    ap.add_argument("prop")
    ap.add_argument("--tier", default=os.environ.get("VERIF_TIER", "quick"), choices=["quick", "thorough"])
    ap.add_argument("--replay", default=None)
    a = ap.parse_args()
    if a.prop == "all":
        rc = 0
        for p in PROPS:
            rc = max(rc, run_one(p, a.tier))
        return rc
    return run_one(a.prop, a.tier)


def run_one(prop, tier):
    try:
        mod = importlib.import_module(f"sa.props.{prop.lower()}")
    except ModuleNotFoundError:
        print(f"ANALYSIS-ERROR property={prop} no checker implemented")
        return 2
    selftest = None
    try:
        from sa.selftest import run_selftest
        selftest = run_selftest
    except ModuleNotFoundError:
        pass
    return run_property(prop, tier, mod.check, mod.EXPLANATION, mod.ASSUMPTIONS, selftest)


if __name__ == "__main__":
    sys.exit(main())
