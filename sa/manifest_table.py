"""Per-property MANIFEST text (level, trusted base, technique)."""

ENGINES = [
    {"name": "sa", "path": "/verif/sa", "serves_properties": [f"C{i:02d}" for i in range(1, 19)],
     "kind_free_text": "repository-specific static analysers over Python ast (resolved names, structured path enumeration, "
                       "emission-cursor typestate, string-template analysis), jinja2 parse trees, a bash-subset parser and README tables"},
]

CHECKS = {
    "C12": {
        "text": "Decides the table/dataflow clauses of the property on every run: README list subset of table, every row maps to "
                "its C++ namesake (frozen alias table), header/type columns, str-vs-terminal kind agreement of the return type "
                "between all producers and the consumer, the emission handler forwards includes and all arguments. "
                "Complete over the finite table; numerical equality of std::<name> with the python function is assumed, not checked.",
        "note": "Trusted: std::<name> in <cmath> computes the namesake; README is the list of documented names. Not decided: values.",
        "technique": "static table extraction from ast + namesake oracle + def-use kind check",
    },
}

NOT_APPLICABLE = {}
