"""Per-property MANIFEST text (level, trusted base, technique)."""

ENGINES = [
    {"name": "sa", "path": "/verif/sa", "serves_properties": [f"C{i:02d}" for i in range(1, 19)],
     "kind_free_text": "repository-specific static analysers over Python ast (resolved names, structured path enumeration, "
                       "emission-cursor typestate, string-template analysis), jinja2 parse trees, a bash-subset parser and README tables"},
]

CHECKS = {
    "C12": {
        "text": "Decides the table/dataflow clauses of the property on every run: README list subset of table, every row maps to "
                "its C++ namesake (frozen alias table), header/type columns, str-vs-terminal kind agreement of the return type "
                "between all producers and the consumer, the emission handler forwards includes and all arguments. "
                "Complete over the finite table; numerical equality of std::<name> with the python function is assumed, not checked.",
        "note": "Trusted: std::<name> in <cmath> computes the namesake; README is the list of documented names. Not decided: values.",
        "technique": "static table extraction from ast + namesake oracle + def-use kind check",
    },
}

CHECKS["C14"] = {
    "text": "Decides a five-table agreement on every run (InjectCodeBlock fields = README keys = executor properties = info keys = "
            "template loop variables), the C++/CMake region of every slot (brace/paren matcher on tag-blanked template text), that "
            "slots are bare and unfiltered, that the jinja Environment has no text-altering option, ordered concatenation, and the "
            "duplicate/conflict/unknown-field logic of process_metadata. Complete over the finite set of fields and templates.",
    "note": "Trusted: jinja2 renders a bare {{x}} of a str unaltered with default Environment options; region names map to the "
            "documented C++ places. Not decided: nothing is rendered, so a jinja2 bug or a C++ macro changing the meaning of a region is out of scope.",
    "technique": "jinja2 parse-tree + brace-matched region classification + ast table agreement",
}
CHECKS["C15"] = {
    "text": "Decides the guarded-emission shape of generate_script_block (control dependence of the single output writer on not-seen and "
            "dependencies-subset-of-seen, seen.add in the same branch, progress-or-ValueError sweep, every copy's depends_on merged on every "
            "path, conflict and missing-dependency raises before emission) and the wiring metadata -> executor -> template slot. These are "
            "necessary conditions of the property; correctness of the ordering algorithm over every graph is not proved.",
    "note": "Trusted: the emit-when-dependencies-seen scheme is correct given its guards. Not decided: algorithmic correctness for all graphs/arrival orders; a "
            "rewrite that decides readiness in another way (counters, a work list) is answered `not decided` (exit 2), never a pass and never an alarm.",
    "technique": "syntax-directed control dependence + structured path enumeration over ast; jinja2 parse tree for the slot",
}

CHECKS["C07"] = {
    "text": "Decides the property as an effect/ownership statement over the whole package: every cell of state that survives a translation "
            "(module-level mutables, names rebound under global, class attributes, mutable defaults, executor attributes) is inventoried; "
            "every write to one (through local aliases and helper calls, all 300+ functions, not only those reachable from the entry points) "
            "must be covered by executor.reset re-initialising it to a fresh value, or be on a two-line allow-list with reasons; both entry "
            "points must reach reset() on every exit incl. exceptions; registries are not aliased or imported by value; visitor and cursor "
            "are fresh per translation. Carriers outside the executor are covered by their own rules: the output file is replaced, not overlaid (truncating "
            "write), the dataset object is not written from per-query values (taint from the method arguments), translation code leaves no attribute "
            "on query nodes except the validated rep/scope pair, reset() clears only what a translation writes (configuration survives), each "
            "backend's default types survive another executor's reset, the caller's tree is copied before in-place passes (the last two are known "
            "findings on the pinned tree). Sound for the modelled heap (locals, attributes, subscripts, returns/mutates summaries); precision "
            "limits are listed in the note.",
    "note": "Assumes objects created inside a translation die with it. Flow-insensitive, "
            "field-insensitive points-to over names; aliasing through containers of containers or through func_adl/jinja2 internals is not "
            "modelled. unique_var_index is allowed to survive (numbering is factored out by the property).",
    "technique": "inter-procedural effect analysis (points-to fixpoint + returns/mutates summaries) with reset-coverage and exit-path rules",
}

CHECKS["C17"] = {
    "text": "Decides, on source that no test imports, the order and shape clauses of the property: constructor validation, the event "
            "order on every enumerated path of execute_result_async (fresh executor, docker metadata registered, package generated into the "
            "temp dir, /data/<name> list in self.files order, same-directory equality test raising before docker.run), the docker.run call "
            "shape (image default + md[-1] override under len(md)>0, /scripts/<main_script>, the three mounts and modes, cache volumes, "
            "remove=True), re-raise in every except clause with the single return after the run through _extract_result_TTree, the "
            "TemporaryDirectory context manager around everything, and agreement with the runner scripts and backend executors.",
    "note": "Trusted: python_on_whales.docker.run and tempfile.TemporaryDirectory semantics. Not decided: behaviour of docker, partial output of a "
            "failing container, what the image does with the mounts.",
    "technique": "structured path enumeration + control-dependence guards + call-shape matching over ast; regex facts from runner.sh",
}

CHECKS["C16"] = {
    "text": "Decides, for all three runner scripts, the errexit discipline (set -e first and never undone; every step command in a plain "
            "errexit context), the flag table (getopts string, per-arm assignments, exit 10, exit 1 on stray arguments, identical across "
            "scripts), the compile/run phase split and -r reuse directory, input selection with a truncating redirect, and that delivery to "
            "a destination derived from $output_dir is the last step after the single job step on every run path. Exhaustive over the "
            "commands of the scripts (about 200 command instances).",
    "note": "Trusted: bash set -e semantics as documented; tools return non-zero on failure. The parser accepts only the bash subset in use and "
            "fails closed (exit 2) outside it. Not decided: tool behaviour, partial writes of a failing copy/conversion.",
    "technique": "hand-written bash-subset parser; errexit-context and guard annotation of every command; rule checks on the command tree",
}

CHECKS["C01"] = {
    "text": "Decides structural necessary conditions of row/value correctness in the translator, not the equivalence itself: emission-cursor "
            "typestate over every path of all ~48 handlers (a handler only pops what it pushed or restored; frozen handler contracts; passive "
            "handlers never move the cursor; tuple/list/dict elements translated with retain_scope), Select/Where reuse the source iterator, "
            "accumulator declared one block outside its loop and updated at the sequence-value scope, no variable initialiser computed from a "
            "translated sub-expression (declarations are hoisted), rep cache reused only under starts_with, normalisation pipeline order, Fill "
            "at the mainline scope, top_level_scope() only at frozen sites, both CMS configurations process all events, Range filled by std::iota before its loop, retain_scope defaults, the -d input replaces the list. Breaking any of them "
            "breaks rows/values for some query; holding all of them does not prove the rows right.",
    "note": "Not decided (needs execution): LINQ row/value equivalence for all queries x events; the runtime scope algebra of util_scope "
            "(starts_with, deepest_scope, [-1]) and code_fill_ttree's placement decisions; func_adl's own normalisations. Known findings "
            "(hoisted Aggregate seed, miniAOD maxEvents=10, First() of nested sequences, terminals after SelectMany, two uses of one bound sequence "
            "sharing a loop) are listed in known_findings.txt; the hoisted Range bounds were repaired (db2d94b).",
    "technique": "abstract interpretation of the emission cursor (typestate) over structured paths + def-use checks on ast",
}
CHECKS["C04"] = {
    "text": "Decides the event order inside the four handlers that implement laziness and the First() protocol: later and/or operands and "
            "both arms of a conditional are translated only after their guarding if/else block has been pushed, are assigned inside it, and "
            "the cursor is restored; and/or polarity; Where pushes its if after translating the filter and publishes the scope inside it; "
            "First declares its flag outside the loop with initial true, opens if(flag){flag=false} at the sequence-value scope and attaches "
            "if(flag){throw} after the loop; indexing uses at(); container elements are translated with retain_scope.",
    "note": "Trusted: the scope tokens place blocks as the typestate says (runtime scope algebra); C++ semantics of if/else/at(). Not decided: "
            "that for every composition the guard block encloses the guarded statements at run time.",
    "technique": "emission-cursor typestate over structured paths; template/def-use matching on ast",
}
CHECKS["C05"] = {
    "text": "Decides who may create cross-event C++ state (class-level variables: only TTree columns and booking-time token fields), that "
            "every push_back-filled column is cleared right after Fill under exactly rep_is_collection, that scalar columns are assigned "
            "unconditionally, that read-modify-write temporaries are initialised block locals, that the class templates hold no other data "
            "member/static/global, that the CMS configurations end the job on an exception, and that the runners rewrite the input list per run.",
    "note": "Trusted: C++ block-local lifetime; execute()/analyze() is the only per-event code. Not decided: relative placement of push_back and "
            "Fill/clear for an arbitrary composition; behaviour of opaque user C++ injected through metadata.",
    "technique": "who-may-call + control-dependence + cursor typestate on ast; C++ class-body member scan of the templates; bash-subset parser",
}

CHECKS["C02"] = {
    "text": "Decides the package-completeness and well-formedness clauses that are visible in the source: file list vs template directory "
            "vs what each runner copies, executable bit, returned info, every template variable provided for its backend, no jinja "
            "construct in plain files, no un-interpolated {braces} in emitted lines, declarations-before-statements in block.emit, per-use "
            "unique_name for every declarable variable, sanitised column identifiers, casts on type mismatch, Fill at the mainline scope, "
            "whole-word argument substitution, templates loaded per call from the executor's own directory, every C++ variable a handler creates is "
            "declared, and the emission pipeline (visitor -> generated_code -> template variables) forwards query, booking and class-declaration code.",
    "note": "Not decided: that the C++ compiles against the experiment headers; that a given composition puts each use inside the declaring block "
            "(runtime scope algebra). unique_name has no separator between base and index (_col1+3 vs _col+13): described in DESIGN, not checked.",
    "technique": "ast + jinja2 parse-tree agreement checks; string-template analysis; regex AST of the substitution pattern",
}
CHECKS["C03"] = {
    "text": "Decides that one list (name, variable typed by get_ttree_type(value)) feeds declaration, booking, filling and clearing unsliced; "
            "that on every path the count check precedes the column zips; default/dict naming; a single tree name and a current-scope "
            "descriptor; the booking/fill emitters of the three backends (template shapes); file-name agreement between the descriptor, the "
            "three runners, the EventLoop stream and CMS_OUTPUT_FILE; tree_type honoured; conditionals typed double.",
    "note": "Not decided: that the element type inferred for an arbitrary expression equals Python's. Trusted: TTree::Branch semantics.",
    "technique": "def-use / whole-list-use checks and path enumeration on ast; template shapes; cross-artefact literal agreement",
}
CHECKS["C06"] = {
    "text": "Decides placeholder agreement between get_collection and every backend coder's code lines (retrieval idiom per backend), the "
            "built-in specification tables, call validation by a propositional truth-table check of the guards, backend-name three-way "
            "agreement, README keys subset of allowed keys subset of keys read (helper calls inlined, key-list expressions evaluated, no growth through a shared "
            "alias), the (variable, initialiser) layout of instance fields between producer and consumer, de-duplicated forwarding of includes/libraries, per-use "
            "miniAOD tokens, a fresh code value per call with stateless coders, and children-first plug-in discovery on a per-query copy.",
    "note": "Trusted: framework semantics of retrieve/getByLabel/getByToken. Not decided: behaviour of the experiment framework on the request.",
    "technique": "ast table extraction, control-dependence with propositional evaluation of guards, template shapes, README tables",
}
CHECKS["C08"] = {
    "text": "Narrow by design: decides necessary conditions of the invariances - lambda parameters bound only inside their own stack_frame, by "
            "position, body translated in the same frame; argument stack consulted before the namespace registry; tuple and list handlers "
            "identical code (qastle has no tuple); plug-in rewriter children-first; metadata extracted first and method->call normalisation "
            "before name-keyed passes.",
    "note": "Not decided: the relational statement itself (two variants of every query give the same package); qastle and func_adl internals.",
    "technique": "lexical-scope and path-order checks on ast; sibling AST comparison",
}
CHECKS["C09"] = {
    "text": "Decides fail-closed structure: the representation gate, loud table lookups, every constant-index read of a list-valued AST field "
            "and every zip dominated by a length test (path enumeration + interval reasoning on len tests, call-site guards for private helpers), "
            "field coverage of every handled ast class against ast._fields, a frozen table of 22 explicit refusals (the fall-through statement itself must raise or call a helper that does), lambda parameters "
            "bound only in their own frame, collection-metadata key sets constant per backend, documented metadata keys "
            "read, operand type validation for every arithmetic operator, history-independent plug-in table.",
    "note": "Trusted: ast._fields of Python 3.12; the library dispatcher's summary. One known finding (raw-object columns accepted).",
    "technique": "path enumeration with length-interval guards, field-coverage set comparison, control-dependence on ast",
}
CHECKS["C10"] = {
    "text": "Decides that '.'/'->' are synthesised only by base_type_member_access (template scan with four frozen exceptions) from the "
            "declared indirection, the double fallback with warning, the metadata->registry mapping argument by argument, element-typed "
            "iteration/indexing, recursive qualified enum names, the loop shape of the indirection synthesis, the contract of parse_type (trailing stars only, const prefix removed as a prefix, no word "
            "given to a character-set strip) and of define_ns (cursor descends on every component).",
    "note": "Not decided: the depth arithmetic over all (pointer depth, deref_count) combinations as values - the C++ compiler is the judge.",
    "technique": "string-template scan + def-use and shape checks on ast",
}
CHECKS["C11"] = {
    "text": "Decides the substitution construction (one pass, function replacement, \\b(?:escaped names)\\b verified on the regex AST of a sample), "
            "the isolation protocol of process_ast_node by cursor typestate, arity/call-style refusals before the node is rewritten, forwarding of "
            "includes/libraries, whole-word self-consistency of every built-in specification, children-first discovery with callbacks bound to "
            "their own specification (late-binding closure lint), the add_cpp_function key->field mapping, per-use typed result variables.",
    "note": "Trusted: Python re semantics; C++ block scoping. Not decided: meaning of user-supplied C++.",
    "technique": "regex-AST (re._parser) check of the substitution pattern, cursor typestate, ast table checks",
}
CHECKS["C13"] = {
    "text": "Decides the operator tables against the language-level correspondence, expression templates, double-typed and int-promoted '/', "
            "std::pow typed double, priority table and widest-type selection, accumulator widening before the update is emitted, exact-type "
            "constant dispatch, casts on mismatch, conditionals typed double.",
    "note": "Not decided: numerical values; C++ conversions beyond the finite typing table. One known finding (% emitted for floating operands).",
    "technique": "ast table extraction vs oracle, template shapes, path-order checks",
}
CHECKS["C18"] = {
    "text": "Decides, over all 60+ C++ text sinks of the package, that no Python text is pasted between C++ double quotes except through "
            "cpp_string_literal (quote-parity analysis of string templates), that the escaper covers backslash, quote and control characters and applies its one-byte octal escape to control characters only "
            "(interval evaluation of the branch test), that generated files are written as strict UTF-8, that numbers render as their shortest "
            "round-trip text, that an injected line is emitted whole, "
            "that floats reject non-finite values, negatives are parenthesised, bools/other kinds handled by exact type, substitution inserts "
            "text literally, constants and collection calls are never memoised.",
    "note": "Trusted: Python's str() of a finite float/int is a valid C++ literal of the same value. One known finding (ints typed 32-bit).",
    "technique": "string-template (literal parts + holes) analysis with quote parity; control-dependence; regex AST",
}

NOT_APPLICABLE = {}
