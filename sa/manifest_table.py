"""Per-property MANIFEST text (level, trusted base, technique)."""

ENGINES = [
    {"name": "sa", "path": "/verif/sa", "serves_properties": [f"C{i:02d}" for i in range(1, 19)],
     "kind_free_text": "repository-specific static analysers over Python ast (resolved names, structured path enumeration, "
                       "emission-cursor typestate, string-template analysis), jinja2 parse trees, a bash-subset parser and README tables"},
]

CHECKS = {
    "C12": {
        "text": "Decides the table/dataflow clauses of the property on every run: README list subset of table, every row maps to "
                "its C++ namesake (frozen alias table), header/type columns, str-vs-terminal kind agreement of the return type "
                "between all producers and the consumer, the emission handler forwards includes and all arguments. "
                "Complete over the finite table; numerical equality of std::<name> with the python function is assumed, not checked.",
        "note": "Trusted: std::<name> in <cmath> computes the namesake; README is the list of documented names. Not decided: values.",
        "technique": "static table extraction from ast + namesake oracle + def-use kind check",
    },
}

CHECKS["C14"] = {
    "text": "Decides a five-table agreement on every run (InjectCodeBlock fields = README keys = executor properties = info keys = "
            "template loop variables), the C++/CMake region of every slot (brace/paren matcher on tag-blanked template text), that "
            "slots are bare and unfiltered, that the jinja Environment has no text-altering option, ordered concatenation, and the "
            "duplicate/conflict/unknown-field logic of process_metadata. Complete over the finite set of fields and templates.",
    "note": "Trusted: jinja2 renders a bare {{x}} of a str unaltered with default Environment options; region names map to the "
            "documented C++ places. Not decided: nothing is rendered, so a jinja2 bug or a C++ macro changing the meaning of a region is out of scope.",
    "technique": "jinja2 parse-tree + brace-matched region classification + ast table agreement",
}
CHECKS["C15"] = {
    "text": "Decides the guarded-emission shape of generate_script_block (control dependence of the single output writer on not-seen and "
            "dependencies-subset-of-seen, seen.add in the same branch, progress-or-ValueError sweep, every copy's depends_on merged on every "
            "path, conflict and missing-dependency raises before emission) and the wiring metadata -> executor -> template slot. These are "
            "necessary conditions of the property; correctness of the ordering algorithm over every graph is not proved.",
    "note": "Trusted: the emit-when-dependencies-seen scheme is correct given its guards. Not decided: algorithmic correctness for all graphs/arrival orders.",
    "technique": "syntax-directed control dependence + structured path enumeration over ast; jinja2 parse tree for the slot",
}

CHECKS["C07"] = {
    "text": "Decides the property as an effect/ownership statement over the whole package: every cell of state that survives a translation "
            "(module-level mutables, names rebound under global, class attributes, mutable defaults, executor attributes) is inventoried; "
            "every write to one (through local aliases and helper calls, all 300+ functions, not only those reachable from the entry points) "
            "must be covered by executor.reset re-initialising it to a fresh value, or be on a two-line allow-list with reasons; both entry "
            "points must reach reset() on every exit incl. exceptions; registries are not aliased or imported by value; visitor and cursor "
            "are fresh per translation. Sound for the modelled heap (locals, attributes, subscripts, returns/mutates summaries); precision "
            "limits are listed in the note.",
    "note": "Assumes each query arrives as its own AST object and that objects created inside a translation die with it. Flow-insensitive, "
            "field-insensitive points-to over names; aliasing through containers of containers or through func_adl/jinja2 internals is not "
            "modelled. unique_var_index is allowed to survive (numbering is factored out by the property).",
    "technique": "inter-procedural effect analysis (points-to fixpoint + returns/mutates summaries) with reset-coverage and exit-path rules",
}

CHECKS["C17"] = {
    "text": "Decides, on source that no test imports, the order and shape clauses of the property: constructor validation, the event "
            "order on every enumerated path of execute_result_async (fresh executor, docker metadata registered, package generated into the "
            "temp dir, /data/<name> list in self.files order, same-directory equality test raising before docker.run), the docker.run call "
            "shape (image default + md[-1] override under len(md)>0, /scripts/<main_script>, the three mounts and modes, cache volumes, "
            "remove=True), re-raise in every except clause with the single return after the run through _extract_result_TTree, the "
            "TemporaryDirectory context manager around everything, and agreement with the runner scripts and backend executors.",
    "note": "Trusted: python_on_whales.docker.run and tempfile.TemporaryDirectory semantics. Not decided: behaviour of docker, partial output of a "
            "failing container, what the image does with the mounts.",
    "technique": "structured path enumeration + control-dependence guards + call-shape matching over ast; regex facts from runner.sh",
}

CHECKS["C16"] = {
    "text": "Decides, for all three runner scripts, the errexit discipline (set -e first and never undone; every step command in a plain "
            "errexit context), the flag table (getopts string, per-arm assignments, exit 10, exit 1 on stray arguments, identical across "
            "scripts), the compile/run phase split and -r reuse directory, input selection with a truncating redirect, and that delivery to "
            "a destination derived from $output_dir is the last step after the single job step on every run path. Exhaustive over the "
            "commands of the scripts (about 200 command instances).",
    "note": "Trusted: bash set -e semantics as documented; tools return non-zero on failure. The parser accepts only the bash subset in use and "
            "fails closed (exit 2) outside it. Not decided: tool behaviour, partial writes of a failing copy/conversion.",
    "technique": "hand-written bash-subset parser; errexit-context and guard annotation of every command; rule checks on the command tree",
}

NOT_APPLICABLE = {}
