"""Thorough tier: self-validation of the checkers (DESIGN 1.3).

For the property under check:
  * every archived seeded change of that property (/verif/seeded/<ID>-n/patch.diff) and every synthetic fixture
    (/verif/sa/fixtures/<ID>-*.diff) is applied to a scratch copy of /repo's current func_adl_xAOD + README and the check
    must report a VIOLATION naming the recorded rule instance;
  * behaviour-preserving variants of the current tree (ast.unparse round trip of every module, black re-formatting
    at two line lengths, the archived benign patches) must NOT raise a VIOLATION (exit 0 required);
  * a consistent renaming of function-local variables, and seven mechanical re-spellings of the whole package (sa/variants.py: a debug
    log line in every function, if/else swapped under a negated test, annotated locals, returned expressions bound to a temporary,
    comparisons spelled with `not`, else after a terminating if-body, f-strings as concatenations) must not raise a VIOLATION either
    (exit 0 or 2 accepted: an anchor that cannot be found is analysis-broken, never a false alarm).
A failure is an ANALYSIS-ERROR of the checker, not a violation of the property.  Variants whose patch does not
apply to the (possibly edited) current tree are recorded as skipped.  Scratch copies live under tempfile.mkdtemp()
and are removed immediately.
"""
from __future__ import annotations

import ast
import json
import os
import shutil
import subprocess
import tempfile
from concurrent.futures import ThreadPoolExecutor
from pathlib import Path
from typing import Any, Dict, List, Optional, Tuple

from sa.core.common import REPO, VERIF, AnalysisError

SEEDED = VERIF / "seeded"
FIXTURES = VERIF / "sa" / "fixtures"


def _scratch() -> Path:
    d = Path(tempfile.mkdtemp(prefix="sa_self_"))
    shutil.copytree(REPO / "func_adl_xAOD", d / "func_adl_xAOD", ignore=shutil.ignore_patterns("__pycache__"))
    shutil.copy(REPO / "README.md", d / "README.md")
    return d


def _run(prop: str, d: Path) -> Tuple[int, str]:
    env = dict(os.environ, SA_REPO=str(d), SA_EVIDENCE_DIR=str(d / "_ev"), VERIF_TIER="quick")
    r = subprocess.run([str(VERIF / "check"), prop, "--tier", "quick"], cwd=VERIF, env=env, capture_output=True, text=True)
    return r.returncode, r.stdout


def _apply(d: Path, patch: Path) -> bool:
    r = subprocess.run(["patch", "-p1", "--no-backup-if-mismatch", "-s", "-i", str(patch)], cwd=d, capture_output=True, text=True)
    return r.returncode == 0


def _py_files(d: Path) -> List[Path]:
    return [p for p in (d / "func_adl_xAOD").rglob("*.py") if "template" not in p.relative_to(d).parts]


# ------------------------------------------------------------------ variant generators
def v_unparse(d: Path):
    for p in _py_files(d):
        p.write_text(ast.unparse(ast.parse(p.read_text())) + "\n")


try:
    import black as _black
except Exception:  # pragma: no cover
    _black = None


def v_black(line_length: int):
    def f(d: Path):
        if _black is None:
            raise FileNotFoundError("black is not available")
        black = _black
        mode = black.Mode(line_length=line_length)
        for p in _py_files(d):
            try:
                p.write_text(black.format_str(p.read_text(), mode=mode))
            except Exception:
                pass
    return f


class _Renamer(ast.NodeTransformer):
    """Rename names that are assigned inside a function (locals), consistently through nested scopes."""

    def __init__(self):
        self.stack: List[Dict[str, str]] = []

    def _locals(self, fn) -> Dict[str, str]:
        params = {a.arg for a in fn.args.posonlyargs + fn.args.args + fn.args.kwonlyargs}
        if fn.args.vararg:
            params.add(fn.args.vararg.arg)
        if fn.args.kwarg:
            params.add(fn.args.kwarg.arg)
        glob = set()
        assigned = set()
        todo = list(fn.body)
        while todo:
            n = todo.pop()
            if isinstance(n, (ast.FunctionDef, ast.AsyncFunctionDef, ast.ClassDef, ast.Lambda)):
                continue
            if isinstance(n, (ast.Global, ast.Nonlocal)):
                glob |= set(n.names)
            if isinstance(n, ast.Name) and isinstance(n.ctx, ast.Store):
                assigned.add(n.id)
            todo.extend(ast.iter_child_nodes(n))
        return {x: x + "_v" for x in assigned - params - glob if not x.startswith("__")}

    def _defaults(self, node):
        node.args.defaults = [self.visit(d) for d in node.args.defaults]
        node.args.kw_defaults = [self.visit(d) if d is not None else None for d in node.args.kw_defaults]

    def visit_FunctionDef(self, node):
        self._defaults(node)
        self.stack.append(self._locals(node))
        node.body = [self.visit(s) for s in node.body]
        self.stack.pop()
        return node

    visit_AsyncFunctionDef = visit_FunctionDef

    def visit_Lambda(self, node):
        self._defaults(node)
        params = {a.arg for a in node.args.args}
        self.stack.append({p: p for p in params})     # shadow
        node.body = self.visit(node.body)
        self.stack.pop()
        return node

    def visit_ClassDef(self, node):
        saved = self.stack
        self.stack = []
        node.body = [self.visit(s) for s in node.body]
        self.stack = saved
        return node

    def visit_Name(self, node):
        for m in reversed(self.stack):
            if node.id in m:
                node.id = m[node.id]
                break
        return node


def v_rename_locals(d: Path):
    for p in _py_files(d):
        tree = ast.parse(p.read_text())
        tree = _Renamer().visit(tree)
        ast.fix_missing_locations(tree)
        p.write_text(ast.unparse(tree) + "\n")


def v_patch(patch: Path):
    def f(d: Path):
        if not _apply(d, patch):
            raise FileNotFoundError("patch does not apply")
    return f


# ------------------------------------------------------------------ driver
def _one(prop: str, kind: str, name: str, gen, expect_keys: Optional[List[str]]):
    d = _scratch()
    try:
        try:
            gen(d)
        except FileNotFoundError:
            return {"kind": kind, "name": name, "status": "skipped (does not apply to the current tree)"}
        rc, out = _run(prop, d)
        fails = [l.strip() for l in out.splitlines() if l.strip().startswith("FAIL")]
        if kind == "seed-not-decided":
            return {"kind": kind, "name": name, "status": {1: "fired (now detected)", 2: "analysis-error", 0: "silent (recorded blind spot)"}.get(rc, str(rc)),
                    "ok": True, "reported": fails[:1]}
        if kind == "seed-known-miss":
            return {"kind": kind, "name": name, "status": {1: "fired (now detected)", 2: "analysis-error (not decided on this shape)", 0: "silent"}.get(rc, str(rc)),
                    "ok": rc != 0, "reported": fails[:1]}
        if kind == "seed":
            named = [k for k in (expect_keys or []) if any(k in f for f in fails)]
            ok = rc == 1 and (not expect_keys or bool(named))
            return {"kind": kind, "name": name, "status": "fired" if ok else f"NOT DETECTED (rc={rc})", "ok": ok, "reported": fails[:2]}
        if kind == "benign-undecided-ok":
            ok = rc in (0, 2)
            return {"kind": "benign", "name": name, "status": {0: "silent", 2: "not decided on this shape (recorded)"}.get(rc, f"ALARM rc={rc}"), "ok": ok,
                    "reported": (fails or out.splitlines()[-2:])[:2]}
        if kind == "benign":
            ok = rc == 0
            return {"kind": kind, "name": name, "status": "silent" if ok else f"ALARM/ERROR rc={rc}", "ok": ok, "reported": (fails or out.splitlines()[-2:])[:2]}
        ok = rc in (0, 2)
        return {"kind": kind, "name": name, "status": {0: "silent", 2: "analysis-error (anchor not found)"}.get(rc, "FALSE ALARM"), "ok": ok,
                "reported": fails[:2] or [l for l in out.splitlines() if "ANALYSIS-ERROR" in l][:1]}
    finally:
        shutil.rmtree(d, ignore_errors=True)


def run_selftest(prop: str) -> Dict[str, Any]:
    jobs = []
    for sd in sorted(SEEDED.glob(f"{prop}-*")):
        patch = sd / "patch.diff"
        meta = json.loads((sd / "meta.json").read_text()) if (sd / "meta.json").exists() else {}
        keys = []
        for inst in meta.get("rule_instances", {}).get(prop, []):
            keys.append(inst.split(" [")[0])          # "Cxx.Rn construct"
        if meta.get("not_decided"):
            jobs.append(("seed-not-decided", sd.name, v_patch(patch), keys))     # recorded blind spot: reported, never counted as detected
        elif meta.get("detected_by_own_property_check") is False:
            jobs.append(("seed-known-miss", sd.name, v_patch(patch), keys))   # recorded limitation: must at least not pass silently
        else:
            jobs.append(("seed", sd.name, v_patch(patch), keys))
    for fx in sorted(FIXTURES.glob(f"{prop}-*.diff")):
        jobs.append(("seed", "fixture:" + fx.stem, v_patch(fx), []))
    jobs.append(("benign", "ast.unparse round trip of every module", v_unparse, None))
    jobs.append(("benign", "black line-length 60", v_black(60), None))
    jobs.append(("benign", "black line-length 140", v_black(140), None))
    for b in sorted((SEEDED / "benign").glob("*/patch.diff")):
        bm = json.loads((b.parent / "meta.json").read_text()) if (b.parent / "meta.json").exists() else {}
        kind_b = "benign-undecided-ok" if prop in bm.get("undecided_ok", []) else "benign"
        jobs.append((kind_b, "benign:" + b.parent.name, v_patch(b), None))
    jobs.append(("rename", "function-local variables renamed", v_rename_locals, None))
    from sa.variants import VARIANTS
    for vname, gen in VARIANTS.items():
        jobs.append(("rename", "re-spelling: " + vname, gen, None))
    with ThreadPoolExecutor(min(16, len(jobs))) as ex:
        res = list(ex.map(lambda j: _one(prop, *j), jobs))
    bad = [r for r in res if r.get("ok") is False]
    summary = {
        "seeded_changes_fired": sum(1 for r in res if r["kind"] == "seed" and r.get("ok")),
        "seeded_changes_total": sum(1 for r in res if r["kind"] == "seed" and "skipped" not in r["status"]),
        "benign_variants_silent": sum(1 for r in res if r["kind"] == "benign" and r.get("ok")),
        "benign_variants_total": sum(1 for r in res if r["kind"] == "benign" and "skipped" not in r["status"]),
        "rename_variant": [r["status"] for r in res if r["kind"] == "rename"],
        "skipped": [r["name"] for r in res if "skipped" in r["status"]],
        "results": res,
    }
    print(f"  self-validation: seeds fired {summary['seeded_changes_fired']}/{summary['seeded_changes_total']}, "
          f"benign silent {summary['benign_variants_silent']}/{summary['benign_variants_total']}, rename: {summary['rename_variant']}, "
          f"skipped {len(summary['skipped'])}")
    if bad:
        raise AnalysisError("checker self-validation failed: " + "; ".join(f"{r['kind']} {r['name']}: {r['status']} {r.get('reported')}" for r in bad)[:900])
    return summary
