"""E-SCOPE: abstract interpretation of the *emission cursor* (generated_code's scope
stack) along the structured paths of a handler.

State = (base, pushed): `base` is a symbolic token ("entry", "unknown#k" after a
nested translation, "derived:<expr>" after set_scope(<expr>)), `pushed` the kinds
of the blocks this handler itself pushed on top of it.  Scope tokens captured
with current_scope() are bound to the state at capture time.
"""
from __future__ import annotations

import ast
from dataclasses import dataclass, field
from typing import Dict, List, Optional, Tuple

from .common import AnalysisError
from .paths import Ev, Path, enumerate_paths
from .pyfacts import Func, Repo, call_name, kwarg, src

BLOCK_KINDS = {"block", "loop", "iftest", "elsephrase"}
NESTED = {"get_rep", "get_rep_value", "as_sequence", "visit", "generic_visit", "get_as_ROOT", "visit_Call", "process_ast_node"}


@dataclass(frozen=True)
class St:
    base: str
    pushed: Tuple[str, ...] = ()

    def __str__(self):
        return f"{self.base}+{list(self.pushed)}" if self.pushed else self.base


@dataclass
class Rec:
    kind: str            # push | pop | capture | restore | set-derived | emit | declare-here | declare-on | nested | read-scope | helper
    ev: Ev
    before: St
    after: St
    what: str = ""       # block kind / statement ctor / token name / callee
    arg: Optional[ast.AST] = None


def is_cursor(e: ast.AST) -> bool:
    return (isinstance(e, ast.Attribute) and e.attr == "_gc") or (isinstance(e, ast.Name) and e.id == "gc")


class ScopeInterp:
    def __init__(self, repo: Repo):
        self.repo = repo
        self.stmt_mod = repo.mod("common.statement")
        self.block_classes = set()
        blk = self.stmt_mod.classes.get("block")
        if blk is None:
            raise AnalysisError("statement.block class not found")
        for c in self.stmt_mod.classes.values():
            if blk in repo.mro(c):
                self.block_classes.add(c.name)
        self._effects: Dict[str, Optional[Tuple[str, ...]]] = {}
        self._in_progress = set()
        self.unknown_counter = 0

    # -------------------------------------------------------------- helpers
    def block_kind(self, f: Func, e: ast.AST, fn: ast.AST) -> Optional[str]:
        """If expression e evaluates to a freshly constructed block subclass instance, its class name."""
        if isinstance(e, ast.Call):
            n = call_name(e)
            if n in self.block_classes:
                return n
            return None
        if isinstance(e, ast.Name):
            defs = [st.value for st in ast.walk(fn) if isinstance(st, ast.Assign) and len(st.targets) == 1
                    and isinstance(st.targets[0], ast.Name) and st.targets[0].id == e.id]
            kinds = {self.block_kind(f, d, fn) for d in defs}
            if len(kinds) == 1:
                return kinds.pop()
        return None

    def helper_effect(self, f: Func, callee: Func, depth: int) -> Optional[Tuple[str, ...]]:
        """Net pushes of a repo helper when run from a known state, or None if it leaves the cursor unknown."""
        if callee.qual in self._effects:
            return self._effects[callee.qual]
        if callee.qual in self._in_progress or depth > 3:
            return None
        self._in_progress.add(callee.qual)
        try:
            res = self.run(callee, depth + 1)
            ends = set()
            for recs, end, status in res:
                if status == "raise":
                    continue
                if end.base != "entry":
                    ends.add(None)
                else:
                    ends.add(end.pushed)
            eff = ends.pop() if len(ends) == 1 else None
        finally:
            self._in_progress.discard(callee.qual)
        self._effects[callee.qual] = eff
        return eff

    # -------------------------------------------------------------- interpretation
    def run(self, f: Func, depth: int = 0, unroll: int = 1):
        """[(records, end state, path status)] for every path of f."""
        out = []
        fn = f.node
        for p in enumerate_paths(fn, unroll=unroll):
            out.append(self.run_path(f, p, depth))
        return out

    def run_path(self, f: Func, p: Path, depth: int = 0):
        fn = f.node
        st = St("entry")
        tokens: Dict[str, St] = {}
        recs: List[Rec] = []
        for ev in p.events:
            if ev.kind == "assign" and isinstance(ev.node, ast.Assign) and len(ev.node.targets) == 1 \
                    and isinstance(ev.node.targets[0], ast.Name):
                v = ev.node.value
                if isinstance(v, ast.Call) and call_name(v) == "current_scope" and isinstance(v.func, ast.Attribute) and is_cursor(v.func.value):
                    tokens[ev.node.targets[0].id] = st
                    recs.append(Rec("capture", ev, st, st, ev.node.targets[0].id))
                elif isinstance(v, ast.Name) and v.id in tokens:
                    tokens[ev.node.targets[0].id] = tokens[v.id]
                else:
                    tokens.pop(ev.node.targets[0].id, None)
                continue
            if ev.kind != "call":
                continue
            c = ev.node
            n = call_name(c)
            recv = c.func.value if isinstance(c.func, ast.Attribute) else None
            if recv is not None and is_cursor(recv):
                if n == "add_statement":
                    a = c.args[0] if c.args else None
                    below = kwarg(c, "below") or (c.args[1] if len(c.args) > 1 else None)
                    k = self.block_kind(f, a, fn) if a is not None else None
                    if k and below is None:
                        new = St(st.base, st.pushed + (k,))
                        recs.append(Rec("push", ev, st, new, k, a))
                        st = new
                    else:
                        recs.append(Rec("emit", ev, st, st, call_name(a) if isinstance(a, ast.Call) else src(a), a))
                elif n == "pop_scope":
                    if st.pushed:
                        new = St(st.base, st.pushed[:-1])
                        recs.append(Rec("pop", ev, st, new, st.pushed[-1]))
                    else:
                        new = St(f"popped({st.base})")
                        recs.append(Rec("pop", ev, st, new, "?"))
                    st = new
                elif n == "set_scope":
                    a = c.args[0] if c.args else None
                    if isinstance(a, ast.Name) and a.id in tokens:
                        new = tokens[a.id]
                        recs.append(Rec("restore", ev, st, new, a.id, a))
                    else:
                        new = St("derived:" + src(a))
                        recs.append(Rec("set-derived", ev, st, new, src(a), a))
                    st = new
                elif n == "current_scope":
                    recs.append(Rec("read-scope", ev, st, st))
                elif n == "declare_variable":
                    recs.append(Rec("declare-here", ev, st, st, src(c.args[0]) if c.args else "", c.args[0] if c.args else None))
                elif n in ("declare_class_variable", "add_book_statement", "add_include", "add_link_library", "get_rep", "set_rep"):
                    recs.append(Rec("cursor-other", ev, st, st, n))
                else:
                    recs.append(Rec("cursor-other", ev, st, st, n))
                continue
            if n == "declare_variable" and recv is not None:
                recs.append(Rec("declare-on", ev, st, st, src(recv), c.args[0] if c.args else None))
                continue
            # nested translations
            is_self = recv is not None and isinstance(recv, ast.Name) and recv.id in ("self", "visitor")
            explicit_base = recv is not None and src(recv) in ("FuncADLNodeVisitor", "cpp_ast")
            if (is_self or explicit_base) and n in NESTED:
                rs = kwarg(c, "retain_scope")
                if rs is None and n in ("get_rep", "get_rep_value") and len(c.args) > 1:
                    rs = c.args[1]
                if isinstance(rs, ast.Constant) and rs.value is True:
                    recs.append(Rec("nested-retained", ev, st, st, n, c.args[0] if c.args else None))
                else:
                    self.unknown_counter += 1
                    new = St(f"unknown#{self.unknown_counter}")
                    recs.append(Rec("nested", ev, st, new, n, c.args[0] if c.args else None))
                    st = new
                continue
            if is_self:
                cands = self.repo.resolve_call(f, c)
                cands = [g for g in cands if g.cls is not None]
                if cands:
                    effs = {self.helper_effect(f, g, depth) for g in cands}
                    eff = effs.pop() if len(effs) == 1 else None
                    if eff is None:
                        self.unknown_counter += 1
                        new = St(f"unknown#{self.unknown_counter}")
                    else:
                        new = St(st.base, st.pushed + eff)
                    recs.append(Rec("helper", ev, st, new, n))
                    st = new
                continue
            # local helper functions (nested defs) that touch the cursor: inline by effect
            if isinstance(c.func, ast.Name):
                cands = [g for g in self.repo.resolve_call(f, c) if g.parent is not None]
                if cands:
                    touches = any(isinstance(x, ast.Call) and isinstance(x.func, ast.Attribute) and is_cursor(x.func.value)
                                  and call_name(x) in ("set_scope", "pop_scope", "add_statement") for g in cands for x in ast.walk(g.node))
                    if touches:
                        self.unknown_counter += 1
                        new = St(f"unknown#{self.unknown_counter}")
                        recs.append(Rec("helper", ev, st, new, n))
                        st = new
        return recs, st, p.status
