"""E-DOC: the documented tables / lists of README.md, located by heading."""
from __future__ import annotations

import re
from typing import Dict, List, Tuple

from .common import REPO, AnalysisError


class Readme:
    def __init__(self, root=REPO):
        p = root / "README.md"
        if not p.exists():
            raise AnalysisError("README.md not found")
        self.text = p.read_text()
        self.lines = self.text.splitlines()

    def section(self, heading: str) -> List[str]:
        """Lines below the heading (any level) up to the next heading of the same or higher level."""
        for i, ln in enumerate(self.lines):
            m = re.match(r"^(#+)\s+(.*?)\s*$", ln)
            if m and m.group(2).strip().lower() == heading.lower():
                lvl = len(m.group(1))
                out = []
                for ln2 in self.lines[i + 1:]:
                    m2 = re.match(r"^(#+)\s+", ln2)
                    if m2 and len(m2.group(1)) <= lvl:
                        break
                    out.append(ln2)
                return out
        raise AnalysisError(f"README heading {heading!r} not found")

    def tables(self, heading: str) -> List[List[Dict[str, str]]]:
        """All markdown tables in a section, each a list of row dicts keyed by header."""
        lines = self.section(heading)
        tables, cur, hdr = [], None, None
        for ln in lines + [""]:
            if ln.strip().startswith("|"):
                cells = [c.strip() for c in ln.strip().strip("|").split("|")]
                if cur is None:
                    hdr, cur = cells, []
                elif all(re.fullmatch(r":?-+:?", c) for c in cells):
                    continue
                else:
                    cur.append(dict(zip(hdr, cells)))
            else:
                if cur is not None:
                    tables.append(cur)
                    cur, hdr = None, None
        return tables

    def table_keys(self, heading: str, index: int = 0, col: str = "Key") -> List[str]:
        ts = self.tables(heading)
        if index >= len(ts):
            raise AnalysisError(f"README section {heading!r} has {len(ts)} table(s), wanted index {index}")
        return [r.get(col, "").strip("`") for r in ts[index]]

    def table_keys_by_type(self, heading: str, metadata_type: str) -> List[str]:
        """Keys of the table in `heading` whose metadata_type example equals the given type."""
        for t in self.tables(heading):
            for r in t:
                if r.get("Key") == "metadata_type" and metadata_type in r.get("Example", ""):
                    return [x.get("Key", "") for x in t]
        raise AnalysisError(f"README section {heading!r}: no table for metadata_type {metadata_type}")

    def math_functions(self) -> List[str]:
        lines = self.section("Math")
        for ln in lines:
            if "Math functions" in ln:
                after = ln.split(":", 2)[-1] if "cmath" in ln else ln
                # names in backticks after the cmath link
                idx = ln.find("):")
                seg = ln[idx + 2:] if idx >= 0 else ln
                names = re.findall(r"`([A-Za-z_][A-Za-z0-9_]*)`", seg)
                if not names:
                    raise AnalysisError("README Math function list is empty")
                return names
        raise AnalysisError("README Math section has no 'Math functions' line")

    def math_operators(self) -> Dict[str, List[str]]:
        out = {}
        for ln in self.section("Math"):
            m = re.match(r"^- (Math Operators|Comparison Operators|Unary Operators):\s*(.*)$", ln)
            if m:
                out[m.group(1)] = [x.strip() for x in m.group(2).split(",")]
        if len(out) != 3:
            raise AnalysisError("README Math section: operator lists not found")
        return out
