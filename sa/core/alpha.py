"""Alpha-normalisation of function-local names (scope aware).

A pure renaming of local variables is behaviour-preserving, but many rules name the locals they reason about
(`var_names`, `scope_fill`, ...).  For every outermost function the committed reference (sa/reference_locals.json,
generated from the tree the rules were written against) stores the ordered list of its local names (over all nested
scopes, in order of first occurrence) and a hash of its body with those names replaced by L0, L1, ....  When the
current function has the same alpha-normal hash but different names it is a pure renaming, and the names are mapped
back in memory before any rule runs.  The reference is only ever used to undo a renaming - never to raise an alarm.
"""
from __future__ import annotations

import ast
import copy
import hashlib
import json
from pathlib import Path
from typing import Dict, List, Optional, Tuple

REF_FILE = Path(__file__).resolve().parents[1] / "reference_locals.json"


def _scope_locals(fn) -> set:
    """Names assigned in this function scope itself (not in nested defs/lambdas/comprehension-free), minus params/global."""
    a = fn.args
    params = {x.arg for x in a.posonlyargs + a.args + a.kwonlyargs}
    if a.vararg:
        params.add(a.vararg.arg)
    if a.kwarg:
        params.add(a.kwarg.arg)
    assigned, glob = set(), set()
    body = fn.body if isinstance(fn.body, list) else [fn.body]
    todo = list(body)
    while todo:
        n = todo.pop()
        if isinstance(n, (ast.FunctionDef, ast.AsyncFunctionDef)):
            assigned.add(n.name)          # a nested helper's name is a local binding of the enclosing function
            continue
        if isinstance(n, (ast.ClassDef, ast.Lambda)):
            continue
        if isinstance(n, (ast.Global, ast.Nonlocal)):
            glob |= set(n.names)
        if isinstance(n, ast.Name) and isinstance(n.ctx, (ast.Store, ast.Del)):
            assigned.add(n.id)
        todo.extend(ast.iter_child_nodes(n))
    return assigned - params - glob


class _Alpha(ast.NodeVisitor):
    """Walks a function in source order; every Name that resolves to a local of some enclosing function scope is
    reported (and optionally renamed) under a key (scope number, name)."""

    def __init__(self, rename: Optional[Dict[Tuple[int, str], str]] = None):
        self.scopes: List[Tuple[int, set, set]] = []   # (id, locals, params)
        self.counter = 0
        self.order: List[Tuple[int, str]] = []
        self.rename = rename

    def _enter(self, fn):
        a = fn.args
        allp = a.posonlyargs + a.args + a.kwonlyargs + ([a.vararg] if a.vararg else []) + ([a.kwarg] if a.kwarg else [])
        # parameters are renamable too (handlers are called positionally by the visitor machinery); `self`/`cls` are not
        fixed = {x.arg for x in allp[:1] if x.arg in ("self", "cls")}
        sid = self.counter
        self.counter += 1
        locs = _scope_locals(fn) | {x.arg for x in allp if x.arg not in fixed}
        self.scopes.append((sid, locs, fixed))
        for x in allp:
            if x.arg in fixed:
                continue
            key = (sid, x.arg)
            if key not in self.order:
                self.order.append(key)
            if self.rename is not None and key in self.rename:
                x.arg = self.rename[key]

    def visit_FunctionDef(self, node):
        for d in node.args.defaults + [k for k in node.args.kw_defaults if k is not None]:
            self.visit(d)
        for sid, locs, params in reversed(self.scopes):     # nested helper: its name is a local of the enclosing scope
            if node.name in locs:
                key = (sid, node.name)
                if key not in self.order:
                    self.order.append(key)
                if self.rename is not None and key in self.rename:
                    node.name = self.rename[key]
                break
        self._enter(node)
        for s in node.body:
            self.visit(s)
        self.scopes.pop()

    visit_AsyncFunctionDef = visit_FunctionDef

    def visit_Lambda(self, node):
        for d in node.args.defaults + [k for k in node.args.kw_defaults if k is not None]:
            self.visit(d)
        self._enter(node)
        self.visit(node.body)
        self.scopes.pop()

    def visit_ClassDef(self, node):
        saved = self.scopes
        self.scopes = []
        for s in node.body:
            self.visit(s)
        self.scopes = saved

    def visit_Name(self, node):
        for sid, locs, params in reversed(self.scopes):
            if node.id in params:
                return
            if node.id in locs:
                key = (sid, node.id)
                if key not in self.order:
                    self.order.append(key)
                if self.rename is not None and key in self.rename:
                    node.id = self.rename[key]
                return


def describe(fn: ast.AST) -> Tuple[str, List[str]]:
    """(alpha-normal hash, ordered local names)."""
    a = _Alpha()
    a.visit(fn)
    order = a.order
    c = copy.deepcopy(fn)
    ren = {k: f"L{i}" for i, k in enumerate(order)}
    _Alpha(ren).visit(c)
    body = [s for s in c.body if not (isinstance(s, ast.Expr) and isinstance(getattr(s, "value", None), ast.Constant) and isinstance(s.value.value, str))]
    h = hashlib.sha1(ast.dump(ast.Module(body=body, type_ignores=[])).encode()).hexdigest()
    return h, [n for _, n in order]


def load_reference() -> Dict[str, Dict]:
    if REF_FILE.exists():
        return json.loads(REF_FILE.read_text())
    return {}


def undo_pure_renames(qual: str, fn: ast.AST, ref: Dict[str, Dict]) -> bool:
    """If fn is a pure local-renaming of the reference function, rename its locals back in place."""
    r = ref.get(qual)
    if not r:
        return False
    a = _Alpha()
    a.visit(fn)
    names = [n for _, n in a.order]
    if names == r["locals"] or len(names) != len(r["locals"]):
        return False
    h, _ = describe(fn)
    if h != r["hash"]:
        return False
    tmp = {k: "\0" + new for k, new in zip(a.order, r["locals"])}
    # the rename visitor resolves names against the *current* locals, so do it in one pass with placeholders ...
    _Alpha(tmp).visit(fn)
    # ... and strip the placeholder marks (also on Store targets, which define the scope's locals)
    for n in ast.walk(fn):
        if isinstance(n, ast.Name) and n.id.startswith("\0"):
            n.id = n.id[1:]
        elif isinstance(n, ast.arg) and n.arg.startswith("\0"):
            n.arg = n.arg[1:]
        elif isinstance(n, (ast.FunctionDef, ast.AsyncFunctionDef)) and n.name.startswith("\0"):
            n.name = n.name[1:]
    return True
