"""E-INLINE: undo an "extract method" refactoring.

A function that the reference tree does not have, that is called from exactly one place of its own module, and whose body is
straight-line code with at most one `return` (the last statement) is substituted back at its call site: parameters are replaced
by the argument expressions (only when those are plain names, attributes, constants or subscripts of such), the trailing
`return E` becomes the value of the call.  The definition is removed.  Anything that does not fit stays as it is - the rules
then see the helper as a helper.  Like E-ALPHA this is only ever used to remove a difference from the reference tree."""
from __future__ import annotations

import ast
import copy
from typing import Dict, List, Optional


def _simple(e) -> bool:
    if isinstance(e, (ast.Name, ast.Constant)):
        return True
    if isinstance(e, ast.Attribute):
        return _simple(e.value)
    if isinstance(e, ast.Subscript):
        return _simple(e.value) and _simple(e.slice)
    return False


def _returns(body) -> List[ast.Return]:
    out = []
    todo = list(body)
    while todo:
        n = todo.pop()
        if isinstance(n, (ast.FunctionDef, ast.AsyncFunctionDef, ast.Lambda, ast.ClassDef)):
            continue
        if isinstance(n, ast.Return):
            out.append(n)
        todo.extend(ast.iter_child_nodes(n))
    return out


def _is_static(fn) -> bool:
    return any(isinstance(d, ast.Name) and d.id == "staticmethod" for d in fn.decorator_list)


def _tail(stmts, make):
    """rewrite a statement list whose `return`s are all in tail position: `return E` -> make(E); the statements after an `if` whose
    body returns become its else branch.  Returns None when some return is not in tail position."""
    out = []
    for i, st in enumerate(stmts):
        if isinstance(st, ast.Return):
            m = make(st)
            return out + ([m] if m is not None else [])
        if isinstance(st, ast.If) and (_returns(st.body) or _returns(st.orelse)):
            b = _tail(st.body, make)
            rest = list(st.orelse) + (list(stmts[i + 1:]) if _always_returns(st.body) and not st.orelse else [])
            if not (_always_returns(st.body) or not stmts[i + 1:] or st.orelse):
                return None
            o = _tail(rest, make) if rest else []
            if b is None or o is None:
                return None
            if st.orelse and stmts[i + 1:]:
                # both branches present and code follows: only fine when neither branch returns early
                return None
            n = ast.copy_location(ast.If(test=st.test, body=b or [ast.Pass()], orelse=o), st)
            return out + [n]
        if isinstance(st, ast.Try) and _returns([st]):
            if stmts[i + 1:] or st.orelse or st.finalbody:
                return None
            b = _tail(st.body, make)
            if b is None or any(_returns(h.body) for h in st.handlers):
                return None
            n = ast.copy_location(ast.Try(body=b, handlers=st.handlers, orelse=[], finalbody=[]), st)
            return out + [n]
        if _returns([st]):
            return None          # a return inside a loop / with: not a tail position
        out.append(st)
    return out


def _always_returns(body) -> bool:
    if not body:
        return False
    last = body[-1]
    if isinstance(last, (ast.Return, ast.Raise)):
        return True
    if isinstance(last, ast.If):
        return _always_returns(last.body) and _always_returns(last.orelse)
    return False


def inlinable(fn: ast.FunctionDef) -> bool:
    if fn.args.vararg or fn.args.kwarg or fn.args.kwonlyargs or fn.args.posonlyargs:
        return False
    if fn.decorator_list and not (len(fn.decorator_list) == 1 and _is_static(fn)):
        return False
    body0 = [s for s in fn.body if not (isinstance(s, ast.Expr) and isinstance(s.value, ast.Constant) and isinstance(s.value.value, str))]
    if len(body0) == 2 and isinstance(body0[0], ast.FunctionDef) and isinstance(body0[1], ast.Return) and isinstance(body0[1].value, ast.Name) \
            and body0[1].value.id == body0[0].name and not fn.decorator_list:
        return True          # closure factory: put back as a lambda by _as_expression
    for n in ast.walk(fn):
        if isinstance(n, (ast.Yield, ast.YieldFrom, ast.Await, ast.Global, ast.Nonlocal)):
            return False
        if n is not fn and isinstance(n, (ast.FunctionDef, ast.AsyncFunctionDef, ast.ClassDef)):
            return False
    body = [s for s in fn.body if not (isinstance(s, ast.Expr) and isinstance(s.value, ast.Constant) and isinstance(s.value.value, str))]
    if not body:
        return False
    if _tail(copy.deepcopy(body), lambda r: r) is None:
        return False
    params = {a.arg for a in fn.args.args}
    stored = {n.id for n in ast.walk(fn) if isinstance(n, ast.Name) and isinstance(n.ctx, (ast.Store, ast.Del))}
    if stored & params:
        return False
    return True


def expand(fn: ast.FunctionDef, call: ast.Call, is_method: bool, make):
    """statements of the body with the arguments substituted and every `return E` replaced by make(<Return node>)"""
    params = [a.arg for a in fn.args.args]
    args = list(call.args)
    binding: Dict[str, ast.AST] = {}
    if is_method and not _is_static(fn):
        if not params:
            return None
        recv = call.func.value if isinstance(call.func, ast.Attribute) else None
        if recv is None or not _simple(recv):
            return None
        binding[params[0]] = recv
        params = params[1:]
    for p, a in zip(params, args):
        binding[p] = a
    for k in call.keywords:
        if k.arg is None or k.arg not in params or k.arg in binding:
            return None
        binding[k.arg] = k.value
    dflt = fn.args.defaults
    allp = [a.arg for a in fn.args.args]
    for p, d in zip(allp[len(allp) - len(dflt):], dflt):
        if p not in binding and not isinstance(d, ast.Constant):
            return None          # a default is evaluated once, when the helper is defined: a mutable one ([] / {}) is shared by all calls
        binding.setdefault(p, d)
    if set(allp) - set(binding) or len(args) > len(params):
        return None
    pre = []
    uses = {}
    for n in ast.walk(fn):
        if isinstance(n, ast.Name) and isinstance(n.ctx, ast.Load):
            uses[n.id] = uses.get(n.id, 0) + 1
    in_loop = {n.id for lp in ast.walk(fn) if isinstance(lp, (ast.For, ast.While, ast.ListComp, ast.GeneratorExp, ast.SetComp, ast.DictComp, ast.Lambda))
               for n in ast.walk(lp) if isinstance(n, ast.Name)}
    for p_ in list(binding):
        if not _simple(binding[p_]) and uses.get(p_, 0) == 1 and p_ not in in_loop:
            continue          # read exactly once, outside any loop: the argument expression takes the parameter's place
        if not _simple(binding[p_]):
            # an argument that is an expression: bind it to a local of the parameter's name first (what the code looked like before the
            # block was given a name)
            pre.append(ast.Assign(targets=[ast.Name(id=p_, ctx=ast.Store())], value=binding[p_]))
            del binding[p_]

    class Sub(ast.NodeTransformer):
        def visit_Name(self, n):
            if n.id in binding and isinstance(n.ctx, ast.Load):
                return ast.copy_location(copy.deepcopy(binding[n.id]), n)
            return n

        def visit_Lambda(self, lam):
            # a parameter read inside a lambda the helper creates was bound when the helper was called: it stays bound then, as a default
            used = [p_ for p_ in binding if any(isinstance(y, ast.Name) and y.id == p_ for y in ast.walk(lam.body))]
            own = {a.arg for a in lam.args.args}
            if not used or lam.args.vararg or lam.args.kwarg or lam.args.kwonlyargs or (set(used) & own):
                return self.generic_visit(lam)
            lam = copy.deepcopy(lam)
            for p_ in used:
                lam.args.args.append(ast.arg(arg=p_))
                lam.args.defaults.append(copy.deepcopy(binding[p_]))
            return lam
    body = [s for s in fn.body if not (isinstance(s, ast.Expr) and isinstance(s.value, ast.Constant) and isinstance(s.value.value, str))]
    body = [Sub().visit(copy.deepcopy(s)) for s in body]
    out = _tail(body, make)
    if out is None:
        return None
    return pre + out


def _stage(tree, fn, call, is_method: bool, k: int):
    """how the call `call` (somewhere in `tree`) is replaced by the body of fn: (statement list, statement, new statements, (call, value) or None)"""
    site = _find_site(tree, call)
    if site is not None and not is_method and _closure_factory(fn, call) is not None:
        site = None
    if site is None:
        # inside a comprehension / lambda / conditional operand: a helper that is ONE expression (`return E`) can still be put back - the call is
        # replaced by E with the arguments in the parameters' places (each argument a plain path, or its parameter read exactly once)
        e = _as_expression(fn, call, is_method)
        if e is None:
            return None
        return ("expr", call, e, None)
    lst, i, st, direct = site
    if direct and isinstance(st, ast.Expr):
        make = lambda r: (ast.copy_location(ast.Expr(value=r.value), r) if r.value is not None and not isinstance(r.value, (ast.Constant, ast.Name)) else None)
    elif direct and isinstance(st, ast.Assign):
        tg = st.targets
        def make(r, tg=tg):
            v = r.value if r.value is not None else ast.Constant(value=None)
            if len(tg) == 1 and isinstance(tg[0], ast.Name) and isinstance(v, ast.Name) and tg[0].id == v.id:
                return None
            return ast.copy_location(ast.Assign(targets=copy.deepcopy(tg), value=v), r)
    elif direct and isinstance(st, ast.Return):
        make = lambda r: ast.copy_location(ast.Return(value=r.value), r)
    else:
        make = None
    if make is not None:
        new = expand(fn, call, is_method, make)
        if new is None:
            return None
        return (lst, st, new, None)
    # the call is an operand inside the statement: the body goes in front of the statement and the returned value takes the call's place
    holder = {}
    def make_h(r, holder=holder):
        holder["v"] = r.value
        return None
    new = expand(fn, call, is_method, make_h)
    body0 = [s_ for s_ in fn.body if not (isinstance(s_, ast.Expr) and isinstance(s_.value, ast.Constant))]
    if new is None or "v" not in holder or holder["v"] is None or len(_returns(body0)) != 1 or not isinstance(body0[-1], ast.Return):
        # several returns, all in tail position (`if c: return A` / `return B`): the value goes through a fresh local that is assigned on
        # every path in front of the statement and takes the call's place in it
        tmp = f"_inl_{fn.name.strip('_')}_{k}"
        def make_t(r, tmp=tmp):
            v = r.value if r.value is not None else ast.Constant(value=None)
            return ast.copy_location(ast.Assign(targets=[ast.Name(id=tmp, ctx=ast.Store())], value=v), r)
        new = expand(fn, call, is_method, make_t)
        if new is None or not _always_returns(body0):
            return None
        return (lst, st, new + [st], (call, ast.Name(id=tmp, ctx=ast.Load())))
    return (lst, st, new + [st], (call, holder["v"]))


def _closure_factory(fn, call):
    """def f(p): def g(x): return E; return g      called as f(A)   ==   lambda x, p=A: E     (p bound when the factory is called)"""
    body = [s_ for s_ in fn.body if not (isinstance(s_, ast.Expr) and isinstance(s_.value, ast.Constant))]
    if not (len(body) == 2 and isinstance(body[0], ast.FunctionDef) and isinstance(body[1], ast.Return) and isinstance(body[1].value, ast.Name)
            and body[1].value.id == body[0].name):
        return None
    g = body[0]
    gb = [s_ for s_ in g.body if not (isinstance(s_, ast.Expr) and isinstance(s_.value, ast.Constant))]
    if g.decorator_list or g.args.vararg or g.args.kwarg or g.args.kwonlyargs or g.args.posonlyargs or g.args.defaults \
            or len(gb) != 1 or not isinstance(gb[0], ast.Return) or gb[0].value is None:
        return None
    params = [a.arg for a in fn.args.args]
    if fn.args.vararg or fn.args.kwarg or fn.args.kwonlyargs or fn.args.defaults or call.keywords or len(call.args) != len(params) \
            or set(params) & {a.arg for a in g.args.args}:
        return None
    largs = ast.arguments(posonlyargs=[], args=[ast.arg(arg=a.arg) for a in g.args.args] + [ast.arg(arg=p_) for p_ in params],
                          vararg=None, kwonlyargs=[], kw_defaults=[], kwarg=None, defaults=[copy.deepcopy(a) for a in call.args])
    return ast.Lambda(args=largs, body=copy.deepcopy(gb[0].value))


def _as_expression(fn, call, is_method: bool):
    body = [s_ for s_ in fn.body if not (isinstance(s_, ast.Expr) and isinstance(s_.value, ast.Constant))]
    if not is_method and len(body) == 2:
        return _closure_factory(fn, call)
    if len(body) != 1 or not isinstance(body[0], ast.Return) or body[0].value is None:
        return None
    params = [a.arg for a in fn.args.args]
    if is_method and not _is_static(fn):
        if not isinstance(call.func, ast.Attribute) or not _simple(call.func.value):
            return None
        binding = {params[0]: call.func.value}
        params = params[1:]
    else:
        binding = {}
    if len(call.args) > len(params) or any(isinstance(a, ast.Starred) for a in call.args):
        return None
    for p_, a in zip(params, call.args):
        binding[p_] = a
    for k in call.keywords:
        if k.arg is None or k.arg not in params or k.arg in binding:
            return None
        binding[k.arg] = k.value
    allp = [a.arg for a in fn.args.args]
    for p_, d in zip(allp[len(allp) - len(fn.args.defaults):], fn.args.defaults):
        if p_ not in binding:
            if not isinstance(d, ast.Constant):
                return None
            binding[p_] = d
    if set(allp) - set(binding):
        return None
    uses = {}
    for n in ast.walk(body[0].value):
        if isinstance(n, ast.Name) and isinstance(n.ctx, ast.Load):
            uses[n.id] = uses.get(n.id, 0) + 1
    for p_, a in binding.items():
        if not _simple(a) and uses.get(p_, 0) > 1:
            return None

    class Sub(ast.NodeTransformer):
        def visit_Name(self, n):
            if n.id in binding and isinstance(n.ctx, ast.Load):
                return ast.copy_location(copy.deepcopy(binding[n.id]), n)
            return n

        def visit_Lambda(self, lam):
            # a parameter that a returned lambda reads was bound when the helper was CALLED: it stays bound at that moment, as a default
            # (`lambda x: f(spec, x)` returned by helper(spec)  ==  `lambda x, spec=<argument>: f(spec, x)`), never late
            used = [p_ for p_ in binding if any(isinstance(y, ast.Name) and y.id == p_ for y in ast.walk(lam.body))]
            own = {a.arg for a in lam.args.args}
            if not used or lam.args.vararg or lam.args.kwarg or lam.args.kwonlyargs or (set(used) & own):
                return self.generic_visit(lam)
            lam = copy.deepcopy(lam)
            for p_ in used:
                lam.args.args.append(ast.arg(arg=p_))
                lam.args.defaults.append(copy.deepcopy(binding[p_]))
            return lam
    return Sub().visit(copy.deepcopy(body[0].value))


def _apply(staged):
    for lst, st, new, repl in staged:
        if lst == "expr":
            continue
        if repl is not None:
            _replace_node(st, repl[0], repl[1])
        for s_ in new:
            ast.fix_missing_locations(s_)
        k = next(i_ for i_, x in enumerate(lst) if x is st)
        lst[k:k + 1] = new


def undo_pulled_up_methods(modules: Dict[str, ast.Module], known_quals: set, log: List[str]):
    """"Pull up method": a block that several subclasses (in other modules) had each for themselves now lives once in a method of a common
    base class and is called as self.<m>(..).  A method the reference does not know, whose name is defined exactly once in the package and
    is only ever used in calls on `self`, with at least one call outside its own module, is put back at every call site."""
    defs: Dict[str, list] = {}
    for mname, tree in modules.items():
        for st in tree.body:
            if isinstance(st, (ast.FunctionDef, ast.AsyncFunctionDef)):
                defs.setdefault(st.name, []).append(None)
            elif isinstance(st, ast.ClassDef):
                for s2 in st.body:
                    if isinstance(s2, (ast.FunctionDef, ast.AsyncFunctionDef)):
                        defs.setdefault(s2.name, []).append((mname, st, s2))
    for name, lst in sorted(defs.items()):
        if len(lst) != 1 or lst[0] is None:
            continue
        mname, cls, fn = lst[0]
        if f"{mname}.{cls.name}.{name}" in known_quals or (name.startswith("__") and name.endswith("__")):
            continue
        if not isinstance(fn, ast.FunctionDef) or not inlinable(fn) or _is_static(fn):
            continue
        refs, calls = 0, []
        for m2, t2 in modules.items():
            for n in ast.walk(t2):
                if (isinstance(n, ast.Name) and n.id == name) or (isinstance(n, ast.Attribute) and n.attr == name):
                    refs += 1
                if isinstance(n, ast.Call) and isinstance(n.func, ast.Attribute) and n.func.attr == name and isinstance(n.func.value, ast.Name) and n.func.value.id == "self":
                    calls.append((m2, t2, n))
        if not calls or refs != len(calls) or len(calls) > 8 or all(m2 == mname for m2, _, _ in calls):
            continue
        if any(c is x for _, _, c in calls for x in ast.walk(fn)):
            continue
        staged = []
        for m2, t2, c in calls:
            one = _stage(t2, fn, c, True, len(staged))
            if one is None:
                staged = None
                break
            if one[0] == "expr":
                one = ("expr", one[1], one[2], t2)
            staged.append(one)
        if not staged:
            continue
        for lst, st, new, repl in staged:
            if lst == "expr":
                _replace_node(repl, st, ast.fix_missing_locations(ast.copy_location(new, st)))
        _apply(staged)
        cls.body.remove(fn)
        if not cls.body:
            cls.body.append(ast.Pass())
        log.append(f"{mname}.{cls.name}.{name} (pulled-up method) put back at its {len(calls)} call site(s)")


def undo_extractions(modules: Dict[str, ast.Module], known_quals: set, log: List[str]):
    """modules: module name -> tree.  known_quals: qualified names of the reference tree's functions."""
    for mname, tree in modules.items():
        for _round in range(3):
            # candidate definitions: module-level functions and methods that the reference does not know
            defs = []      # (container body list, class name or None, FunctionDef)
            for st in tree.body:
                if isinstance(st, ast.FunctionDef) and f"{mname}.{st.name}" not in known_quals:
                    defs.append((tree.body, None, st))
                elif isinstance(st, ast.ClassDef):
                    for s2 in st.body:
                        if isinstance(s2, ast.FunctionDef) and f"{mname}.{st.name}.{s2.name}" not in known_quals and not (s2.name.startswith("__") and s2.name.endswith("__")):
                            defs.append((st.body, st.name, s2))
            changed = False
            for container, cname, fn in defs:
                if not inlinable(fn):
                    continue
                # all references to the name in the whole module: every one must be a direct call (1 to 4 call sites - a block that was
                # repeated and is now shared, or a block given a name)
                refs = [n for n in ast.walk(tree) if (isinstance(n, ast.Name) and n.id == fn.name) or (isinstance(n, ast.Attribute) and n.attr == fn.name)]
                calls = [c for c in ast.walk(tree) if isinstance(c, ast.Call) and (
                    (cname is None and isinstance(c.func, ast.Name) and c.func.id == fn.name) or
                    (cname is not None and isinstance(c.func, ast.Attribute) and c.func.attr == fn.name and
                     (not _is_static(fn) or (isinstance(c.func.value, ast.Name) and c.func.value.id in ("self", "cls", cname)))))]
                if not (1 <= len(calls) <= 8) or len(refs) != len(calls):
                    continue
                if any(c is x for c in calls for x in ast.walk(fn)):      # recursive
                    continue
                for call in calls:
                    _unfold_comprehension(tree, call)
                staged = []
                ok = True
                for call in calls:
                    one = _stage(tree, fn, call, cname is not None, len(staged))
                    if one is None:
                        ok = False
                        break
                    staged.append(one)
                if not ok or not staged:
                    continue
                for lst, st, new, repl in staged:
                    if lst == "expr":
                        _replace_node(tree, st, ast.fix_missing_locations(ast.copy_location(new, st)))
                        continue
                    if repl is not None:
                        _replace_node(st, repl[0], repl[1])
                    for s_ in new:
                        ast.fix_missing_locations(s_)
                    k = next(i_ for i_, x in enumerate(lst) if x is st)
                    lst[k:k + 1] = new
                container.remove(fn)
                log.append(f"{mname}.{(cname + '.') if cname else ''}{fn.name} inlined at its {len(calls)} call site(s)")
                changed = True
            if not changed:
                break


# ---------------------------------------------------------------------------------------------------------------
# undo "extract search loop": v = find_first(..); if v is None: A; B(v)   ==   for x in S: if P(x): B(x);  A
def _terminates(stmts) -> bool:
    if not stmts:
        return False
    last = stmts[-1]
    if isinstance(last, (ast.Return, ast.Raise)):
        return True
    if isinstance(last, ast.If):
        return _terminates(last.body) and _terminates(last.orelse)
    return False


def undo_find_first_helpers(modules: Dict[str, ast.Module], known_quals: set, log: List[str]):
    """A module-level function the reference does not know, of the shape `for x in <iterable>: if <P(x)>: return x` + `return None`, called once as
    `v = helper(args)` with the next statement testing `v is None`: when the not-found arm A and the found arm B (everything that follows) both end
    in return/raise, the search loop is put back around B:  for x in S: if P(x): B[x for v]; then A."""
    for mname, tree in modules.items():
        for fn in [st for st in tree.body if isinstance(st, ast.FunctionDef) and f"{mname}.{st.name}" not in known_quals]:
            body = [s_ for s_ in fn.body if not (isinstance(s_, ast.Expr) and isinstance(s_.value, ast.Constant))]
            if not (1 <= len(body) <= 2 and isinstance(body[0], ast.For) and not body[0].orelse and isinstance(body[0].target, ast.Name)
                    and len(body[0].body) == 1 and isinstance(body[0].body[0], ast.If) and not body[0].body[0].orelse
                    and len(body[0].body[0].body) == 1 and isinstance(body[0].body[0].body[0], ast.Return)
                    and isinstance(body[0].body[0].body[0].value, ast.Name) and body[0].body[0].body[0].value.id == body[0].target.id):
                continue
            if len(body) == 2 and not (isinstance(body[1], ast.Return) and (body[1].value is None or (isinstance(body[1].value, ast.Constant) and body[1].value.value is None))):
                continue
            if fn.args.vararg or fn.args.kwarg or fn.args.kwonlyargs or fn.args.defaults or fn.decorator_list:
                continue
            refs = [n for n in ast.walk(tree) if (isinstance(n, ast.Name) and n.id == fn.name) or (isinstance(n, ast.Attribute) and n.attr == fn.name)]
            calls = [c for c in ast.walk(tree) if isinstance(c, ast.Call) and isinstance(c.func, ast.Name) and c.func.id == fn.name]
            if len(calls) != 1 or len(refs) != 1:
                continue
            call = calls[0]
            params = [a.arg for a in fn.args.args]
            if call.keywords or len(call.args) != len(params) or not all(_simple(a) for a in call.args):
                continue
            site = None
            for holder in ast.walk(tree):
                for fld in ("body", "orelse", "finalbody"):
                    lst = getattr(holder, fld, None)
                    if isinstance(lst, list):
                        for i, st in enumerate(lst):
                            if isinstance(st, ast.Assign) and st.value is call and len(st.targets) == 1 and isinstance(st.targets[0], ast.Name):
                                site = (holder, lst, i, st)
            if site is None:
                continue
            holder, lst, i, st = site
            v = st.targets[0].id
            if i + 1 >= len(lst) or not isinstance(lst[i + 1], ast.If):
                continue
            test = lst[i + 1].test
            neg = False
            t = test
            if isinstance(t, ast.UnaryOp) and isinstance(t.op, ast.Not):
                neg, t = True, t.operand
            is_none = isinstance(t, ast.Compare) and len(t.ops) == 1 and isinstance(t.left, ast.Name) and t.left.id == v and \
                isinstance(t.comparators[0], ast.Constant) and t.comparators[0].value is None and isinstance(t.ops[0], (ast.Is, ast.IsNot))
            if not is_none:
                continue
            none_when_true = isinstance(t.ops[0], ast.Is) != neg
            iff = lst[i + 1]
            if none_when_true:
                A, B = iff.body, (iff.orelse or lst[i + 2:])
                tail_used = not iff.orelse
            else:
                B, A = iff.body, (iff.orelse or lst[i + 2:])
                tail_used = not iff.orelse
            if not _terminates(A) or not _terminates(B):
                continue
            # v is read only in the test and in B, bound only here
            fn_holder = None
            for f2 in ast.walk(tree):
                if isinstance(f2, (ast.FunctionDef, ast.AsyncFunctionDef)) and any(x is st for x in ast.walk(f2)):
                    fn_holder = f2
            if fn_holder is None:
                continue
            stores = [n for n in ast.walk(fn_holder) if isinstance(n, ast.Name) and n.id == v and isinstance(n.ctx, (ast.Store, ast.Del))]
            reads_A = [n for s_ in A for n in ast.walk(s_) if isinstance(n, ast.Name) and n.id == v]
            if len(stores) != 1 or reads_A:
                continue
            binding = dict(zip(params, call.args))
            loop_var = body[0].target.id

            class Sub(ast.NodeTransformer):
                def __init__(self, env):
                    self.env = env

                def visit_Name(self, n):
                    if n.id in self.env and isinstance(n.ctx, ast.Load):
                        return ast.copy_location(copy.deepcopy(self.env[n.id]), n)
                    return n
            new_iter = Sub(binding).visit(copy.deepcopy(body[0].iter))
            new_test = Sub(binding).visit(copy.deepcopy(body[0].body[0].test))
            x_name = ast.Name(id=loop_var, ctx=ast.Load())
            new_B = [Sub({v: x_name}).visit(copy.deepcopy(s_)) for s_ in B]
            loop = ast.For(target=ast.Name(id=loop_var, ctx=ast.Store()), iter=new_iter,
                           body=[ast.If(test=new_test, body=new_B, orelse=[])], orelse=[], type_comment=None)
            ast.copy_location(loop, st)
            new_stmts = [loop] + [copy.deepcopy(s_) for s_ in A]
            for s_ in new_stmts:
                ast.fix_missing_locations(s_)
            lst[i:] = new_stmts if tail_used else new_stmts + lst[i + 2:]
            tree.body.remove(fn)
            log.append(f"{mname}.{fn.name} (first-match search helper) put back as a loop around its single use")


def _unfold_comprehension(tree, call) -> bool:
    """`sep.join(helper(x) for x in S)` (or a list comprehension / list(...) of it) whose element IS the helper call, as the loop it abbreviates:
           _acc = []
           for x in S: _acc.append(helper(x))
           ... sep.join(_acc) ...
    so that the helper can be put back into the loop body.  Only for one generator without conditions, in a simple statement."""
    for holder in ast.walk(tree):
        for fld in ("body", "orelse", "finalbody"):
            lst = getattr(holder, fld, None)
            if not isinstance(lst, list):
                continue
            for i, st in enumerate(lst):
                if not isinstance(st, (ast.Expr, ast.Assign, ast.Return)):
                    continue
                for comp in ast.walk(st):
                    if isinstance(comp, (ast.GeneratorExp, ast.ListComp)) and comp.elt is call and len(comp.generators) == 1 and not comp.generators[0].ifs \
                            and not comp.generators[0].is_async:
                        # the comprehension must be consumed whole and in order: argument of join / list / tuple, or the assigned value itself
                        parent = next((p for p in ast.walk(st) for f2, v in ast.iter_fields(p)
                                       if v is comp or (isinstance(v, list) and any(x is comp for x in v))), None)
                        ok = isinstance(parent, ast.Call) and len(parent.args) == 1 and parent.args[0] is comp and not parent.keywords and (
                            (isinstance(parent.func, ast.Attribute) and parent.func.attr == "join") or
                            (isinstance(parent.func, ast.Name) and parent.func.id in ("list", "tuple")))
                        ok = ok or (isinstance(comp, ast.ListComp) and isinstance(st, (ast.Assign, ast.Return)) and st.value is comp)
                        if not ok:
                            return False
                        acc = f"_acc_{getattr(call.func, 'id', getattr(call.func, 'attr', 'x')).strip('_')}"
                        g = comp.generators[0]
                        init = ast.Assign(targets=[ast.Name(id=acc, ctx=ast.Store())], value=ast.List(elts=[], ctx=ast.Load()))
                        app = ast.Expr(value=ast.Call(func=ast.Attribute(value=ast.Name(id=acc, ctx=ast.Load()), attr="append", ctx=ast.Load()), args=[call], keywords=[]))
                        loop = ast.For(target=g.target, iter=g.iter, body=[app], orelse=[], type_comment=None)
                        _replace_node(st, comp, ast.Name(id=acc, ctx=ast.Load()))
                        for n_ in (init, loop):
                            ast.copy_location(n_, st)
                            ast.fix_missing_locations(n_)
                        lst[i:i + 1] = [init, loop, st]
                        return True
    return False


def undo_cross_module_expression_helpers(modules: Dict[str, ast.Module], known_quals: set, log: List[str]):
    """A module-level function of module M that the reference does not know, that is ONE expression (or a closure factory), and that is only ever
    called from other modules as `<alias of M>.f(..)`: the expression is put back at every call, names of M's own top level written as
    `<alias>.<name>`."""
    for mname, tree in modules.items():
        top = set()
        for st in tree.body:
            if isinstance(st, (ast.FunctionDef, ast.AsyncFunctionDef, ast.ClassDef)):
                top.add(st.name)
            elif isinstance(st, ast.Assign):
                top.update(n.id for t in st.targets for n in ast.walk(t) if isinstance(n, ast.Name))
            elif isinstance(st, ast.AnnAssign) and isinstance(st.target, ast.Name):
                top.add(st.target.id)
        for fn in [st for st in tree.body if isinstance(st, ast.FunctionDef) and f"{mname}.{st.name}" not in known_quals]:
            if not inlinable(fn) or fn.name.startswith("__"):
                continue
            refs, calls = 0, []
            for m2, t2 in modules.items():
                # how m2 refers to module M
                aliases = set()
                for n in ast.walk(t2):
                    if isinstance(n, ast.Import):
                        aliases.update(a.asname for a in n.names if a.name == mname and a.asname)
                    elif isinstance(n, ast.ImportFrom) and n.module and n.level == 0:
                        aliases.update((a.asname or a.name) for a in n.names if f"{n.module}.{a.name}" == mname)
                        refs += sum(1 for a in n.names if n.module == mname and a.name == fn.name) * 100     # imported by name: not handled
                for n in ast.walk(t2):
                    if (isinstance(n, ast.Name) and n.id == fn.name and t2 is not tree) or (isinstance(n, ast.Attribute) and n.attr == fn.name):
                        refs += 1
                    if t2 is tree and isinstance(n, ast.Name) and n.id == fn.name:
                        refs += 1
                    if isinstance(n, ast.Call) and isinstance(n.func, ast.Attribute) and n.func.attr == fn.name and isinstance(n.func.value, ast.Name) \
                            and n.func.value.id in aliases:
                        calls.append((t2, n, n.func.value.id))
            if not calls or refs != len(calls) or len(calls) > 12:
                continue
            staged = []
            for t2, c, alias in calls:
                e = _as_expression(fn, c, False)
                if e is None:
                    staged = None
                    break
                bound = {a.arg for l in ast.walk(e) if isinstance(l, ast.Lambda) for a in l.args.args} | {a.arg for a in fn.args.args}

                class Qual(ast.NodeTransformer):
                    def visit_Name(self, n):
                        if isinstance(n.ctx, ast.Load) and n.id in top and n.id not in bound:
                            return ast.copy_location(ast.Attribute(value=ast.Name(id=alias, ctx=ast.Load()), attr=n.id, ctx=ast.Load()), n)
                        return n
                # only the body refers to M's names; the substituted arguments belong to the caller's module and are left as they are
                if isinstance(e, ast.Lambda):
                    e.body = Qual().visit(e.body)
                staged.append((t2, c, e))
            if not staged:
                continue
            for t2, c, e in staged:
                _replace_node(t2, c, ast.fix_missing_locations(ast.copy_location(e, c)))
            tree.body.remove(fn)
            log.append(f"{mname}.{fn.name} (expression helper used from other modules) put back at its {len(calls)} call site(s)")


def undo_lifted_closures(modules: Dict[str, ast.Module], known_quals: set, log: List[str]):
    """"Lift closure to method" undone: private methods the reference does not know, whose every use is a call `self.m(..)` from ONE method the
    reference does know (or from each other), are nested functions of that method again: moved to the top of its body, `self` dropped from their
    parameters (the enclosing method's `self` is the same object), calls written `m(..)`.  A parameter that every call fills with the
    enclosing method's variable of the same name is a captured variable again."""
    for mname, tree in modules.items():
        for cls in [st for st in tree.body if isinstance(st, ast.ClassDef)]:
            methods = {m.name: m for m in cls.body if isinstance(m, ast.FunctionDef)}
            new = {n: m for n, m in methods.items() if f"{mname}.{cls.name}.{n}" not in known_quals and n.startswith("_") and not n.startswith("__")
                   and not m.decorator_list and m.args.args and m.args.args[0].arg == "self"
                   and not (m.args.vararg or m.args.kwarg or m.args.kwonlyargs)}
            if not new:
                continue
            # every reference to a new method anywhere in the module must be a call on self inside this class
            callers: Dict[str, set] = {n: set() for n in new}
            ok_names = set(new)
            for n in list(new):
                refs = [x for x in ast.walk(tree) if (isinstance(x, ast.Attribute) and x.attr == n) or (isinstance(x, ast.Name) and x.id == n)]
                calls = []
                for host_name, host in methods.items():
                    for x in ast.walk(host):
                        if isinstance(x, ast.Call) and isinstance(x.func, ast.Attribute) and x.func.attr == n and isinstance(x.func.value, ast.Name) and x.func.value.id == "self":
                            calls.append(x)
                            callers[n].add(host_name)
                if len(refs) != len(calls) or not calls:
                    ok_names.discard(n)
            # group rooted at one known method
            roots = {}
            for n in ok_names:
                seen, todo, root = set(), [n], set()
                while todo:
                    k = todo.pop()
                    for c_ in callers.get(k, ()):
                        if c_ in ok_names:
                            if c_ not in seen:
                                seen.add(c_)
                                todo.append(c_)
                        else:
                            root.add(c_)
                roots[n] = root
            for host_name in sorted({next(iter(r)) for r in roots.values() if len(r) == 1}):
                group = [n for n in ok_names if roots[n] == {host_name}]
                host = methods.get(host_name)
                if host is None or not group or f"{mname}.{cls.name}.{host_name}" not in known_quals:
                    continue
                # only for what E-INLINE cannot put back: a group with a member that calls itself (a helper without recursion is inlined instead)
                if not any(n in callers[n] for n in group):
                    continue
                group_nodes = [new[n] for n in sorted(group, key=lambda k: new[k].lineno)]
                host_locals = {x.id for x in ast.walk(host) if isinstance(x, ast.Name) and isinstance(x.ctx, ast.Store)} | {a.arg for a in host.args.args}
                for g in group_nodes:
                    g.args.args = g.args.args[1:]
                # parameters that are captured variables in disguise
                for g in group_nodes:
                    for idx in range(len(g.args.args) - 1, -1, -1):
                        pname = g.args.args[idx].arg
                        if pname not in host_locals or idx < len(g.args.args) - len(g.args.defaults):
                            pass
                        sites = [x for h in [host] + group_nodes for x in ast.walk(h)
                                 if isinstance(x, ast.Call) and isinstance(x.func, ast.Attribute) and x.func.attr == g.name
                                 and isinstance(x.func.value, ast.Name) and x.func.value.id == "self"]
                        if pname in host_locals and not g.args.defaults and all(
                                len(x.args) > idx and isinstance(x.args[idx], ast.Name) and x.args[idx].id == pname and not x.keywords for x in sites) \
                                and not any(isinstance(y, ast.Name) and y.id == pname and isinstance(y.ctx, ast.Store) for y in ast.walk(g)):
                            for x in sites:
                                del x.args[idx]
                            del g.args.args[idx]
                for h in [host] + group_nodes:
                    for x in ast.walk(h):
                        if isinstance(x, ast.Call) and isinstance(x.func, ast.Attribute) and x.func.attr in group and isinstance(x.func.value, ast.Name) \
                                and x.func.value.id == "self":
                            x.func = ast.copy_location(ast.Name(id=x.func.attr, ctx=ast.Load()), x.func)
                k = 1 if host.body and isinstance(host.body[0], ast.Expr) and isinstance(host.body[0].value, ast.Constant) else 0
                for g in group_nodes:
                    cls.body.remove(g)
                host.body[k:k] = group_nodes
                ast.fix_missing_locations(host)
                log.append(f"{mname}.{cls.name}: {', '.join(g.name for g in group_nodes)} nested in {host_name} again (lifted closures)")


def _find_site(tree, call):
    """(statement list, index, statement, call-is-the-whole-value) of the simple statement that evaluates `call`"""
    for holder in ast.walk(tree):
        for fld in ("body", "orelse", "finalbody"):
            lst = getattr(holder, fld, None)
            if not isinstance(lst, list):
                continue
            for i, st in enumerate(lst):
                if isinstance(st, (ast.Expr, ast.Assign, ast.Return, ast.AugAssign)) and any(x is call for x in ast.walk(st)):
                    # not inside a lambda / comprehension / conditional operand (evaluation would no longer be unconditional or once)
                    for x in ast.walk(st):
                        if isinstance(x, (ast.Lambda, ast.ListComp, ast.SetComp, ast.DictComp, ast.GeneratorExp, ast.IfExp, ast.BoolOp)) and any(y is call for y in ast.walk(x)):
                            return None
                    direct = getattr(st, "value", None) is call and not isinstance(st, ast.AugAssign)
                    return (lst, i, st, direct)
    return None


def _replace_node(root, old, new):
    for parent in ast.walk(root):
        for fld, val in ast.iter_fields(parent):
            if val is old:
                setattr(parent, fld, new)
                return
            if isinstance(val, list):
                for k, x in enumerate(val):
                    if x is old:
                        val[k] = new
                        return


# ---------------------------------------------------------------------------------------------------------------
# undo "extract constant": a module-level name the reference does not have, bound once to a literal, read-only in this module


def _literal_like(e) -> bool:
    if isinstance(e, ast.Constant):
        return True
    if isinstance(e, (ast.Tuple, ast.List, ast.Set)):
        return all(_literal_like(x) for x in e.elts)
    if isinstance(e, ast.Dict):
        return all(k is not None and _literal_like(k) and (_literal_like(v) or _simple(v)) for k, v in zip(e.keys, e.values))
    if isinstance(e, ast.UnaryOp) and isinstance(e.op, (ast.USub, ast.UAdd)):
        return _literal_like(e.operand)
    if isinstance(e, ast.JoinedStr):
        return False
    return False


_READ_ONLY_ATTRS = {"get", "keys", "values", "items", "index", "count", "join", "startswith", "endswith", "format"}


def undo_constant_extractions(modules: Dict[str, ast.Module], ref_modnames: Dict[str, Dict], log: List[str]):
    """A module-level `NAME = <literal>` that the reference tree does not have, bound once, never re-bound through `global`, not imported
    by another module, and only read (membership tests, iteration, indexing, .get/.keys - never stored into or passed on as an object
    when it is a list/dict/set) is a literal that was given a name: every read gets the literal back and the binding is removed."""
    imported = set()
    for t in modules.values():
        for n in ast.walk(t):
            if isinstance(n, ast.ImportFrom):
                imported |= {a.name for a in n.names}
    for mname, tree in modules.items():
        known = set(ref_modnames.get(mname, {}))
        if not ref_modnames:
            return
        parents = {}
        for n in ast.walk(tree):
            for c in ast.iter_child_nodes(n):
                parents[id(c)] = n
        binds = {}
        for st in tree.body:
            tgt = val = None
            if isinstance(st, ast.Assign) and len(st.targets) == 1 and isinstance(st.targets[0], ast.Name):
                tgt, val = st.targets[0].id, st.value
            elif isinstance(st, ast.AnnAssign) and isinstance(st.target, ast.Name) and st.value is not None:
                tgt, val = st.target.id, st.value
            if tgt is not None:
                binds.setdefault(tgt, []).append((st, val))
        for name, lst in binds.items():
            if name in known or name in imported or len(lst) != 1 or name.startswith("__"):
                continue
            st, val = lst[0]
            if not _literal_like(val):
                continue
            occ = [n for n in ast.walk(tree) if isinstance(n, ast.Name) and n.id == name]
            stores = [n for n in occ if not isinstance(n.ctx, ast.Load)]
            if len(stores) != 1 or any(isinstance(n, (ast.Global, ast.Nonlocal)) and name in n.names for n in ast.walk(tree)):
                continue
            loads = [n for n in occ if isinstance(n.ctx, ast.Load)]
            if not loads:
                continue
            mutable = isinstance(val, (ast.List, ast.Dict, ast.Set))
            ok = True
            for n in loads:
                p = parents.get(id(n))
                if not mutable:
                    continue
                if isinstance(p, ast.Compare) and n in p.comparators and isinstance(p.ops[p.comparators.index(n)], (ast.In, ast.NotIn)):
                    continue
                if isinstance(p, (ast.For, ast.comprehension)) and p.iter is n:
                    continue
                if isinstance(p, ast.Subscript) and p.value is n and isinstance(p.ctx, ast.Load):
                    continue
                if isinstance(p, ast.Attribute) and p.attr in _READ_ONLY_ATTRS:
                    continue
                if isinstance(p, ast.Call) and isinstance(p.func, ast.Name) and p.func.id in ("len", "set", "list", "tuple", "sorted", "frozenset", "dict", "any", "all", "str"):
                    continue
                ok = False
                break
            if not ok:
                continue
            for n in loads:
                p = parents.get(id(n))
                new = ast.copy_location(copy.deepcopy(val), n)
                for f, v in ast.iter_fields(p):
                    if v is n:
                        setattr(p, f, new)
                    elif isinstance(v, list):
                        for i, x in enumerate(v):
                            if x is n:
                                v[i] = new
            tree.body.remove(st)
            ast.fix_missing_locations(tree)
            log.append(f"constant {mname}.{name} inlined ({len(loads)} use(s))")


# ---------------------------------------------------------------------------------------------------------------
# undo "introduce explaining variable": a local the reference function does not have, bound once, read once right after


def _eval_order(e):
    """nodes of an expression in (approximate) evaluation order: operands before the operation that uses them"""
    out = []

    def rec(n):
        if isinstance(n, (ast.Lambda, ast.ListComp, ast.SetComp, ast.DictComp, ast.GeneratorExp)):
            out.append(n)
            return
        for c in ast.iter_child_nodes(n):
            rec(c)
        out.append(n)
    rec(e)
    return out


def undo_new_locals(fn, ref_locals, log: List[str], qual: str):
    """A local that the reference function does not have, bound exactly once by a plain statement `t = E`, and read exactly once - in the
    very next statement, before anything else of that statement that could have an effect is evaluated - only names E: the read gets E back
    and the binding goes.  A binding whose value has no call at all (a literal, an access path, arithmetic on those) may be read any number
    of times in later statements of its block as long as nothing it mentions is re-bound."""
    known = set(ref_locals)
    for _ in range(12):
        stores: Dict[str, int] = {}
        for n in ast.walk(fn):
            if isinstance(n, ast.Name) and not isinstance(n.ctx, ast.Load):
                stores[n.id] = stores.get(n.id, 0) + 1
            elif isinstance(n, ast.arg):
                stores[n.arg] = stores.get(n.arg, 0) + 1
        done = False
        for owner in ast.walk(fn):
            if isinstance(owner, (ast.Lambda,)) or (owner is not fn and isinstance(owner, (ast.FunctionDef, ast.AsyncFunctionDef, ast.ClassDef))):
                continue
            for fld in ("body", "orelse", "finalbody"):
                lst = getattr(owner, fld, None)
                if not (isinstance(lst, list) and lst and isinstance(lst[0], ast.stmt)):
                    continue
                for i, st in enumerate(lst):
                    if not (isinstance(st, ast.Assign) and len(st.targets) == 1 and isinstance(st.targets[0], ast.Name)):
                        continue
                    x = st.targets[0].id
                    if x in known or stores.get(x) != 1 or i + 1 >= len(lst):
                        continue
                    reads = [n for n in ast.walk(fn) if isinstance(n, ast.Name) and n.id == x and isinstance(n.ctx, ast.Load)]
                    if not reads:
                        continue
                    has_call = any(isinstance(n, (ast.Call, ast.Await, ast.Yield, ast.YieldFrom)) for n in ast.walk(st.value))
                    nxt = lst[i + 1]
                    if has_call:
                        if len(reads) != 1:
                            continue
                        # the read must be in the header of the next statement and nothing with an effect may be evaluated before it
                        hdr = [getattr(nxt, f) for f in ("value", "test", "iter", "exc") if isinstance(getattr(nxt, f, None), ast.AST)]
                        if isinstance(nxt, ast.Assign):
                            hdr = [nxt.value]
                        order = [n for h in hdr for n in _eval_order(h)]
                        if not any(n is reads[0] for n in order):
                            continue
                        before = order[:[k for k, n in enumerate(order) if n is reads[0]][0]]
                        if any(isinstance(n, (ast.Call, ast.Await, ast.Lambda, ast.ListComp, ast.GeneratorExp, ast.SetComp, ast.DictComp)) for n in before):
                            continue
                        # not inside a lambda / comprehension of that statement (it would be evaluated later, or repeatedly)
                        if any(isinstance(n, (ast.Lambda, ast.ListComp, ast.GeneratorExp, ast.SetComp, ast.DictComp)) and any(m is reads[0] for m in ast.walk(n))
                               for h in hdr for n in ast.walk(h)):
                            continue
                    else:
                        later = {id(y) for s in lst[i + 1:] for y in ast.walk(s)}
                        if not all(id(r) in later for r in reads):
                            continue
                        if any(stores.get(n.id, 0) > 1 for n in ast.walk(st.value) if isinstance(n, ast.Name)):
                            continue
                        if any(isinstance(n, (ast.List, ast.Dict, ast.Set, ast.ListComp, ast.DictComp, ast.SetComp)) for n in ast.walk(st.value)) and len(reads) > 1:
                            continue          # a fresh container read twice is one object, not two

                    class R(ast.NodeTransformer):
                        def visit_Name(s, n):
                            if n.id == x and isinstance(n.ctx, ast.Load):
                                return ast.copy_location(copy.deepcopy(st.value), n)
                            return n
                    new = [R().visit(s) for s in lst if s is not st]
                    setattr(owner, fld, new)
                    ast.fix_missing_locations(fn)
                    log.append(f"{qual}: introduced local {x} read back as its value")
                    done = True
                    break
                if done:
                    break
            if done:
                break
        if not done:
            return
