"""E-INLINE: undo an "extract method" refactoring.

A function that the reference tree does not have, that is called from exactly one place of its own module, and whose body is
straight-line code with at most one `return` (the last statement) is substituted back at its call site: parameters are replaced
by the argument expressions (only when those are plain names, attributes, constants or subscripts of such), the trailing
`return E` becomes the value of the call.  The definition is removed.  Anything that does not fit stays as it is - the rules
then see the helper as a helper.  Like E-ALPHA this is only ever used to remove a difference from the reference tree."""
from __future__ import annotations

import ast
import copy
from typing import Dict, List, Optional


def _simple(e) -> bool:
    if isinstance(e, (ast.Name, ast.Constant)):
        return True
    if isinstance(e, ast.Attribute):
        return _simple(e.value)
    if isinstance(e, ast.Subscript):
        return _simple(e.value) and _simple(e.slice)
    return False


def _returns(body) -> List[ast.Return]:
    out = []
    todo = list(body)
    while todo:
        n = todo.pop()
        if isinstance(n, (ast.FunctionDef, ast.AsyncFunctionDef, ast.Lambda, ast.ClassDef)):
            continue
        if isinstance(n, ast.Return):
            out.append(n)
        todo.extend(ast.iter_child_nodes(n))
    return out


def inlinable(fn: ast.FunctionDef) -> bool:
    if fn.decorator_list or fn.args.vararg or fn.args.kwarg or fn.args.kwonlyargs or fn.args.posonlyargs:
        return False
    for n in ast.walk(fn):
        if isinstance(n, (ast.Yield, ast.YieldFrom, ast.Await, ast.Global, ast.Nonlocal)):
            return False
        if n is not fn and isinstance(n, (ast.FunctionDef, ast.AsyncFunctionDef, ast.ClassDef)):
            return False
    body = [s for s in fn.body if not (isinstance(s, ast.Expr) and isinstance(s.value, ast.Constant) and isinstance(s.value.value, str))]
    if not body:
        return False
    rets = _returns(body)
    if len(rets) > 1 or (rets and rets[0] is not body[-1]):
        return False
    params = {a.arg for a in fn.args.args}
    stored = {n.id for n in ast.walk(fn) if isinstance(n, ast.Name) and isinstance(n.ctx, (ast.Store, ast.Del))}
    if stored & params:
        return False
    return True


def expand(fn: ast.FunctionDef, call: ast.Call, is_method: bool) -> Optional[tuple]:
    """(statements, value expression or None) of the body with the arguments substituted"""
    params = [a.arg for a in fn.args.args]
    args = list(call.args)
    binding: Dict[str, ast.AST] = {}
    if is_method:
        if not params:
            return None
        recv = call.func.value if isinstance(call.func, ast.Attribute) else None
        if recv is None or not _simple(recv):
            return None
        binding[params[0]] = recv
        params = params[1:]
    for p, a in zip(params, args):
        binding[p] = a
    for k in call.keywords:
        if k.arg is None or k.arg not in params or k.arg in binding:
            return None
        binding[k.arg] = k.value
    dflt = fn.args.defaults
    allp = [a.arg for a in fn.args.args]
    for p, d in zip(allp[len(allp) - len(dflt):], dflt):
        binding.setdefault(p, d)
    if set(allp) - set(binding) or len(args) > len(params):
        return None
    if not all(_simple(v) for v in binding.values()):
        return None

    class Sub(ast.NodeTransformer):
        def visit_Name(self, n):
            if n.id in binding and isinstance(n.ctx, ast.Load):
                return ast.copy_location(copy.deepcopy(binding[n.id]), n)
            return n
    body = [s for s in fn.body if not (isinstance(s, ast.Expr) and isinstance(s.value, ast.Constant) and isinstance(s.value.value, str))]
    body = [Sub().visit(copy.deepcopy(s)) for s in body]
    value = None
    if body and isinstance(body[-1], ast.Return):
        value = body[-1].value
        body = body[:-1]
    return body, value


def undo_extractions(modules: Dict[str, ast.Module], known_quals: set, log: List[str]):
    """modules: module name -> tree.  known_quals: qualified names of the reference tree's functions."""
    for mname, tree in modules.items():
        for _round in range(3):
            # candidate definitions: module-level functions and methods that the reference does not know
            defs = []      # (container body list, class name or None, FunctionDef)
            for st in tree.body:
                if isinstance(st, ast.FunctionDef) and f"{mname}.{st.name}" not in known_quals:
                    defs.append((tree.body, None, st))
                elif isinstance(st, ast.ClassDef):
                    for s2 in st.body:
                        if isinstance(s2, ast.FunctionDef) and f"{mname}.{st.name}.{s2.name}" not in known_quals and not (s2.name.startswith("__") and s2.name.endswith("__")):
                            defs.append((st.body, st.name, s2))
            changed = False
            for container, cname, fn in defs:
                if not inlinable(fn):
                    continue
                # all references to the name in the whole module
                refs = [n for n in ast.walk(tree) if (isinstance(n, ast.Name) and n.id == fn.name) or (isinstance(n, ast.Attribute) and n.attr == fn.name)]
                calls = [c for c in ast.walk(tree) if isinstance(c, ast.Call) and (
                    (cname is None and isinstance(c.func, ast.Name) and c.func.id == fn.name) or
                    (cname is not None and isinstance(c.func, ast.Attribute) and c.func.attr == fn.name))]
                if len(calls) != 1 or len(refs) != 1:
                    continue
                call = calls[0]
                # find the statement holding the call: Expr / Assign / Return / AnnAssign with the call as its whole value
                done = False
                for holder in ast.walk(tree):
                    for fld in ("body", "orelse", "finalbody"):
                        lst = getattr(holder, fld, None)
                        if not isinstance(lst, list):
                            continue
                        for i, st in enumerate(lst):
                            if isinstance(st, (ast.Expr, ast.Assign, ast.Return)) and getattr(st, "value", None) is call:
                                ex = expand(fn, call, cname is not None)
                                if ex is None:
                                    continue
                                body, value = ex
                                if isinstance(st, ast.Expr):
                                    new = body + ([ast.copy_location(ast.Expr(value=value), st)] if value is not None and not isinstance(value, ast.Constant) else [])
                                elif value is None:
                                    continue
                                elif isinstance(st, ast.Assign):
                                    same = len(st.targets) == 1 and isinstance(st.targets[0], ast.Name) and isinstance(value, ast.Name) and st.targets[0].id == value.id
                                    new = body + ([] if same else [ast.copy_location(ast.Assign(targets=st.targets, value=value), st)])
                                else:
                                    new = body + [ast.copy_location(ast.Return(value=value), st)]
                                for s_ in new:
                                    ast.fix_missing_locations(s_)
                                lst[i:i + 1] = new
                                done = True
                                break
                        if done:
                            break
                    if done:
                        break
                if done:
                    container.remove(fn)
                    log.append(f"{mname}.{(cname + '.') if cname else ''}{fn.name} inlined at its only call site")
                    changed = True
            if not changed:
                break
