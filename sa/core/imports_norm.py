"""E-ALPHA for import aliases.  `import a.b.c as x`, `from a.b import c as x` and `from a.b import c` all bind a local name to the target
`a.b.c`; which local name is chosen cannot matter.  The committed reference stores, per module, target -> local name; a module of the tree
under analysis that binds the same target to another name gets that name replaced by the reference's name everywhere in the module (only when
neither name is bound in any other way in the module, so the replacement cannot capture anything).  Like the other E-ALPHA stages this is only
ever used to remove a difference from the reference tree."""
from __future__ import annotations

import ast
from typing import Dict, List


def import_bindings(tree: ast.Module) -> Dict[str, str]:
    """target -> local name, for every import statement of the module (function-level imports included)"""
    out: Dict[str, str] = {}
    for n in ast.walk(tree):
        if isinstance(n, ast.Import):
            for a in n.names:
                if a.asname:
                    out[a.name] = a.asname
        elif isinstance(n, ast.ImportFrom) and n.module and n.level == 0:
            for a in n.names:
                if a.name != "*":
                    out[f"{n.module}.{a.name}"] = a.asname or a.name
    return out


def _other_bindings(tree: ast.Module) -> set:
    names = set()
    for n in ast.walk(tree):
        if isinstance(n, ast.Name) and isinstance(n.ctx, (ast.Store, ast.Del)):
            names.add(n.id)
        elif isinstance(n, ast.arg):
            names.add(n.arg)
        elif isinstance(n, (ast.FunctionDef, ast.AsyncFunctionDef, ast.ClassDef)):
            names.add(n.name)
        elif isinstance(n, ast.ExceptHandler) and n.name:
            names.add(n.name)
        elif isinstance(n, (ast.Global, ast.Nonlocal)):
            names.update(n.names)
    return names


def undo_alias_renames(trees: Dict[str, ast.Module], ref: Dict[str, Dict[str, str]], log: List[str]):
    for mod, tree in trees.items():
        want = ref.get(mod)
        if not want:
            continue
        have = import_bindings(tree)
        other = _other_bindings(tree)
        ren = {}
        for target, local in have.items():
            w = want.get(target)
            if w and w != local and local not in other and w not in other and w not in have.values() and w not in ren.values():
                ren[local] = w
        if not ren:
            continue
        for n in ast.walk(tree):
            if isinstance(n, ast.Name) and n.id in ren:
                n.id = ren[n.id]
            elif isinstance(n, ast.Import):
                for a in n.names:
                    if a.asname in ren:
                        a.asname = ren[a.asname]
            elif isinstance(n, ast.ImportFrom) and n.module and n.level == 0:
                for a in n.names:
                    loc = a.asname or a.name
                    if loc in ren:
                        a.asname = ren[loc] if ren[loc] != a.name else None
        for a, b in sorted(ren.items()):
            log.append(f"import alias {mod}: {a} -> {b}")
