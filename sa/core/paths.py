"""E-IR: structured path enumeration over a function body (no CFG library needed:
Python has no goto).  A path is a linear list of events in evaluation order:

  call    a Call expression (arguments' calls come first, as Python evaluates them)
  assign  an assignment statement (after the calls of its value)
  cond    an `if`/`while` test with the direction taken on this path
  assert  an assert statement (path continues with the condition assumed true)
  iter    entering one iteration of a for loop (node = the For)
  except  entering an exception handler (the try body is assumed to have raised
          at its start: a conservative prefix)
  return / raise / end   path terminators

Conditions with syntactically identical tests are correlated along a path as
long as no name they mention is re-assigned in between (needed e.g. for the two
`if not first:` of visit_BoolOp).  Loops are unrolled 0..`unroll` times.
"""
from __future__ import annotations

import ast
from dataclasses import dataclass, field
from typing import Dict, FrozenSet, Iterator, List, Optional, Tuple

from .common import AnalysisError

MAX_PATHS = 20000


@dataclass
class Ev:
    kind: str
    node: ast.AST
    stmt: Optional[ast.stmt] = None
    taken: Optional[bool] = None
    flags: FrozenSet[str] = frozenset()

    def __repr__(self):
        s = ast.unparse(self.node) if not isinstance(self.node, (ast.For, ast.ExceptHandler, ast.FunctionDef)) else type(self.node).__name__
        s = s.replace("\n", " ")[:70]
        return f"<{self.kind}{'' if self.taken is None else ':' + str(self.taken)} {s}>"


@dataclass
class Path:
    events: List[Ev] = field(default_factory=list)
    conds: Dict[str, Tuple[bool, FrozenSet[str]]] = field(default_factory=dict)
    status: str = "live"     # live | return | raise | break | continue | truncated
    consts: Dict[str, object] = field(default_factory=dict)     # locals whose value on this path is a known constant (flags, loop indices)

    def fork(self) -> "Path":
        return Path(list(self.events), dict(self.conds), self.status, dict(self.consts))

    def calls(self) -> Iterator[Ev]:
        return (e for e in self.events if e.kind == "call")


def _expr_events(e: Optional[ast.AST], stmt, flags=frozenset()) -> List[Ev]:
    """Call events inside an expression in (approximate) evaluation order."""
    out: List[Ev] = []
    if e is None:
        return out

    def rec(n: ast.AST, fl):
        if isinstance(n, ast.Lambda):
            return  # body not evaluated here
        if isinstance(n, (ast.ListComp, ast.SetComp, ast.GeneratorExp, ast.DictComp)):
            fl2 = fl | {"comp"}
            for g in n.generators:
                rec(g.iter, fl)
                for c in g.ifs:
                    rec(c, fl2)
            if isinstance(n, ast.DictComp):
                rec(n.key, fl2)
                rec(n.value, fl2)
            else:
                rec(n.elt, fl2)
            return
        if isinstance(n, ast.IfExp):
            rec(n.test, fl)
            rec(n.body, fl | {"conditional"})
            rec(n.orelse, fl | {"conditional"})
            return
        if isinstance(n, ast.BoolOp):
            rec(n.values[0], fl)
            for v in n.values[1:]:
                rec(v, fl | {"conditional"})
            return
        for ch in ast.iter_child_nodes(n):
            rec(ch, fl)
        if isinstance(n, ast.Call):
            out.append(Ev("call", n, stmt, flags=frozenset(fl)))

    rec(e, frozenset(flags))
    return out


def _names(n: ast.AST) -> FrozenSet[str]:
    return frozenset(x.id for x in ast.walk(n) if isinstance(x, ast.Name))


def _assigned_names(t: ast.AST) -> List[str]:
    return [x.id for x in ast.walk(t) if isinstance(x, ast.Name)]


def _fold(e: ast.AST, consts: Dict[str, object]):
    """constant folding of a test / right-hand side over the known constant locals; raises when not constant"""
    from .finite_eval import ev, Unknown
    if not any(isinstance(n, ast.Name) for n in ast.walk(e)) and not isinstance(e, ast.Constant):
        raise Unknown("no local involved")
    if any(isinstance(n, (ast.Call, ast.Attribute, ast.Subscript, ast.Lambda, ast.Await, ast.Yield)) for n in ast.walk(e)):
        raise Unknown("not a pure expression over locals")
    return ev(e, consts, {})


def _invalidate(p: Path, names):
    names = set(names)
    for nm in names:
        p.consts.pop(nm, None)
    for k in [k for k, (_, ns) in p.conds.items() if ns & names]:
        del p.conds[k]


_NEG_OPS = {ast.IsNot: ast.Is, ast.NotEq: ast.Eq, ast.NotIn: ast.In}


def _cond_key(test: ast.AST) -> Tuple[str, bool]:
    """Canonical text of a test and whether the test is its negation (`not x`, `a is not b`, `a != b`, `a not in b`)."""
    inv = False
    while isinstance(test, ast.UnaryOp) and isinstance(test.op, ast.Not):
        inv = not inv
        test = test.operand
    if isinstance(test, ast.Compare) and len(test.ops) == 1 and type(test.ops[0]) in _NEG_OPS:
        pos = ast.Compare(left=test.left, ops=[_NEG_OPS[type(test.ops[0])]()], comparators=test.comparators)
        return ast.unparse(pos), not inv
    return ast.unparse(test), inv


class _Enum:
    def __init__(self, unroll: int):
        self.unroll = unroll

    def block(self, stmts: List[ast.stmt], paths: List[Path]) -> List[Path]:
        for st in stmts:
            live = [p for p in paths if p.status == "live"]
            done = [p for p in paths if p.status != "live"]
            if not live:
                return paths
            nxt: List[Path] = []
            for p in live:
                nxt.extend(self.stmt(st, p))
            paths = done + nxt
            if len(paths) > MAX_PATHS:
                raise AnalysisError(f"path explosion (> {MAX_PATHS}) near line {st.lineno}")
        return paths

    def branch(self, test: ast.AST, st, p: Path) -> List[Tuple[Path, bool]]:
        """Fork on a test honouring correlation. Returns [(path, truth)]."""
        p.events.extend(_expr_events(test, st))
        key, inv = _cond_key(test)
        if isinstance(test, ast.Constant):
            truth = bool(test.value)
            p.events.append(Ev("cond", test, st, taken=truth))
            return [(p, truth)]
        if key in p.conds:
            truth = p.conds[key][0] ^ inv
            p.events.append(Ev("cond", test, st, taken=truth))
            return [(p, truth)]
        if p.consts and _names(test) and _names(test) <= set(p.consts):
            try:
                truth = bool(_fold(test, p.consts))
                p.events.append(Ev("cond", test, st, taken=truth))
                return [(p, truth)]
            except Exception:
                pass
        out = []
        names = _names(test)
        for truth in (True, False):
            q = p.fork()
            q.conds[key] = (truth ^ inv, names)
            q.events.append(Ev("cond", test, st, taken=truth))
            out.append((q, truth))
        return out

    def stmt(self, st: ast.stmt, p: Path) -> List[Path]:
        if isinstance(st, ast.If):
            res: List[Path] = []
            for q, truth in self.branch(st.test, st, p):
                res.extend(self.block(st.body if truth else st.orelse, [q]))
            return res
        if isinstance(st, (ast.For, ast.AsyncFor)):
            p.events.extend(_expr_events(st.iter, st))
            res = []
            cur = [p]
            for k in range(self.unroll + 1):
                # exit after k iterations
                for q in cur:
                    e = q.fork()
                    e.events.append(Ev("cond", st, st, taken=False, flags=frozenset({"loop_exit", f"iters={k}"})))
                    res.extend(self.block(st.orelse, [e]))
                if k == self.unroll:
                    break
                nxt = []
                for q in cur:
                    q = q.fork()
                    q.events.append(Ev("iter", st, st, flags=frozenset({f"iter={k}"})))
                    _invalidate(q, _assigned_names(st.target))
                    # for i, x in enumerate(xs[, start]): the index of the k-th iteration is a known constant
                    if isinstance(st.iter, ast.Call) and isinstance(st.iter.func, ast.Name) and st.iter.func.id == "enumerate" \
                            and isinstance(st.target, ast.Tuple) and len(st.target.elts) == 2 and isinstance(st.target.elts[0], ast.Name):
                        start = 0
                        s_arg = st.iter.args[1] if len(st.iter.args) > 1 else next((kw.value for kw in st.iter.keywords if kw.arg == "start"), None)
                        if s_arg is None or (isinstance(s_arg, ast.Constant) and isinstance(s_arg.value, int)):
                            start = s_arg.value if s_arg is not None else 0
                            q.consts[st.target.elts[0].id] = start + k
                    for r in self.block(st.body, [q]):
                        if r.status == "continue":
                            r.status = "live"
                            nxt.append(r)
                        elif r.status == "break":
                            r.status = "live"
                            res.append(r)
                        elif r.status == "live":
                            nxt.append(r)
                        else:
                            res.append(r)
                cur = nxt
            return res
        if isinstance(st, ast.While):
            res = []
            cur = [p]
            for k in range(self.unroll + 1):
                nxt = []
                for q in cur:
                    for r, truth in self.branch_nocorr(st.test, st, q):
                        if not truth:
                            res.extend(self.block(st.orelse, [r]))
                        elif k < self.unroll:
                            for s in self.block(st.body, [r]):
                                if s.status == "continue":
                                    s.status = "live"
                                    nxt.append(s)
                                elif s.status == "break":
                                    s.status = "live"
                                    res.append(s)
                                elif s.status == "live":
                                    nxt.append(s)
                                else:
                                    res.append(s)
                        else:
                            r.status = "truncated"
                            res.append(r)
                cur = nxt
            return res
        if isinstance(st, (ast.With, ast.AsyncWith)):
            for it in st.items:
                p.events.extend(_expr_events(it.context_expr, st))
                if it.optional_vars is not None:
                    _invalidate(p, _assigned_names(it.optional_vars))
            p.events.append(Ev("with_enter", st, st))
            res = self.block(st.body, [p])
            for r in res:
                r.events.append(Ev("with_exit", st, st))
            return res
        if isinstance(st, ast.Try) or (hasattr(ast, "TryStar") and isinstance(st, ast.TryStar)):
            entry = p.fork()
            p.events.append(Ev("try_enter", st, st))
            res = self.block(st.body, [p])
            res = [r for r in res]
            for r in res:
                if r.status == "live":
                    pass
            res2 = []
            for r in res:
                if r.status == "live" and st.orelse:
                    res2.extend(self.block(st.orelse, [r]))
                else:
                    res2.append(r)
            for h in st.handlers:
                q = entry.fork()
                q.events.append(Ev("except", h, st, flags=frozenset({"exc_path"})))
                res2.extend(self.block(h.body, [q]))
            if st.finalbody:
                out = []
                for r in res2:
                    status = r.status
                    r.status = "live"
                    for s in self.block(st.finalbody, [r]):
                        if s.status == "live":
                            s.status = status
                        out.append(s)
                res2 = out
            return res2
        if isinstance(st, ast.Return):
            p.events.extend(_expr_events(st.value, st))
            p.events.append(Ev("return", st, st))
            p.status = "return"
            return [p]
        if isinstance(st, ast.Raise):
            p.events.extend(_expr_events(st.exc, st))
            p.events.append(Ev("raise", st, st))
            p.status = "raise"
            return [p]
        if isinstance(st, ast.Break):
            p.status = "break"
            return [p]
        if isinstance(st, ast.Continue):
            p.status = "continue"
            return [p]
        if isinstance(st, ast.Assert):
            p.events.extend(_expr_events(st.test, st))
            p.events.append(Ev("assert", st.test, st))
            key, inv = _cond_key(st.test)
            p.conds[key] = (True ^ inv, _names(st.test))
            return [p]
        if isinstance(st, (ast.Assign, ast.AnnAssign, ast.AugAssign)):
            val = st.value
            p.events.extend(_expr_events(val, st))
            tgts = st.targets if isinstance(st, ast.Assign) else [st.target]
            for t in tgts:
                if not isinstance(t, ast.Name):
                    p.events.extend(_expr_events(t, st))
            p.events.append(Ev("assign", st, st))
            for t in tgts:
                if isinstance(t, (ast.Name, ast.Tuple, ast.List)):
                    _invalidate(p, _assigned_names(t))
            # constant propagation for simple flags: x = True/False/None fixes later tests on x
            if isinstance(st, ast.Assign) and len(tgts) == 1 and isinstance(tgts[0], ast.Name) and isinstance(val, ast.Constant):
                nm = tgts[0].id
                if isinstance(val.value, bool):
                    p.conds[nm] = (val.value, frozenset({nm}))
                    p.conds[f"{nm} is None"] = (False, frozenset({nm}))
                elif val.value is None:
                    p.conds[f"{nm} is None"] = (True, frozenset({nm}))
                    p.conds[nm] = (False, frozenset({nm}))
            if isinstance(st, ast.Assign) and len(tgts) == 1 and isinstance(tgts[0], ast.Name):
                try:
                    v = _fold(val, p.consts)
                    if isinstance(v, (bool, int, str, type(None))):
                        p.consts[tgts[0].id] = v
                except Exception:
                    pass
            elif isinstance(st, ast.AugAssign) and isinstance(st.target, ast.Name) and st.target.id in p.consts:
                p.consts.pop(st.target.id, None)
            return [p]
        if isinstance(st, (ast.FunctionDef, ast.AsyncFunctionDef, ast.ClassDef)):
            p.events.append(Ev("def", st, st))
            return [p]
        if isinstance(st, ast.Expr):
            p.events.extend(_expr_events(st.value, st))
            p.events.append(Ev("expr", st, st))
            return [p]
        if isinstance(st, (ast.Pass, ast.Import, ast.ImportFrom, ast.Global, ast.Nonlocal)):
            p.events.append(Ev("misc", st, st))
            return [p]
        if isinstance(st, ast.Delete):
            p.events.append(Ev("delete", st, st))
            return [p]
        if hasattr(ast, "Match") and isinstance(st, ast.Match):
            raise AnalysisError(f"match statement at line {st.lineno} is outside the analysed statement subset")
        raise AnalysisError(f"statement kind {type(st).__name__} at line {st.lineno} is outside the analysed subset")

    def branch_nocorr(self, test, st, p):
        p.events.extend(_expr_events(test, st))
        if isinstance(test, ast.Constant) and bool(test.value):
            p.events.append(Ev("cond", test, st, taken=True))
            return [(p, True)]
        out = []
        for truth in (True, False):
            q = p.fork()
            q.events.append(Ev("cond", test, st, taken=truth))
            out.append((q, truth))
        return out


def enumerate_paths(fn: ast.AST, unroll: int = 1) -> List[Path]:
    """All structured paths through a FunctionDef body."""
    body = fn.body if isinstance(fn.body, list) else [ast.Return(value=fn.body, lineno=fn.lineno)]
    paths = _Enum(unroll).block(body, [Path()])
    for p in paths:
        if p.status == "live":
            p.events.append(Ev("end", fn, None))
            p.status = "end"
    return paths


# ---------------------------------------------------------------------------
# guard queries


def len_constraint(ev: Ev, target_src: str) -> Optional[Tuple[int, Optional[int]]]:
    """If `ev` is a cond/assert event that constrains len(<target_src>), return the
    (min, max) interval implied in the direction taken; else None."""
    if ev.kind not in ("cond", "assert"):
        return None
    test = ev.node
    taken = True if ev.kind == "assert" else ev.taken
    if isinstance(test, (ast.For, ast.While)):
        return None
    return _len_interval(test, target_src, taken)


_LEN_TOP = 12          # lengths 0..11 are tracked exactly, _LEN_TOP stands for "12 or more"
_LEN_ALL = frozenset(range(_LEN_TOP + 1))


def len_values(test: ast.AST, target: str, truth: bool, aliases: Optional[Dict[str, ast.AST]] = None) -> Optional[frozenset]:
    """The set of lengths of <target> compatible with `test` having the given truth value (None: the test says nothing about it).
    Understands len(x) <op> k, k <op> len(x), len(x) in/not in (k1, k2, ..), truthiness of x itself, not, and/or; `aliases` maps locals that
    are bound once to len(<expr>) to that expression (n = len(x); if n == 2)."""
    while isinstance(test, ast.UnaryOp) and isinstance(test.op, ast.Not):
        truth = not truth
        test = test.operand
    if isinstance(test, (ast.Name, ast.Attribute, ast.Subscript)) and ast.unparse(test) == target:
        return frozenset(range(1, _LEN_TOP + 1)) if truth else frozenset({0})
    if isinstance(test, ast.BoolOp):
        parts = [len_values(v, target, truth, aliases) for v in test.values]
        conj = (isinstance(test.op, ast.And) and truth) or (isinstance(test.op, ast.Or) and not truth)
        if conj:
            known = [x for x in parts if x is not None]
            if not known:
                return None
            out = _LEN_ALL
            for x in known:
                out = out & x
            return out
        if any(x is None for x in parts):
            return None
        out = frozenset()
        for x in parts:
            out = out | x
        return out
    if not (isinstance(test, ast.Compare) and len(test.ops) == 1):
        return None
    l, op, r = test.left, test.ops[0], test.comparators[0]

    def is_len(x):
        if aliases and isinstance(x, ast.Name) and x.id in aliases:
            x = aliases[x.id]
        return isinstance(x, ast.Call) and isinstance(x.func, ast.Name) and x.func.id == "len" \
            and len(x.args) == 1 and ast.unparse(x.args[0]) == target

    def const(x):
        return x.value if isinstance(x, ast.Constant) and isinstance(x.value, int) and not isinstance(x.value, bool) else None

    if isinstance(op, (ast.In, ast.NotIn)) and is_len(l) and isinstance(r, (ast.Tuple, ast.List, ast.Set)) and all(const(e) is not None for e in r.elts):
        inside = frozenset(min(const(e), _LEN_TOP) for e in r.elts if const(e) >= 0)
        pos = isinstance(op, ast.In) == truth
        return inside if pos else _LEN_ALL - frozenset(x for x in inside if x < _LEN_TOP)
    if is_len(l) and const(r) is not None:
        n, o = const(r), type(op)
    elif is_len(r) and const(l) is not None:
        n = const(l)
        o = {ast.Lt: ast.Gt, ast.Gt: ast.Lt, ast.LtE: ast.GtE, ast.GtE: ast.LtE}.get(type(op), type(op))
    else:
        return None
    fn = {ast.Eq: lambda v: v == n, ast.NotEq: lambda v: v != n, ast.Lt: lambda v: v < n, ast.LtE: lambda v: v <= n,
          ast.Gt: lambda v: v > n, ast.GtE: lambda v: v >= n}.get(o)
    if fn is None or n >= _LEN_TOP:
        return None
    # _LEN_TOP represents every length >= _LEN_TOP: it stays possible unless the relation excludes all of them
    vals = set()
    for v in range(_LEN_TOP):
        if fn(v) == truth:
            vals.add(v)
    if fn(_LEN_TOP) == truth or fn(10 ** 6) == truth:
        vals.add(_LEN_TOP)
    return frozenset(vals)


def len_aliases(fn: ast.AST) -> Dict[str, ast.AST]:
    """locals of fn bound exactly once, by `n = len(<expr>)`"""
    count: Dict[str, int] = {}
    val: Dict[str, ast.AST] = {}
    for n in ast.walk(fn):
        if isinstance(n, ast.Name) and isinstance(n.ctx, (ast.Store, ast.Del)):
            count[n.id] = count.get(n.id, 0) + 1
        if isinstance(n, ast.Assign) and len(n.targets) == 1 and isinstance(n.targets[0], ast.Name) and isinstance(n.value, ast.Call) \
                and isinstance(n.value.func, ast.Name) and n.value.func.id == "len" and len(n.value.args) == 1:
            val[n.targets[0].id] = n.value
    return {k: v for k, v in val.items() if count.get(k) == 1}


def _len_interval(test: ast.AST, target: str, truth: bool) -> Optional[Tuple[int, Optional[int]]]:
    vs = len_values(test, target, truth)
    if vs is None or not vs:
        return None
    if vs == _LEN_ALL:
        return None
    hi = max(vs)
    return (min(vs), None if hi == _LEN_TOP else hi)


def _min_opt(a, b):
    if a is None:
        return b
    if b is None:
        return a
    return min(a, b)


# ---------------------------------------------------------------------------
# syntax-directed control dependence ("guards")


def parent_map(root: ast.AST) -> Dict[ast.AST, ast.AST]:
    pm: Dict[ast.AST, ast.AST] = {}
    for n in ast.walk(root):
        for ch in ast.iter_child_nodes(n):
            pm[ch] = n
    return pm


def _always_exits(stmts: List[ast.stmt]) -> bool:
    """True if the statement list cannot fall through (ends in raise/return/continue/break on all paths)."""
    if not stmts:
        return False
    last = stmts[-1]
    if isinstance(last, (ast.Raise, ast.Return, ast.Continue, ast.Break)):
        return True
    if isinstance(last, ast.If):
        return _always_exits(last.body) and _always_exits(last.orelse)
    return False


def guards(fn: ast.AST, node: ast.AST, pm: Optional[Dict] = None) -> List[Tuple[ast.AST, bool]]:
    """Conditions under which `node` executes inside fn: enclosing if/while tests with
    the branch direction, plus earlier sibling early exits (`if c: raise` => (c, False))
    and asserts (=> (test, True)).  Syntax-directed dominance; no goto in Python.
    Tests are reported in positive form (see `positive`)."""
    pm = pm or parent_map(fn)
    out: List[Tuple[ast.AST, bool]] = []
    cur = node
    while cur is not fn and cur in pm:
        par = pm[cur]
        # which statement list holds cur?
        for fld in ("body", "orelse", "finalbody"):
            lst = getattr(par, fld, None)
            if isinstance(lst, list) and cur in lst:
                idx = lst.index(cur)
                for prev in lst[:idx]:
                    if isinstance(prev, ast.If):
                        if _always_exits(prev.body) and not _always_exits(prev.orelse):
                            out.append((prev.test, False))
                        elif prev.orelse and _always_exits(prev.orelse) and not _always_exits(prev.body):
                            out.append((prev.test, True))
                    elif isinstance(prev, ast.Assert):
                        out.append((prev.test, True))
                if isinstance(par, ast.If):
                    out.append((par.test, fld == "body"))
                elif isinstance(par, ast.While) and fld == "body":
                    out.append((par.test, True))
        # expression-level control: a later operand of and/or runs only when the earlier ones did not decide; the arms of a conditional
        # expression run under its test
        if isinstance(par, ast.BoolOp) and cur in par.values:
            for prev in par.values[:par.values.index(cur)]:
                out.append((prev, isinstance(par.op, ast.And)))
        elif isinstance(par, ast.IfExp) and cur is not par.test:
            out.append((par.test, cur is par.body))
        cur = par
    # canonical polarity: (not x, T) is reported as (x, F), (a != b, T) as (a == b, F) - rules never depend on how a test is spelled
    return _close([positive(t, tr) for t, tr in out])


def _close(gs: List[Tuple[ast.AST, bool]]) -> List[Tuple[ast.AST, bool]]:
    """Propositional closure of a guard list into its atoms, so that rules do not depend on how a compound condition is spelled:
    (A and B, T) gives (A, T), (B, T);  (A or B, F) gives (A, F), (B, F);  (A and B, F) with (A, T) known gives (B, F);
    (A or B, T) with (A, F) known gives (B, T).  The compound guards are kept, the atoms are appended (no duplicates)."""
    out = list(gs)
    known = {(ast.unparse(t), tr) for t, tr in out}

    def add(t, tr):
        t, tr = positive(t, tr)
        k = (ast.unparse(t), tr)
        if k not in known:
            known.add(k)
            out.append((t, tr))

    i = 0
    rounds = 0
    while i < len(out) and rounds < 400:
        rounds += 1
        t, tr = out[i]
        i += 1
        if isinstance(t, ast.BoolOp):
            conj = isinstance(t.op, ast.And)
            if tr == conj:                       # (A and B) true / (A or B) false: every operand has that value
                for v in t.values:
                    add(v, tr)
            else:                                # exactly-one-left resolution
                undecided = []
                for v in t.values:
                    pv, ptr = positive(v, True)
                    if (ast.unparse(pv), ptr if conj else not ptr) in known:
                        continue                 # this operand is known not to be the deciding one
                    undecided.append(v)
                if len(undecided) == 1:
                    add(undecided[0], not conj)
                elif undecided and i <= len(out) and rounds < 200:
                    pass
    # one more resolution pass for compound guards that preceded the facts they needed
    for t, tr in list(out):
        if isinstance(t, ast.BoolOp):
            conj = isinstance(t.op, ast.And)
            if tr != conj:
                undecided = []
                for v in t.values:
                    pv, ptr = positive(v, True)
                    if (ast.unparse(pv), ptr if conj else not ptr) in known:
                        continue
                    undecided.append(v)
                if len(undecided) == 1:
                    add(undecided[0], not conj)
    return out


def enclosing(fn: ast.AST, node: ast.AST, kinds, pm: Optional[Dict] = None) -> List[ast.AST]:
    pm = pm or parent_map(fn)
    out = []
    cur = node
    while cur is not fn and cur in pm:
        cur = pm[cur]
        if isinstance(cur, kinds):
            out.append(cur)
    return out


def truth_table_implies(test: ast.AST, truth: bool, required_atoms: List[str]) -> bool:
    """Propositional check: whenever `test` evaluates to `truth`, every atom in
    required_atoms (source text of a sub-expression) is true.  Atoms are the maximal
    non-boolean sub-expressions of test; and/or/not are interpreted."""
    atoms: List[str] = []
    env: Dict[str, ast.AST] = {}

    def opaque(v) -> bool:
        return isinstance(v, (ast.Name, ast.Attribute)) and not (isinstance(v, ast.Name) and v.id in env)

    def collect(n):
        n = _subst(n, env) if env else n
        if isinstance(n, ast.BoolOp):
            for v in n.values:
                collect(v)
        elif isinstance(n, ast.UnaryOp) and isinstance(n.op, ast.Not):
            collect(n.operand)
        else:
            s = ast.unparse(n)
            if s not in atoms:
                atoms.append(s)

    collect(test)
    for r in required_atoms:
        if r not in atoms:
            return False
    if len(atoms) > 12:
        raise AnalysisError("condition too large for the propositional check")

    def ev(n, env):
        if isinstance(n, ast.BoolOp):
            vals = [ev(v, env) for v in n.values]
            return all(vals) if isinstance(n.op, ast.And) else any(vals)
        if isinstance(n, ast.UnaryOp) and isinstance(n.op, ast.Not):
            return not ev(n.operand, env)
        return env[ast.unparse(n)]

    import itertools
    for bits in itertools.product([False, True], repeat=len(atoms)):
        env = dict(zip(atoms, bits))
        if ev(test, env) == truth and not all(env[r] for r in required_atoms):
            return False
    return True


_POS = {ast.NotEq: ast.Eq, ast.IsNot: ast.Is, ast.NotIn: ast.In}


def positive(t: ast.AST, truth: bool = True) -> Tuple[ast.AST, bool]:
    """(test, truth) with every outer negation folded into the truth value: (not x, T) -> (x, F); (a != b, T) -> (a == b, F)."""
    while True:
        if isinstance(t, ast.UnaryOp) and isinstance(t.op, ast.Not):
            t, truth = t.operand, not truth
        elif isinstance(t, ast.Compare) and len(t.ops) == 1 and type(t.ops[0]) in _POS:
            t = ast.copy_location(ast.Compare(left=t.left, ops=[_POS[type(t.ops[0])]()], comparators=t.comparators), t)
            truth = not truth
        else:
            return t, truth


def pguards(fn: ast.AST, node: ast.AST, pm: Optional[Dict] = None) -> List[Tuple[str, bool]]:
    """guards() as (source of the positive test, truth) pairs - independent of how a test is spelled (not / != / guard clause)."""
    out = []
    for t, tr in guards(fn, node, pm):
        p, v = positive(t, tr)
        out.append((ast.unparse(p), v))
    return out


# ---------------------------------------------------------------------------
# outcomes of a function: what it returns / raises, under which conditions (spelling-independent)


@dataclass
class Outcome:
    kind: str                       # return | raise | end (falls off the end: returns None)
    value: Optional[ast.AST]
    guards: FrozenSet[Tuple[str, bool]]
    node: Optional[ast.AST]

    @property
    def text(self) -> str:
        return "None" if self.value is None else ast.unparse(self.value)

    def under(self, *req: Tuple[str, bool]) -> bool:
        return all(r in self.guards for r in req)

    @property
    def cguards(self) -> FrozenSet[Tuple[str, bool]]:
        """the guards with ordering tests in canonical `<` form (n >= 0 True is reported as (n < 0, False))"""
        out = set()
        for t, tr in self.guards:
            a, pol = canon_atom(ast.parse(t, mode="eval").body)
            out.add((a, tr == pol))
        return frozenset(out)


def _own_nodes(fn):
    todo = list(fn.body)
    while todo:
        n = todo.pop()
        yield n
        if isinstance(n, (ast.FunctionDef, ast.AsyncFunctionDef, ast.Lambda, ast.ClassDef)):
            continue
        todo.extend(ast.iter_child_nodes(n))


def outcomes(fn: ast.AST) -> List[Outcome]:
    """Every way the function ends, with the closed positive-form guard set (see guards) it ends under.  `return None`, a bare
    `return` and falling off the end are all reported with value None."""
    pm = parent_map(fn)
    out: List[Outcome] = []
    for n in _own_nodes(fn):
        if isinstance(n, (ast.Return, ast.Raise)):
            gs = frozenset((ast.unparse(t), tr) for t, tr in guards(fn, n, pm))
            if isinstance(n, ast.Return):
                v = n.value
                if isinstance(v, ast.Constant) and v.value is None:
                    v = None
                out.append(Outcome("return", v, gs, n))
            else:
                out.append(Outcome("raise", n.exc, gs, n))
    if not _always_exits(fn.body):
        marker = ast.Pass()
        fn.body.append(marker)
        try:
            pm2 = parent_map(fn)
            gs = frozenset((ast.unparse(t), tr) for t, tr in guards(fn, marker, pm2))
        finally:
            fn.body.pop()
        out.append(Outcome("end", None, gs, None))
    out.sort(key=lambda o: getattr(o.node, "_ord", 1 << 30) if o.node is not None else 1 << 30)
    return out


def returns_under(fn: ast.AST, value_pred, *req: Tuple[str, bool]) -> List[Outcome]:
    """the return outcomes (incl. the implicit None) whose value satisfies value_pred(text, node) and whose guards include req"""
    return [o for o in outcomes(fn) if o.kind in ("return", "end") and o.under(*req) and value_pred(o.text, o.value)]


def assigns(fn: ast.AST, target_src: str) -> List[Tuple[ast.AST, FrozenSet[Tuple[str, bool]], ast.AST]]:
    """(value, closed guard set, statement) for every plain assignment to `target_src` in the function's own code"""
    pm = parent_map(fn)
    out = []
    for n in _own_nodes(fn):
        if isinstance(n, ast.Assign) and any(ast.unparse(t) == target_src for t in n.targets):
            out.append((n.value, frozenset((ast.unparse(t), tr) for t, tr in guards(fn, n, pm)), n))
    out.sort(key=lambda x: getattr(x[2], "_ord", 0))
    return out


def calls_under(fn: ast.AST, pred) -> List[Tuple[ast.Call, FrozenSet[Tuple[str, bool]]]]:
    """(call, closed guard set) for every call in the function's own code with pred(call) true"""
    pm = parent_map(fn)
    out = []
    for n in _own_nodes(fn):
        if isinstance(n, ast.Call) and pred(n):
            out.append((n, frozenset((ast.unparse(t), tr) for t, tr in guards(fn, n, pm))))
    out.sort(key=lambda x: getattr(x[0], "_ord", 0))
    return out


# ---------------------------------------------------------------------------
# predicates as truth tables (finite evaluation of the propositional skeleton; the atoms stay uninterpreted)

_ORD = {ast.Gt: ("lt", True, True), ast.Lt: ("lt", False, True), ast.GtE: ("lt", False, False), ast.LtE: ("lt", True, False)}


def canon_atom(e: ast.AST) -> Tuple[str, bool]:
    """(canonical text, polarity) of a non-boolean test: not / != / is not / not in folded into the polarity; a > b, a >= b, a <= b
    re-expressed over `<` (a >= b is `not a < b`: the operands of every ordering test in this code base are lengths and counts)."""
    t, pol = positive(e, True)
    if isinstance(t, ast.Compare) and len(t.ops) == 1 and type(t.ops[0]) in _ORD:
        _, swap, keep = _ORD[type(t.ops[0])]
        a, b = (t.comparators[0], t.left) if swap else (t.left, t.comparators[0])
        return f"{ast.unparse(a)} < {ast.unparse(b)}", pol if keep else not pol
    return ast.unparse(t), pol


def predicate_table(fn: ast.AST) -> Tuple[List[str], Dict[Tuple[bool, ...], object]]:
    """The function as a decision procedure over its atoms: (atoms, {assignment: True/False/('value', text)/None}).  Only ifs, returns and
    a docstring may occur (anything else: AnalysisError - the caller defers).  Evaluation short-circuits like Python does."""
    atoms: List[str] = []
    senv: Dict[str, ast.AST] = {}

    def opaque(v) -> bool:
        return isinstance(v, (ast.Name, ast.Attribute)) and not (isinstance(v, ast.Name) and v.id in senv)

    def collect(n):
        n = _subst(n, senv) if senv else n
        if isinstance(n, ast.BoolOp):
            for v in n.values:
                collect(v)
        elif isinstance(n, ast.UnaryOp) and isinstance(n.op, ast.Not):
            collect(n.operand)
        elif isinstance(n, ast.Constant) and isinstance(n.value, bool):
            pass
        else:
            a, _ = canon_atom(n)
            if a not in atoms:
                atoms.append(a)

    def scan(stmts):
        for st in stmts:
            if isinstance(st, ast.Expr) and isinstance(st.value, ast.Constant):
                continue
            if isinstance(st, ast.Pass):
                continue
            if isinstance(st, ast.If):
                collect(st.test)
                scan(st.body)
                scan(st.orelse)
            elif isinstance(st, ast.Return):
                if st.value is not None and not opaque(st.value):
                    collect(st.value)
            elif isinstance(st, ast.Assign) and len(st.targets) == 1 and isinstance(st.targets[0], ast.Name) and st.targets[0].id not in senv:
                senv[st.targets[0].id] = _subst(st.value, senv)       # a local that names a sub-expression of the tests
            else:
                raise AnalysisError(f"{getattr(fn, 'name', '?')} is not a pure decision procedure (statement `{ast.unparse(st)[:50]}`)")

    scan(fn.body)
    if len(atoms) > 10:
        raise AnalysisError(f"{getattr(fn, 'name', '?')}: too many atoms for a truth table")

    def ev(n, env_):
        return ev0(_subst(n, senv) if senv else n, env_)

    def ev0(n, env):
        if isinstance(n, ast.BoolOp):
            if isinstance(n.op, ast.And):
                r = True
                for v in n.values:
                    r = ev0(v, env)
                    if not r:
                        return r
                return r
            r = False
            for v in n.values:
                r = ev0(v, env)
                if r:
                    return r
            return r
        if isinstance(n, ast.UnaryOp) and isinstance(n.op, ast.Not):
            return not ev0(n.operand, env)
        if isinstance(n, ast.Constant) and isinstance(n.value, bool):
            return n.value
        a, pol = canon_atom(n)
        return env[a] == pol

    class _Ret(Exception):
        pass

    def run(stmts, env):
        for st in stmts:
            if isinstance(st, ast.If):
                r = run(st.body if ev(st.test, env) else st.orelse, env)
                if r is not _Ret:
                    return r
            elif isinstance(st, ast.Return):
                if st.value is None:
                    return None
                return ("value", ast.unparse(st.value)) if opaque(st.value) else ev(st.value, env)
        return _Ret

    import itertools
    table = {}
    for bits in itertools.product([False, True], repeat=len(atoms)):
        env = dict(zip(atoms, bits))
        r = run(fn.body, env)
        table[bits] = None if r is _Ret else r
    return atoms, table


# ---------------------------------------------------------------------------
# forward substitution along a path (use-def chains made explicit): what a call finally receives, in terms of the function's inputs


class _Subst(ast.NodeTransformer):
    def __init__(self, env):
        self.env = env

    def visit_Name(self, node):
        if isinstance(node.ctx, ast.Load) and node.id in self.env:
            import copy
            return copy.deepcopy(self.env[node.id])
        return node

    def visit_Lambda(self, node):
        return node


def _subst(e: ast.AST, env: Dict[str, ast.AST]) -> ast.AST:
    import copy
    return ast.fix_missing_locations(_Subst(env).visit(copy.deepcopy(e)))


def substituted_paths(fn: ast.AST, unroll: int = 1) -> List[List[Tuple]]:
    """For every structured path: its calls and tests with each local replaced by the expression it was last assigned on that path
    (x = a; x += b; f(x)  reads  f(a + b)).  Items: ('call', Call) | ('cond', positive test, truth) | ('return', value) | ('raise', exc).
    Locals assigned inside loops are substituted only within the same iteration."""
    out = []
    for p in enumerate_paths(fn, unroll=unroll):
        env: Dict[str, ast.AST] = {}
        items: List[Tuple] = []
        for e in p.events:
            if e.kind == "assign":
                st = e.node
                if isinstance(st, ast.Assign) and len(st.targets) == 1 and isinstance(st.targets[0], ast.Name):
                    env[st.targets[0].id] = _subst(st.value, env)
                elif isinstance(st, ast.AugAssign) and isinstance(st.target, ast.Name):
                    cur = env.get(st.target.id, ast.Name(id=st.target.id, ctx=ast.Load()))
                    env[st.target.id] = ast.fix_missing_locations(ast.BinOp(left=cur, op=st.op, right=_subst(st.value, env)))
                else:
                    for t in (st.targets if isinstance(st, ast.Assign) else [st.target]):
                        for nm in _assigned_names(t):
                            env.pop(nm, None)
            elif e.kind == "iter":
                for nm in _assigned_names(e.node.target):
                    env.pop(nm, None)
            elif e.kind == "call":
                items.append(("call", _subst(e.node, env)))
            elif e.kind == "cond" and isinstance(e.node, ast.expr):
                t, tr = positive(_subst(e.node, env), bool(e.taken))
                items.append(("cond", t, tr))
            elif e.kind == "assert":
                t, tr = positive(_subst(e.node, env), True)
                items.append(("cond", t, tr))
            elif e.kind == "return":
                items.append(("return", None if e.node.value is None else _subst(e.node.value, env)))
            elif e.kind == "raise":
                items.append(("raise", None if e.node.exc is None else _subst(e.node.exc, env)))
        out.append(items)
    return out
