"""Shared harness: obligations, findings, known-findings file, evidence writer.

Exit codes (DESIGN 1.2): 0 held (possibly with KNOWN-FINDING lines), 1 VIOLATION,
2 ANALYSIS-ERROR (the checker could not analyse the tree: anchor vanished, parse
error, instance floor not reached).  Nothing here imports or runs repository code.
"""
from __future__ import annotations

import json
import os
import re
import sys
import time
import traceback
from dataclasses import dataclass, field
from pathlib import Path
from typing import Any, Callable, Dict, List, Optional

VERIF = Path(__file__).resolve().parents[2]
REPO = Path(os.environ.get("SA_REPO", "/repo"))
EVIDENCE_DIR = Path(os.environ.get("SA_EVIDENCE_DIR", str(VERIF / "evidence")))
KNOWN_FILE = VERIF / "known_findings.txt"


class AnalysisError(Exception):
    """The checker cannot analyse the tree (never a verdict on the property)."""


@dataclass
class Ob:
    """One obligation = one rule instance examined on one construct."""

    rule: str          # e.g. C01.R1
    construct: str     # qualified construct, e.g. query_ast_visitor.visit_IfExp
    detail: str        # stable detail key (no line numbers, no raw text)
    ok: bool
    msg: str = ""      # human explanation (what was compared / why it fails)
    loc: str = ""      # file:line for diagnosis only (not part of the key)

    @property
    def key(self) -> str:
        return f"{self.rule}|{self.construct}|{self.detail}"


class Collector:
    """Collects obligations of one property run."""

    def __init__(self, prop: str):
        self.prop = prop
        self.obs: List[Ob] = []
        self.info: Dict[str, Any] = {}
        self.floors: Dict[str, int] = {}
        self.deferred: List[str] = []

    def defer(self, msg: str):
        """A rule cannot be decided on this tree's shape (unrecognised refactoring). Reported as ANALYSIS-ERROR
        (exit 2) unless another rule reports a violation, in which case the violation stands."""
        self.deferred.append(msg)

    def add(self, rule, construct, detail, ok, msg="", loc=""):
        self.obs.append(Ob(rule, construct, detail, bool(ok), msg, loc))
        return bool(ok)

    def floor(self, rule: str, n: int):
        """Declare the hand-confirmed minimum number of instances of a rule."""
        self.floors[rule] = n

    def check_floors(self):
        counts: Dict[str, int] = {}
        for o in self.obs:
            counts[o.rule] = counts.get(o.rule, 0) + 1
        for rule, n in self.floors.items():
            if counts.get(rule, 0) < n:
                raise AnalysisError(
                    f"rule {rule} matched {counts.get(rule, 0)} instances, below the hand-confirmed floor {n}: "
                    "the rule would pass vacuously (anchor code moved or renamed?)"
                )
        return counts


def loc_of(path: Path, node) -> str:
    try:
        rel = path.relative_to(REPO)
    except Exception:
        rel = path
    return f"{rel}:{getattr(node, 'lineno', '?')}"


# --------------------------------------------------------------------------
# known findings


def _is_reference_tree() -> bool:
    """the tree under analysis is the committed tree the reference (sa/reference_head.txt) was generated from"""
    import subprocess
    ref = VERIF / "sa" / "reference_head.txt"
    if not ref.exists() or not (REPO / ".git").exists():
        return False
    try:
        head = subprocess.run(["git", "-C", str(REPO), "rev-parse", "HEAD"], capture_output=True, text=True, timeout=20).stdout.strip()
        dirty = subprocess.run(["git", "-C", str(REPO), "status", "--porcelain", "--untracked-files=no"], capture_output=True, text=True, timeout=20).stdout.strip()
    except Exception:
        return False
    return head == ref.read_text().strip() and not dirty



@dataclass
class Known:
    prop: str
    key: str
    text: str


def load_known() -> List[Known]:
    out: List[Known] = []
    if not KNOWN_FILE.exists():
        return out
    for line in KNOWN_FILE.read_text().splitlines():
        line = line.strip()
        if not line or line.startswith("#"):
            continue
        if line.startswith("fixed:"):
            continue  # fixed entries suppress nothing
        m = re.match(r"known:\s+property=(\S+)\s+key=(\S+)\s+(.*)$", line)
        if not m:
            raise AnalysisError(f"malformed line in known_findings.txt: {line!r}")
        out.append(Known(m.group(1), m.group(2), m.group(3)))
    return out


# --------------------------------------------------------------------------
# running a property


def run_property(prop: str, tier: str, fn: Callable[[Collector, str], None], explanation: str,
                 assumptions: List[str], selftest: Optional[Callable[[str], Dict[str, Any]]] = None) -> int:
    t0 = time.time()
    seed = int(os.environ.get("VERIF_SEED", "0") or 0)
    ev_path = EVIDENCE_DIR / f"{prop}.json"
    col = Collector(prop)
    floor_error = None
    try:
        fn(col, tier)
    except AnalysisError as e:
        print(f"ANALYSIS-ERROR property={prop} {e}")
        return 2
    except Exception:
        print(f"ANALYSIS-ERROR property={prop} internal error in checker:")
        traceback.print_exc(file=sys.stdout)
        return 2
    try:
        if col.deferred:
            raise AnalysisError("; ".join(col.deferred))
        counts = col.check_floors()
    except AnalysisError as e:
        # a rule matched fewer instances than confirmed by hand. If other rules already report a violation the
        # verdict on the tree stands (never masked); otherwise the run is analysis-broken, not a pass.
        floor_error = str(e)
        counts = {}
        for o in col.obs:
            counts[o.rule] = counts.get(o.rule, 0) + 1

    known = [k for k in load_known() if k.prop == prop]
    known_keys = {k.key: k for k in known}
    failed = [o for o in col.obs if not o.ok]
    unlisted = [o for o in failed if o.key not in known_keys]
    listed = [o for o in failed if o.key in known_keys]

    print(f"[{prop}] tier={tier} repo={REPO} rules={len(counts)} obligations={len(col.obs)} "
          f"failed={len(failed)} (known={len(listed)})")
    for r in sorted(counts):
        print(f"  {r}: {counts[r]} instance(s)")
    for k, v in col.info.items():
        print(f"  analysed {k}: {v}")
    seen = set()
    for o in listed:
        if o.key in seen:
            continue
        seen.add(o.key)
        print(f"KNOWN-FINDING: property={prop} {known_keys[o.key].text} [{o.key}] at {o.loc}")

    # a listed finding that no rule reports any more: either the defect was repaired in the tree under analysis, or a rule lost sight of
    # it.  On the very tree the reference was taken from (same HEAD, clean) only the second reading is possible: analysis-broken.
    stale = [k for k in known if k.key not in {o.key for o in failed}]
    for k in stale:
        print(f"  note: listed known finding not reported on this tree: {k.key}")
    if stale and tier == "thorough" and _is_reference_tree():
        print(f"ANALYSIS-ERROR property={prop} known finding(s) {[k.key for k in stale]} are listed for this very tree but no rule reports them")
        return 2

    selftest_info: Dict[str, Any] = {}
    rc = 0
    if floor_error and not unlisted:
        print(f"ANALYSIS-ERROR property={prop} {floor_error}")
        return 2
    if floor_error:
        print(f"  note: {floor_error}")
    if unlisted:
        rc = 1
        vio_path = EVIDENCE_DIR / f"{prop}.violation.json"
        EVIDENCE_DIR.mkdir(parents=True, exist_ok=True)
        vio_path.write_text(json.dumps([o.__dict__ | {"key": o.key} for o in unlisted], indent=1))
        for o in unlisted:
            print(f"  FAIL {o.rule} {o.construct} [{o.detail}] at {o.loc}: {o.msg}")
        print(f"VIOLATION property={prop} replay={vio_path}")
    elif tier == "thorough" and selftest is not None:
        # self-validation of the checker never masks a verdict on the tree: only
        # consulted when the tree itself is clean.
        try:
            selftest_info = selftest(prop)
        except AnalysisError as e:
            print(f"ANALYSIS-ERROR property={prop} self-validation: {e}")
            return 2
        except Exception:
            print(f"ANALYSIS-ERROR property={prop} internal error in self-validation:")
            traceback.print_exc(file=sys.stdout)
            return 2

    distinct = len({o.key for o in col.obs})
    samples = []
    seen_rules = set()
    for o in col.obs:
        if o.rule in seen_rules:
            continue
        seen_rules.add(o.rule)
        samples.append({"rule": o.rule, "construct": o.construct, "detail": o.detail,
                        "ok": o.ok, "what": o.msg, "loc": o.loc})
    ev = {
        "property_id": prop,
        "tier": tier,
        "seed": seed,
        "level": "other",
        "coverage": {
            "explanation": explanation,
            "evaluations": len(col.obs),
            "distinct_nontrivial": distinct,
            "rule": "one evaluation = one rule instance (rule id, construct, detail) discovered in /repo's current "
                    "source; distinct = distinct instance keys; every instance refers to a real site in the tree",
            "obligations": len(col.obs),
            "discharged": len(col.obs) - len(failed),
            "known_findings_seen": sorted({o.key for o in listed}),
            "instances_per_rule": counts,
            "analysed": col.info,
            "samples": samples[:40],
            "selftest": selftest_info,
            "exhaustive": True,
        },
        "assumptions": assumptions,
        "wall_s": round(time.time() - t0, 3),
        "violations": len(unlisted),
    }
    EVIDENCE_DIR.mkdir(parents=True, exist_ok=True)
    ev_path.write_text(json.dumps(ev, indent=1, default=str))
    if os.environ.get("SA_DUMP_OBS"):   # development aid (tools/coverage_map.py): every obligation with its location
        Path(os.environ["SA_DUMP_OBS"]).mkdir(parents=True, exist_ok=True)
        (Path(os.environ["SA_DUMP_OBS"]) / f"{prop}.obs.json").write_text(json.dumps([o.__dict__ | {"key": o.key} for o in col.obs], indent=0))
    if rc == 0:
        print(f"[{prop}] OK ({len(col.obs) - len(failed)}/{len(col.obs)} obligations discharged, "
              f"{len(listed)} known finding instance(s)) wall={ev['wall_s']}s")
    return rc
