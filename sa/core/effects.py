"""Effect / ownership analysis: which functions write state that survives a
translation (module globals, class attributes, executor instance attributes,
mutable default arguments), through which local aliases and helper calls.

Abstract domain: a *root* names a surviving state cell:
    G:<module>.<name>     module-level binding
    S:<attr>              instance attribute of an `executor` (any backend)
    K:<class>.<attr>      class-level attribute
    D:<func>.<param>      mutable default argument object
Every local is mapped to the set of roots its value may be reachable from
(flow-insensitive, fixpoint).  A write is a store/mutator call whose receiver is
rooted.  Inter-procedural: per-function summaries `returns` (roots of returned
values) and `mutates` (parameter positions mutated in place), fixpoint over the
resolved call graph.
"""
from __future__ import annotations

import ast
from dataclasses import dataclass, field
from typing import Dict, List, Optional, Set, Tuple

from .common import AnalysisError
from .pyfacts import Func, Repo, call_name, f_cls, src, walk_no_nested

MUTATORS = {"append", "extend", "insert", "update", "add", "pop", "remove", "clear", "setdefault", "popitem",
            "sort", "reverse", "discard", "__setitem__", "__delitem__", "appendleft", "extendleft"}
FRESH_CALLS = {"dict", "list", "set", "tuple", "sorted", "frozenset", "copy", "deepcopy", "str", "int", "float", "bool",
               "len", "repr", "type", "isinstance", "issubclass", "hasattr", "zip", "enumerate", "range", "map", "filter",
               "any", "all", "min", "max", "sum", "join", "format", "split", "strip", "lower", "upper", "replace",
               "startswith", "endswith", "unparse", "literal_eval", "parse", "keys", "next", "reversed", "chain", "defaultdict"}
PASS_THROUGH_METHODS = {"get", "setdefault", "values", "items", "pop", "__getitem__", "copy_ref"}


@dataclass
class Write:
    root: str
    func: Func
    node: ast.AST
    how: str


@dataclass
class Summary:
    returns: Set[str] = field(default_factory=set)        # roots, or "P<i>" meaning "parameter i itself"
    mutates: Set[int] = field(default_factory=set)        # parameter indices mutated in place
    writes: List[Write] = field(default_factory=list)


class Effects:
    def __init__(self, repo: Repo):
        self.repo = repo
        self.executor = repo.find_class("executor", hint="common.executor")
        self.exec_classes = {c.qual for c in [self.executor] + repo.subclasses(self.executor)}
        self.module_state: Dict[str, Tuple[str, ast.AST]] = {}    # G root -> (kind, node)
        self.class_state: Dict[str, ast.AST] = {}                  # K root -> node
        self.default_state: Dict[str, Tuple[Func, ast.arg, ast.AST]] = {}  # D root -> (func, arg, default)
        self.instance_state: Dict[str, ast.AST] = {}               # S root -> assigning node in __init__
        self._inventory()
        self.summaries: Dict[str, Summary] = {f.qual: Summary() for f in repo.all_functions()}
        self._solve()

    # ------------------------------------------------------------------ inventory
    @staticmethod
    def _mutable_value(v: Optional[ast.AST]) -> bool:
        if v is None:
            return False
        if isinstance(v, (ast.Dict, ast.List, ast.Set, ast.ListComp, ast.DictComp, ast.SetComp)):
            return True
        if isinstance(v, ast.Call):
            n = call_name(v)
            if n in ("namedtuple", "TypeVar", "getLogger", "field", "compile", "Union", "Optional"):
                return False
            return True   # an object instance (dict(), defaultdict(), a specification object, ...)
        return False

    def _inventory(self):
        repo = self.repo
        global_rebound: Set[Tuple[str, str]] = set()
        for f in repo.all_functions():
            for n in walk_no_nested(f.node):
                if isinstance(n, ast.Global):
                    for name in n.names:
                        global_rebound.add((f.module.name, name))
        for m in repo.modules.values():
            for st in m.tree.body:
                tgts = []
                if isinstance(st, ast.Assign):
                    tgts, val = st.targets, st.value
                elif isinstance(st, ast.AnnAssign):
                    tgts, val = [st.target], st.value
                else:
                    continue
                for t in tgts:
                    if isinstance(t, ast.Name):
                        root = f"G:{m.name}.{t.id}"
                        if self._mutable_value(val):
                            self.module_state[root] = ("mutable", st)
                        elif (m.name, t.id) in global_rebound:
                            self.module_state[root] = ("rebound-global", st)
            for c in m.classes.values():
                is_dc = any("dataclass" in src(d) for d in c.node.decorator_list)
                for st in c.node.body:
                    if isinstance(st, ast.Assign):
                        for t in st.targets:
                            if isinstance(t, ast.Name) and not (t.id.startswith("__") and t.id.endswith("__")):
                                if self._mutable_value(st.value) or isinstance(st.value, ast.Call):
                                    self.class_state[f"K:{c.qual}.{t.id}"] = st
                    elif isinstance(st, ast.AnnAssign) and st.value is not None and isinstance(st.target, ast.Name):
                        if self._mutable_value(st.value) and not (is_dc and call_name(st.value) == "field" if isinstance(st.value, ast.Call) else False):
                            self.class_state[f"K:{c.qual}.{st.target.id}"] = st
        for f in repo.all_functions():
            a = f.node.args
            pos = a.posonlyargs + a.args
            defaults = [None] * (len(pos) - len(a.defaults)) + list(a.defaults)
            for p, d in list(zip(pos, defaults)) + list(zip(a.kwonlyargs, a.kw_defaults)):
                if d is not None and self._mutable_value(d):
                    self.default_state[f"D:{f.qual}.{p.arg}"] = (f, p, d)
        for k in [self.executor] + repo.subclasses(self.executor):
            init = k.methods.get("__init__")
            if init:
                for n in walk_no_nested(init.node):
                    if isinstance(n, (ast.Assign, ast.AnnAssign)):
                        for t in (n.targets if isinstance(n, ast.Assign) else [n.target]):
                            if isinstance(t, ast.Attribute) and isinstance(t.value, ast.Name) and t.value.id == "self":
                                self.instance_state.setdefault(f"S:{t.attr}", n)

    # ------------------------------------------------------------------ per function
    def _locals_of(self, f: Func) -> Set[str]:
        glob = set()
        assigned = set()
        for n in walk_no_nested(f.node):
            if isinstance(n, ast.Global):
                glob |= set(n.names)
            elif isinstance(n, ast.Name) and isinstance(n.ctx, (ast.Store, ast.Del)):
                assigned.add(n.id)
        a = f.node.args
        params = {x.arg for x in a.posonlyargs + a.args + a.kwonlyargs}
        if a.vararg:
            params.add(a.vararg.arg)
        if a.kwarg:
            params.add(a.kwarg.arg)
        return (assigned | params) - glob

    def _is_exec_self(self, f: Func) -> bool:
        c = f_cls(f)
        return c is not None and c.qual in self.exec_classes

    def roots(self, f: Func, e: Optional[ast.AST], env: Dict[str, Set[str]], local_names: Set[str]) -> Set[str]:
        if e is None:
            return set()
        m = f.module
        if isinstance(e, ast.Name):
            if e.id in env:
                return set(env[e.id])
            if e.id in local_names:
                return set()
            g = f"G:{m.name}.{e.id}"
            if g in self.module_state:
                return {g}
            tgt = m.aliases.get(e.id)
            if tgt and f"G:{tgt}" in self.module_state:
                return {f"G:{tgt}"}
            return set()
        if isinstance(e, ast.Attribute):
            dotted = self.repo.canon(m, e)
            if dotted and f"G:{dotted}" in self.module_state:
                return {f"G:{dotted}"}
            if isinstance(e.value, ast.Name) and e.value.id == "self":
                out = set()
                if self._is_exec_self(f):
                    out.add(f"S:{e.attr}")
                c = f_cls(f)
                if c is not None:
                    for k in self.repo.mro(c):
                        if f"K:{k.qual}.{e.attr}" in self.class_state:
                            out.add(f"K:{k.qual}.{e.attr}")
                return out | self.roots(f, e.value, env, local_names)
            if isinstance(e.value, ast.Name) and e.value.id in ("cls",) and f_cls(f) is not None:
                for k in self.repo.mro(f_cls(f)):
                    if f"K:{k.qual}.{e.attr}" in self.class_state:
                        return {f"K:{k.qual}.{e.attr}"}
            # ClassName.attr
            if dotted:
                mod, _, attr = dotted.rpartition(".")
                for k in self.class_state:
                    if k == f"K:{mod}.{attr}":
                        return {k}
            return self.roots(f, e.value, env, local_names)
        if isinstance(e, ast.Subscript):
            return self.roots(f, e.value, env, local_names)
        if isinstance(e, ast.Starred):
            return self.roots(f, e.value, env, local_names)
        if isinstance(e, (ast.IfExp,)):
            return self.roots(f, e.body, env, local_names) | self.roots(f, e.orelse, env, local_names)
        if isinstance(e, ast.BoolOp):
            out = set()
            for v in e.values:
                out |= self.roots(f, v, env, local_names)
            return out
        if isinstance(e, ast.NamedExpr):
            return self.roots(f, e.value, env, local_names)
        if isinstance(e, ast.Call):
            n = call_name(e)
            if isinstance(e.func, ast.Attribute) and n in PASS_THROUGH_METHODS:
                r = self.roots(f, e.func.value, env, local_names)
                if n == "setdefault" and len(e.args) > 1:
                    r |= set()
                return r
            if n in FRESH_CALLS:
                return set()
            out = set()
            for g in self.repo.resolve_call(f, e):
                s = self.summaries.get(g.qual)
                if not s:
                    continue
                for r in s.returns:
                    if r.startswith("P"):
                        idx = int(r[1:])
                        a = self._arg_at(g, e, idx)
                        if a is not None:
                            out |= self.roots(f, a, env, local_names)
                    elif r.startswith("S:"):
                        # self-relative root of the callee: only meaningful when the receiver is an executor
                        out.add(r)
                    else:
                        out.add(r)
            return out
        return set()

    @staticmethod
    def _arg_at(g: Func, call: ast.Call, idx: int) -> Optional[ast.AST]:
        """Actual argument bound to parameter index idx of g (0 = self for methods)."""
        params = [a.arg for a in g.node.args.posonlyargs + g.node.args.args]
        is_method = g.cls is not None and params[:1] in (["self"], ["cls"])
        bound_recv = isinstance(call.func, ast.Attribute) and is_method
        if bound_recv:
            if idx == 0:
                return call.func.value
            pos = idx - 1
        else:
            pos = idx
        if pos < len(call.args):
            return call.args[pos]
        if idx < len(params):
            for k in call.keywords:
                if k.arg == params[idx]:
                    return k.value
        return None

    def analyse(self, f: Func) -> Summary:
        s = Summary()
        local_names = self._locals_of(f)
        env: Dict[str, Set[str]] = {}
        params = [a.arg for a in f.node.args.posonlyargs + f.node.args.args]
        for i, p in enumerate(params):
            env[p] = {f"P{i}"}
        for d, (df, p, _) in self.default_state.items():
            if df is f:
                env.setdefault(p.arg, set()).add(d)
        if params[:1] == ["self"] and self._is_exec_self(f):
            pass
        # flow-insensitive fixpoint on local points-to
        for _ in range(4):
            changed = False
            for n in walk_no_nested(f.node):
                pairs = []
                if isinstance(n, ast.Assign):
                    for t in n.targets:
                        pairs.append((t, n.value))
                elif isinstance(n, ast.AnnAssign) and n.value is not None:
                    pairs.append((n.target, n.value))
                elif isinstance(n, ast.NamedExpr):
                    pairs.append((n.target, n.value))
                elif isinstance(n, (ast.For, ast.AsyncFor)):
                    pairs.append((n.target, n.iter))
                elif isinstance(n, ast.comprehension):
                    pairs.append((n.target, n.iter))
                elif isinstance(n, (ast.With, ast.AsyncWith)):
                    for it in n.items:
                        if it.optional_vars is not None:
                            pairs.append((it.optional_vars, it.context_expr))
                for t, v in pairs:
                    r = self.roots(f, v, env, local_names)
                    names = [t] if isinstance(t, ast.Name) else [x for x in ast.walk(t) if isinstance(x, ast.Name) and isinstance(x.ctx, ast.Store)]
                    for nm in names:
                        if isinstance(nm, ast.Name) and nm.id in local_names:
                            before = env.get(nm.id, set())
                            if not r <= before:
                                env[nm.id] = before | r
                                changed = True
            if not changed:
                break
        # lambdas / nested defs capture env: analysed separately as their own Func for defs; lambdas inline
        glob_decl = set()
        for n in walk_no_nested(f.node):
            if isinstance(n, ast.Global):
                glob_decl |= set(n.names)

        def record(rs: Set[str], node, how):
            for r in rs:
                if r.startswith("P"):
                    s.mutates.add(int(r[1:]))
                else:
                    s.writes.append(Write(r, f, node, how))

        nodes = list(walk_no_nested(f.node))
        # include lambda bodies (they run later but with this environment)
        for lam in [n for n in nodes if isinstance(n, ast.Lambda)]:
            nodes.extend(ast.walk(lam.body))
        for n in nodes:
            if isinstance(n, (ast.Assign, ast.AugAssign, ast.AnnAssign, ast.Delete)):
                tgts = n.targets if isinstance(n, (ast.Assign, ast.Delete)) else [n.target]
                for t in tgts:
                    for tt in ([t] if not isinstance(t, (ast.Tuple, ast.List)) else t.elts):
                        if isinstance(tt, ast.Subscript):
                            record(self.roots(f, tt.value, env, local_names), n, "item store")
                        elif isinstance(tt, ast.Attribute):
                            dotted = self.repo.canon(f.module, tt)
                            if dotted and f"G:{dotted}" in self.module_state:
                                record({f"G:{dotted}"}, n, "module attribute rebinding")
                            elif dotted and dotted.rpartition(".")[0] in self.repo.modules:
                                # rebinding a module attribute that is not in the inventory (new global)
                                record({f"G:{dotted}"}, n, "module attribute rebinding")
                            elif isinstance(tt.value, ast.Name) and tt.value.id == "self":
                                if self._is_exec_self(f):
                                    record({f"S:{tt.attr}"}, n, "attribute rebinding")
                                elif f.name != "__init__":
                                    record(self.roots(f, tt.value, env, local_names), n, "attribute store")
                            else:
                                record(self.roots(f, tt.value, env, local_names), n, "attribute store")
                        elif isinstance(tt, ast.Name):
                            if tt.id in glob_decl:
                                record({f"G:{f.module.name}.{tt.id}"}, n, "global rebinding")
                            elif isinstance(n, ast.AugAssign):
                                record(env.get(tt.id, set()), n, "in-place augmented assignment")
            elif isinstance(n, ast.Call):
                nm = call_name(n)
                if isinstance(n.func, ast.Attribute) and nm in MUTATORS:
                    record(self.roots(f, n.func.value, env, local_names), n, f".{nm}()")
                elif nm == "setattr" and n.args:
                    record(self.roots(f, n.args[0], env, local_names), n, "setattr")
                else:
                    for g in self.repo.resolve_call(f, n):
                        gs = self.summaries.get(g.qual)
                        if not gs:
                            continue
                        for idx in gs.mutates:
                            a = self._arg_at(g, n, idx)
                            if a is not None:
                                record(self.roots(f, a, env, local_names), n, f"passed to {g.short} which mutates it")
        for n in walk_no_nested(f.node):
            if isinstance(n, ast.Return) and n.value is not None:
                s.returns |= self.roots(f, n.value, env, local_names)
        self._env_cache[f.qual] = env
        return s

    def _solve(self):
        self._env_cache: Dict[str, Dict[str, Set[str]]] = {}
        funcs = list(self.repo.all_functions())
        for it in range(6):
            changed = False
            for f in funcs:
                new = self.analyse(f)
                old = self.summaries[f.qual]
                if new.returns != old.returns or new.mutates != old.mutates or len(new.writes) != len(old.writes):
                    changed = True
                self.summaries[f.qual] = new
            if not changed:
                break
        else:
            raise AnalysisError("effect analysis did not reach a fixpoint")

    def all_writes(self) -> List[Write]:
        out = []
        for s in self.summaries.values():
            out.extend(s.writes)
        return out


    # ------------------------------------------------------------------ transitive effects
    def trans_writes(self) -> Dict[str, Set[str]]:
        """function qual -> roots it may write directly or through resolved callees (fixpoint)."""
        if getattr(self, "_tw", None) is not None:
            return self._tw
        edges: Dict[str, Set[str]] = {}
        tw: Dict[str, Set[str]] = {}
        for f in self.repo.all_functions():
            tw[f.qual] = {w.root for w in self.summaries[f.qual].writes}
            es = set()
            for n in ast.walk(f.node):
                if isinstance(n, ast.Call):
                    for g in self.repo.resolve_call(f, n):
                        es.add(g.qual)
            edges[f.qual] = es
        changed = True
        while changed:
            changed = False
            for q, es in edges.items():
                for g in es:
                    add = tw.get(g, set()) - tw[q]
                    # S: roots of a callee are relative to its own receiver; keep them (conservative)
                    if add:
                        tw[q] |= add
                        changed = True
        self._tw = tw
        return tw

    def stmt_may_write(self, f: Func, stmt: ast.AST) -> Set[str]:
        """Roots a statement of f may write (own writes located in it + transitive writes of its callees)."""
        out = set()
        inside = set(id(n) for n in ast.walk(stmt))
        for w in self.summaries[f.qual].writes:
            if id(w.node) in inside:
                out.add(w.root)
        tw = self.trans_writes()
        for n in ast.walk(stmt):
            if isinstance(n, ast.Call):
                for g in self.repo.resolve_call(f, n):
                    out |= tw.get(g.qual, set())
        return out
