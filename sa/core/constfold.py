"""N26: module-level tables are read as the literal they evaluate to.

    _order = ('int', 'float', 'double')
    _prio = {name: i for i, name in enumerate(_order)}          ==          _prio = {'int': 0, 'float': 1, 'double': 2}

A module-level assignment whose value is built only from literals, other module-level constants of the same module, comprehensions over
them and a few pure builtins (enumerate, zip, range, len, reversed, sorted, dict, list, tuple, min, max, sum) is replaced by the literal of
its value.  The evaluator below interprets exactly that expression subset (nothing of the repository is imported or run); anything outside
it leaves the assignment as written.  Applied to the reference tree and the tree under analysis alike."""
from __future__ import annotations

import ast
from typing import Any, Dict

_PURE = {"enumerate": enumerate, "zip": zip, "range": range, "len": len, "reversed": reversed, "sorted": sorted, "dict": dict,
         "list": list, "tuple": tuple, "min": min, "max": max, "sum": sum}


class _No(Exception):
    pass


def _ev(e: ast.AST, env: Dict[str, Any]):
    if isinstance(e, ast.Constant):
        return e.value
    if isinstance(e, ast.Name):
        if e.id in env:
            return env[e.id]
        raise _No()
    if isinstance(e, ast.Tuple):
        return tuple(_ev(x, env) for x in e.elts)
    if isinstance(e, ast.List):
        return [_ev(x, env) for x in e.elts]
    if isinstance(e, ast.Dict):
        if any(k is None for k in e.keys):
            raise _No()
        return {_ev(k, env): _ev(v, env) for k, v in zip(e.keys, e.values)}
    if isinstance(e, ast.UnaryOp) and isinstance(e.op, (ast.USub, ast.UAdd)):
        v = _ev(e.operand, env)
        if not isinstance(v, (int, float)):
            raise _No()
        return -v if isinstance(e.op, ast.USub) else +v
    if isinstance(e, ast.BinOp) and isinstance(e.op, (ast.Add, ast.Sub, ast.Mult)):
        a, b = _ev(e.left, env), _ev(e.right, env)
        if isinstance(e.op, ast.Add) and type(a) is type(b) and isinstance(a, (int, float, str, tuple, list)):
            return a + b
        if isinstance(a, (int, float)) and isinstance(b, (int, float)) and not isinstance(a, bool) and not isinstance(b, bool):
            return a - b if isinstance(e.op, ast.Sub) else a * b if isinstance(e.op, ast.Mult) else a + b
        raise _No()
    if isinstance(e, ast.Subscript) and not isinstance(e.slice, ast.Slice):
        try:
            return _ev(e.value, env)[_ev(e.slice, env)]
        except (KeyError, IndexError, TypeError):
            raise _No()
    if isinstance(e, ast.Call) and isinstance(e.func, ast.Name) and e.func.id in _PURE and e.func.id not in env:
        args = [_ev(a, env) for a in e.args]
        kw = {}
        for k in e.keywords:
            if k.arg not in ("start", "reverse"):
                raise _No()
            kw[k.arg] = _ev(k.value, env)
        try:
            r = _PURE[e.func.id](*args, **kw)
        except Exception:
            raise _No()
        return list(r) if e.func.id in ("enumerate", "zip", "range", "reversed") else r
    if isinstance(e, (ast.ListComp, ast.SetComp, ast.DictComp, ast.GeneratorExp)):
        out = []

        def rec(gens, env2):
            if not gens:
                if isinstance(e, ast.DictComp):
                    out.append((_ev(e.key, env2), _ev(e.value, env2)))
                else:
                    out.append(_ev(e.elt, env2))
                return
            g = gens[0]
            if g.is_async:
                raise _No()
            for item in _ev(g.iter, env2):
                env3 = dict(env2)
                _bind(g.target, item, env3)
                if all(_truth(_ev(c, env3)) for c in g.ifs):
                    rec(gens[1:], env3)
        rec(e.generators, env)
        if isinstance(e, ast.DictComp):
            return dict(out)
        if isinstance(e, ast.SetComp):
            raise _No()
        return out
    if isinstance(e, ast.Compare) and len(e.ops) == 1 and isinstance(e.ops[0], (ast.Eq, ast.NotEq, ast.Lt, ast.LtE, ast.Gt, ast.GtE, ast.In, ast.NotIn)):
        a, b = _ev(e.left, env), _ev(e.comparators[0], env)
        try:
            return {ast.Eq: lambda: a == b, ast.NotEq: lambda: a != b, ast.Lt: lambda: a < b, ast.LtE: lambda: a <= b, ast.Gt: lambda: a > b,
                    ast.GtE: lambda: a >= b, ast.In: lambda: a in b, ast.NotIn: lambda: a not in b}[type(e.ops[0])]()
        except TypeError:
            raise _No()
    raise _No()


def _truth(v):
    return bool(v)


def _bind(t, v, env):
    if isinstance(t, ast.Name):
        env[t.id] = v
    elif isinstance(t, (ast.Tuple, ast.List)) and not any(isinstance(x, ast.Starred) for x in t.elts):
        v = list(v)
        if len(v) != len(t.elts):
            raise _No()
        for a, b in zip(t.elts, v):
            _bind(a, b, env)
    else:
        raise _No()


def _literal(v) -> ast.AST:
    if isinstance(v, (str, int, float, bool)) or v is None:
        if isinstance(v, float) and (v != v or v in (float("inf"), float("-inf"))):
            raise _No()
        if isinstance(v, (int, float)) and not isinstance(v, bool) and v < 0:
            return ast.UnaryOp(op=ast.USub(), operand=ast.Constant(value=-v))
        return ast.Constant(value=v)
    if isinstance(v, tuple):
        return ast.Tuple(elts=[_literal(x) for x in v], ctx=ast.Load())
    if isinstance(v, list):
        return ast.List(elts=[_literal(x) for x in v], ctx=ast.Load())
    if isinstance(v, dict):
        return ast.Dict(keys=[_literal(k) for k in v], values=[_literal(x) for x in v.values()])
    raise _No()


def _is_literal(e) -> bool:
    try:
        return ast.dump(_literal(_ev(e, {}))) == ast.dump(e) or all(isinstance(n, (ast.Constant, ast.Tuple, ast.List, ast.Dict, ast.Load, ast.UnaryOp, ast.USub)) for n in ast.walk(e))
    except _No:
        return False


def fold_module_constants(tree: ast.Module) -> int:
    bound: Dict[str, int] = {}
    for n in ast.walk(tree):
        if isinstance(n, ast.Name) and isinstance(n.ctx, (ast.Store, ast.Del)):
            bound[n.id] = bound.get(n.id, 0) + 1
        elif isinstance(n, (ast.FunctionDef, ast.AsyncFunctionDef, ast.ClassDef)):
            bound[n.name] = bound.get(n.name, 0) + 1
        elif isinstance(n, ast.arg):
            bound[n.arg] = bound.get(n.arg, 0) + 1
        elif isinstance(n, (ast.Import, ast.ImportFrom)):
            for a in n.names:
                nm = (a.asname or a.name).split(".")[0]
                bound[nm] = bound.get(nm, 0) + 1
    env: Dict[str, Any] = {}
    n_folded = 0
    for st in tree.body:
        if isinstance(st, ast.Assign) and len(st.targets) == 1 and isinstance(st.targets[0], ast.Name):
            name, val = st.targets[0].id, st.value
        elif isinstance(st, ast.AnnAssign) and isinstance(st.target, ast.Name) and st.value is not None:
            name, val = st.target.id, st.value
        else:
            continue
        if bound.get(name) != 1:
            continue
        try:
            v = _ev(val, env)
            lit = _literal(v)
        except _No:
            continue
        except Exception:
            continue
        env[name] = v
        if not _is_literal(val):
            st.value = ast.copy_location(lit, val)
            ast.fix_missing_locations(st)
            n_folded += 1
    # sub-expressions of module-level tables that BUILD a new constant object (list(X), X + Y, a comprehension over constants) are read as the
    # literal they build; a bare name is left alone (it denotes the shared object itself, and sharing is something rules look at)
    class Fold(ast.NodeTransformer):
        def generic_visit(self, node):
            if isinstance(node, (ast.FunctionDef, ast.AsyncFunctionDef, ast.ClassDef, ast.Lambda)):
                return node
            if isinstance(node, (ast.Call, ast.BinOp, ast.ListComp, ast.DictComp)) and not _is_literal(node):
                try:
                    lit = _literal(_ev(node, env))
                    nonlocal n_folded
                    n_folded += 1
                    return ast.copy_location(lit, node)
                except _No:
                    pass
                except Exception:
                    pass
            return super().generic_visit(node)
    if env:
        for st in tree.body:
            if isinstance(st, (ast.Assign, ast.AnnAssign, ast.Expr)) and getattr(st, "value", None) is not None:
                st.value = Fold().visit(st.value)
                ast.fix_missing_locations(st)
    return n_folded


def unroll_registrars(tree: ast.Module) -> int:
    """N27: a module-level helper `def h(*items): for x in items: <simple statements>` that is only ever called at module level with constant
    arguments is what it does: every call statement `h("a", "b")` becomes the loop body once per argument, in order, with the loop variable
    replaced by the constant (a table registered row by row reads the same however the rows are spelled).  The helper and a `del h` go."""
    import copy
    n_done = 0
    for fn in [st for st in tree.body if isinstance(st, ast.FunctionDef)]:
        a = fn.args
        if not a.vararg or a.args or a.kwonlyargs or a.kwarg or a.posonlyargs or fn.decorator_list:
            continue
        body = [s for s in fn.body if not (isinstance(s, ast.Expr) and isinstance(s.value, ast.Constant))]
        if not (len(body) == 1 and isinstance(body[0], ast.For) and not body[0].orelse and isinstance(body[0].target, ast.Name)
                and isinstance(body[0].iter, ast.Name) and body[0].iter.id == a.vararg.arg
                and all(isinstance(s, ast.Expr) and isinstance(s.value, ast.Call) for s in body[0].body)):
            continue
        loop = body[0]
        refs = [n for n in ast.walk(tree) if isinstance(n, ast.Name) and n.id == fn.name]
        calls = [st for st in tree.body if isinstance(st, ast.Expr) and isinstance(st.value, ast.Call) and isinstance(st.value.func, ast.Name)
                 and st.value.func.id == fn.name and not st.value.keywords and all(isinstance(x, ast.Constant) for x in st.value.args)]
        dels = [st for st in tree.body if isinstance(st, ast.Delete) and len(st.targets) == 1 and isinstance(st.targets[0], ast.Name) and st.targets[0].id == fn.name]
        if not calls or len(refs) != len(calls) + len(dels):
            continue
        new_body = []
        for st in tree.body:
            if st is fn or st in dels:
                continue
            if st in calls:
                for arg_ in st.value.args:
                    class Sub(ast.NodeTransformer):
                        def visit_Name(self, n):
                            if n.id == loop.target.id and isinstance(n.ctx, ast.Load):
                                return ast.copy_location(ast.Constant(value=arg_.value), n)
                            return n
                    for s in loop.body:
                        ns = Sub().visit(copy.deepcopy(s))
                        ast.copy_location(ns, st)
                        ast.fix_missing_locations(ns)
                        new_body.append(ns)
                n_done += 1
                continue
            new_body.append(st)
        tree.body = new_body
    return n_done
