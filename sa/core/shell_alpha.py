"""E-ALPHA for the runner scripts: renamed shell variables are mapped back before any rule reads a script.

The rules name the variables of the entry scripts ($compile, $run, $DIR, $input_method ...).  Renaming one of them consistently is
behaviour-preserving.  The committed reference (sa/reference_shell.json) stores, for every runner, the usage signature of each variable the
script assigns: the multiset of the lines it occurs in, with the variable itself replaced by `@` and every other script variable by `_`.
A variable that vanished and a new one whose signatures are each other's best match are the same variable under two names; the old name is
restored in the text handed to the rules.  Only ever used to undo a renaming."""
from __future__ import annotations

import hashlib
import json
import re
from collections import Counter
from pathlib import Path
from typing import Dict

from .align import pair_up

REF = Path(__file__).resolve().parents[1] / "reference_shell.json"
_ASSIGN = re.compile(r"(?m)^[ \t]*(?:export[ \t]+|local[ \t]+)?([A-Za-z_][A-Za-z0-9_]*)=")
_GETOPTS = re.compile(r"getopts[ \t]+(?:\"[^\"]*\"|'[^']*'|\S+)[ \t]+([A-Za-z_][A-Za-z0-9_]*)")
_FOR = re.compile(r"\bfor[ \t]+([A-Za-z_][A-Za-z0-9_]*)[ \t]+in\b")


def script_vars(text: str) -> set:
    return set(_ASSIGN.findall(text)) | set(_GETOPTS.findall(text)) | set(_FOR.findall(text))


def _occ(var: str) -> re.Pattern:
    v = re.escape(var)
    return re.compile(r"\$" + v + r"\b|\$\{" + v + r"\b|(?<![\w$])" + v + r"(?==)|(?<=getopts )(?:\"[^\"]*\"|'[^']*'|\S+)[ \t]+" + v + r"\b|\bfor[ \t]+" + v + r"(?=[ \t]+in\b)")


def var_sigs(text: str) -> Dict[str, Dict[str, int]]:
    vs = script_vars(text)
    out: Dict[str, Counter] = {v: Counter() for v in vs}
    lines = [l for l in text.splitlines() if l.strip() and not l.strip().startswith("#")]
    for v in vs:
        pat = _occ(v)
        for l in lines:
            if not pat.search(l):
                continue
            m = l
            for o in vs:
                if o == v:
                    continue
                m = re.sub(r"\$\{?" + re.escape(o) + r"\b\}?", "_", m)
                m = re.sub(r"(?<![\w$])" + re.escape(o) + r"(?==)", "_", m)
            m = re.sub(r"\$\{?" + re.escape(v) + r"\b\}?", "@", m)
            m = re.sub(r"(?<![\w$])" + re.escape(v) + r"(?==)", "@", m)
            m = re.sub(r"\b" + re.escape(v) + r"\b", "@", m)
            m = re.sub(r"\s+", " ", m.strip())
            out[v][hashlib.sha1(m.encode()).hexdigest()[:10]] += 1
    return {k: dict(c) for k, c in out.items() if c}


def rename(text: str, mapping: Dict[str, str]) -> str:
    for new, old in mapping.items():
        n = re.escape(new)
        text = re.sub(r"\$" + n + r"\b", "$" + old, text)
        text = re.sub(r"\$\{" + n + r"\b", "${" + old, text)
        text = re.sub(r"(?m)^([ \t]*(?:export[ \t]+|local[ \t]+)?)" + n + r"=", r"\g<1>" + old + "=", text)
        text = re.sub(r"(getopts[ \t]+(?:\"[^\"]*\"|'[^']*'|\S+)[ \t]+)" + n + r"\b", r"\g<1>" + old, text)
        text = re.sub(r"(\bfor[ \t]+)" + n + r"(?=[ \t]+in\b)", r"\g<1>" + old, text)
    return text


def runner_source(path: Path, rel: str = None) -> str:
    """the script's text with renamed variables mapped back to the names the rules were written against"""
    import os
    text = Path(path).read_text()
    if os.environ.get("SA_NO_ALPHA") or not REF.exists():
        return text
    key = rel or "/".join(Path(path).parts[-3:])
    ref = json.loads(REF.read_text()).get(key)
    if not ref:
        return text
    cur = var_sigs(text)
    missing = {k: v for k, v in ref.items() if k not in cur and not k.startswith("__")}
    extra = {k: v for k, v in cur.items() if k not in ref}
    mp = pair_up(missing, extra, floor=0.5, margin=0.15)
    # variables used in the same way (compile / run: both `x=1`, `x=0`, `if [ $x = 1 ]`) cannot be told apart by usage: what is left over is
    # paired in order of first assignment when the counts agree and every such pair is similar enough
    from .align import similarity
    rest_m = [k for k in ref.get("__order__", []) if k in missing and k not in mp.values()]
    rest_e = [k for k in first_assignment_order(text) if k in extra and k not in mp]
    if rest_m and len(rest_m) == len(rest_e) and all(similarity(extra[e], missing[m]) >= 0.5 for e, m in zip(rest_e, rest_m)):
        mp.update(dict(zip(rest_e, rest_m)))
    text = rename(text, mp) if mp else text
    return inline_new_constants(text, set(k for k in ref if not k.startswith("__")))


def inline_new_constants(text: str, known: set) -> str:
    """"introduce variable" undone: a variable the reference script does not have, assigned exactly once (at the left margin of a line of its own,
    before any use) to a literal word without expansions, is its value wherever it is read; the assignment goes."""
    cur = script_vars(text)
    for v in sorted(cur - known):
        pat = re.compile(r"(?m)^[ \t]*(?:export[ \t]+)?" + re.escape(v) + r"=(\"[^\"$`\\\n]*\"|'[^'\n]*'|[A-Za-z0-9_./:+-]+)[ \t]*$")
        all_assign = re.findall(r"(?m)^[ \t]*(?:export[ \t]+|local[ \t]+)?" + re.escape(v) + r"\+?=", text)
        m = pat.search(text)
        if m is None or len(all_assign) != 1 or re.search(r"\bfor[ \t]+" + re.escape(v) + r"\b|getopts[^\n]*\b" + re.escape(v) + r"\b|read[ \t]+[^\n]*\b" + re.escape(v) + r"\b", text):
            continue
        if "export" in m.group(0).split("=")[0]:
            continue                      # an exported variable is an interface to the programs the script starts
        val = m.group(1)
        if val[:1] in "\"'":
            val = val[1:-1]
        use = re.compile(r"\$\{" + re.escape(v) + r"\}|\$" + re.escape(v) + r"\b")
        first_use = use.search(text)
        if first_use is not None and first_use.start() < m.start():
            continue
        text = text[:m.start()] + text[m.end():]
        text = use.sub(lambda _m: val, text)
    return text


def first_assignment_order(text: str):
    seen = []
    for m in re.finditer(_ASSIGN.pattern + "|" + _GETOPTS.pattern + "|" + _FOR.pattern, text):
        v = next(g for g in m.groups() if g)
        if v not in seen:
            seen.append(v)
    return seen
