"""E-SH: a recursive-descent parser for the bash subset used by the runner.sh
templates.  Anything outside the subset raises AnalysisError naming the line
(fail closed).  Produces a command tree; a second pass annotates every simple
command with its errexit context and the guards it executes under.
"""
from __future__ import annotations

import re
from dataclasses import dataclass, field
from typing import List, Optional, Tuple

from .common import AnalysisError

RESERVED = {"if", "then", "elif", "else", "fi", "while", "until", "do", "done", "case", "esac", "for", "in", "{", "}", "!", "function"}


@dataclass
class Tok:
    kind: str       # word | op | nl
    text: str
    line: int


@dataclass
class Node:
    kind: str                    # simple | if | while | case | pipeline | andor | list | subshell | group | funcdef
    line: int = 0
    words: List[str] = field(default_factory=list)            # simple: words incl. assignments
    redirects: List[Tuple[str, str]] = field(default_factory=list)
    heredoc: Optional[str] = None
    children: List["Node"] = field(default_factory=list)      # list/pipeline/andor children
    ops: List[str] = field(default_factory=list)              # andor: operators between children; list: separators
    cond: Optional["Node"] = None                             # if/while condition (a list node)
    body: Optional["Node"] = None
    elifs: List[Tuple["Node", "Node"]] = field(default_factory=list)
    orelse: Optional["Node"] = None
    subject: str = ""                                         # case subject
    arms: List[Tuple[List[str], "Node"]] = field(default_factory=list)
    negated: bool = False
    background: bool = False
    # annotations
    ctx: str = "plain"
    guards: List[Tuple[str, bool]] = field(default_factory=list)
    substs: List["Node"] = field(default_factory=list)        # command substitutions inside the words

    @property
    def name(self) -> str:
        for w in self.words:
            if not re.match(r"^[A-Za-z_][A-Za-z0-9_]*\+?=", w):
                return w
        return ""

    @property
    def assignments(self) -> List[Tuple[str, str]]:
        out = []
        for w in self.words:
            m = re.match(r"^([A-Za-z_][A-Za-z0-9_]*)(\+?)=(.*)$", w, re.S)
            if m:
                v = m.group(3)
                if m.group(2):
                    # name+=X appends: the new value is the old one followed by X
                    v = "${" + m.group(1) + "}" + v
                # name="$a/b" and name=$a/b assign the same text (no word splitting on the right of an assignment): the quotes around a
                # whole value without blanks, quotes or command substitution are dropped
                if len(v) >= 2 and v[0] == v[-1] == '"' and not re.search(r'[\s"`]|\$\(', v[1:-1]):
                    v = v[1:-1]
                out.append((m.group(1), v))
            else:
                break
        return out

    @property
    def args(self) -> List[str]:
        seen = False
        out = []
        for w in self.words:
            if not seen and re.match(r"^[A-Za-z_][A-Za-z0-9_]*\+?=", w):
                continue
            if not seen:
                seen = True
                continue
            out.append(w)
        return out

    def text(self) -> str:
        return " ".join(self.words + [f"{o}{t}" for o, t in self.redirects])


class Lexer:
    def __init__(self, src: str):
        self.s = src
        self.i = 0
        self.line = 1
        self.toks: List[Tok] = []
        self.pending_heredocs: List[Tuple[str, bool, Tok]] = []
        self.heredoc_bodies = {}
        self.run()

    def err(self, msg):
        raise AnalysisError(f"runner.sh line {self.line}: {msg} (outside the analysed bash subset)")

    def run(self):
        s = self.s
        n = len(s)
        while self.i < n:
            c = s[self.i]
            if c == "\n":
                self.toks.append(Tok("nl", "\n", self.line))
                self.line += 1
                self.i += 1
                if self.pending_heredocs:
                    self.read_heredocs()
                continue
            if c in " \t":
                self.i += 1
                continue
            if c == "\\" and self.i + 1 < n and s[self.i + 1] == "\n":
                self.i += 2
                self.line += 1
                continue
            if c == "#" and (self.i == 0 or s[self.i - 1] in " \t\n;"):
                while self.i < n and s[self.i] != "\n":
                    self.i += 1
                continue
            two = s[self.i:self.i + 2]
            if two in ("&&", "||", ";;"):
                self.toks.append(Tok("op", two, self.line))
                self.i += 2
                continue
            if c in ";|&()":
                # '&' may be part of a redirect like >& ; handled in word reading since it follows '>'
                self.toks.append(Tok("op", c, self.line))
                self.i += 1
                continue
            self.toks.append(Tok("word", self.read_word(), self.line))
            w = self.toks[-1].text
            m = re.match(r"^(\d*)<<(-?)$", w)
            if m:
                # delimiter is the next word
                while self.i < n and s[self.i] in " \t":
                    self.i += 1
                delim = self.read_word()
                self.toks.append(Tok("word", delim, self.line))
                raw = delim.strip("'\"")
                self.pending_heredocs.append((raw, bool(m.group(2)), self.toks[-1]))

    def read_heredocs(self):
        for delim, strip_tabs, tok in self.pending_heredocs:
            lines = []
            while True:
                if self.i >= len(self.s):
                    self.err(f"unterminated here-document {delim}")
                j = self.s.find("\n", self.i)
                j = len(self.s) if j < 0 else j
                ln = self.s[self.i:j]
                self.i = j + 1
                self.line += 1
                if (ln.lstrip("\t") if strip_tabs else ln) == delim:
                    break
                lines.append(ln)
            self.heredoc_bodies[id(tok)] = "\n".join(lines)
        self.pending_heredocs = []

    def read_word(self) -> str:
        s, n = self.s, len(self.s)
        start = self.i
        while self.i < n:
            c = s[self.i]
            if c in " \t\n":
                break
            if c == "(" and re.fullmatch(r"[A-Za-z_][A-Za-z0-9_]*\+?=", s[start:self.i]):
                # array literal: name=( ... ) / name+=( ... ) is one assignment word
                depth = 0
                while self.i < n:
                    ch = s[self.i]
                    if ch == "'":
                        j = s.find("'", self.i + 1)
                        if j < 0:
                            self.err("unterminated single quote")
                        self.i = j
                    elif ch == '"':
                        j = self.i + 1
                        while j < n and s[j] != '"':
                            j += 2 if s[j] == "\\" else 1
                        self.i = j
                    elif ch == "(":
                        depth += 1
                    elif ch == ")":
                        depth -= 1
                        if depth == 0:
                            self.i += 1
                            break
                    elif ch == "\n":
                        self.line += 1
                    self.i += 1
                continue
            if c in ";|()":
                break
            if c == "&":
                # part of a redirection (>&, &>) only
                if self.i > start and s[self.i - 1] in "<>":
                    self.i += 1
                    continue
                if s[self.i:self.i + 2] == "&>" :
                    self.i += 2
                    continue
                break
            if c == "\\":
                self.i += 2
                continue
            if c == "'":
                j = s.find("'", self.i + 1)
                if j < 0:
                    self.err("unterminated single quote")
                self.line += s.count("\n", self.i, j)
                self.i = j + 1
                continue
            if c == '"':
                self.i += 1
                while self.i < n and s[self.i] != '"':
                    if s[self.i] == "\\":
                        self.i += 1
                    elif s[self.i] == "$" and s[self.i + 1:self.i + 2] == "(":
                        self.skip_paren()
                        continue
                    elif s[self.i] == "`":
                        self.skip_backtick()
                        continue
                    if s[self.i] == "\n":
                        self.line += 1
                    self.i += 1
                if self.i >= n:
                    self.err("unterminated double quote")
                self.i += 1
                continue
            if c == "$" and s[self.i + 1:self.i + 2] == "(":
                self.skip_paren()
                continue
            if c == "$" and s[self.i + 1:self.i + 2] == "{":
                j = s.find("}", self.i)
                if j < 0:
                    self.err("unterminated ${")
                self.i = j + 1
                continue
            if c == "`":
                self.skip_backtick()
                continue
            self.i += 1
        if self.i == start:
            self.err(f"unexpected character {s[self.i]!r}")
        return s[start:self.i]

    def skip_paren(self):
        # at '$(' : skip to matching ')', counting nesting, honouring quotes
        s, n = self.s, len(self.s)
        depth = 0
        self.i += 1
        while self.i < n:
            c = s[self.i]
            if c == "(":
                depth += 1
            elif c == ")":
                depth -= 1
                if depth == 0:
                    self.i += 1
                    return
            elif c == "'":
                j = s.find("'", self.i + 1)
                self.i = j
            elif c == "\\":
                self.i += 1
            elif c == "\n":
                self.line += 1
            self.i += 1
        self.err("unterminated $(")

    def skip_backtick(self):
        j = self.s.find("`", self.i + 1)
        if j < 0:
            self.err("unterminated backtick")
        self.i = j + 1


class Parser:
    def __init__(self, src: str):
        self.lx = Lexer(src)
        self.t = self.lx.toks
        self.p = 0

    def peek(self) -> Optional[Tok]:
        return self.t[self.p] if self.p < len(self.t) else None

    def eat(self) -> Tok:
        tok = self.t[self.p]
        self.p += 1
        return tok

    def err(self, msg):
        tok = self.peek()
        raise AnalysisError(f"runner.sh line {tok.line if tok else 'EOF'}: {msg} (outside the analysed bash subset)")

    def skip_nl(self):
        while self.peek() and (self.peek().kind == "nl" or (self.peek().kind == "op" and self.peek().text == ";")):
            self.eat()

    def is_word(self, text=None):
        tok = self.peek()
        return tok is not None and tok.kind == "word" and (text is None or tok.text == text)

    def parse(self) -> Node:
        n = self.parse_list(set())
        if self.peek() is not None:
            self.err(f"unexpected token {self.peek().text!r}")
        return n

    def parse_list(self, stop: set) -> Node:
        lst = Node("list", self.peek().line if self.peek() else 0)
        while True:
            self.skip_nl()
            tok = self.peek()
            if tok is None:
                break
            if tok.kind == "word" and tok.text in stop:
                break
            if tok.kind == "op" and tok.text in (";;", ")"):
                break
            ao = self.parse_andor()
            nxt = self.peek()
            if nxt and nxt.kind == "op" and nxt.text == "&":
                self.eat()
                ao.background = True
            lst.children.append(ao)
        return lst

    def parse_andor(self) -> Node:
        first = self.parse_pipeline()
        node = Node("andor", first.line, children=[first])
        while self.peek() and self.peek().kind == "op" and self.peek().text in ("&&", "||"):
            node.ops.append(self.eat().text)
            while self.peek() and self.peek().kind == "nl":
                self.eat()
            node.children.append(self.parse_pipeline())
        return node if len(node.children) > 1 else first

    def parse_pipeline(self) -> Node:
        neg = False
        if self.is_word("!"):
            self.eat()
            neg = True
        first = self.parse_command()
        node = Node("pipeline", first.line, children=[first], negated=neg)
        while self.peek() and self.peek().kind == "op" and self.peek().text == "|":
            self.eat()
            while self.peek() and self.peek().kind == "nl":
                self.eat()
            node.children.append(self.parse_command())
        if len(node.children) == 1 and not neg:
            return first
        return node

    def expect_word(self, text):
        self.skip_nl()
        if not self.is_word(text):
            self.err(f"expected {text!r}")
        return self.eat()

    def parse_command(self) -> Node:
        tok = self.peek()
        if tok is None:
            self.err("unexpected end of script")
        if tok.kind == "op" and tok.text == "(":
            self.eat()
            body = self.parse_list(set())
            if not (self.peek() and self.peek().kind == "op" and self.peek().text == ")"):
                self.err("expected )")
            self.eat()
            return Node("subshell", tok.line, body=body)
        if tok.kind != "word":
            self.err(f"unexpected token {tok.text!r}")
        # function definition: name() { ... }   /   function name { ... }
        nxt = self.t[self.p + 1] if self.p + 1 < len(self.t) else None
        nx2 = self.t[self.p + 2] if self.p + 2 < len(self.t) else None
        if tok.text not in RESERVED and re.match(r"^[A-Za-z_][A-Za-z0-9_]*$", tok.text) and nxt and nx2 \
                and nxt.kind == "op" and nxt.text == "(" and nx2.kind == "op" and nx2.text == ")":
            self.eat(); self.eat(); self.eat()
            while self.peek() and self.peek().kind == "nl":
                self.eat()
            body = self.parse_command()
            if body.kind != "group":
                self.err("function body must be a { } group")
            return Node("funcdef", tok.line, words=[tok.text], body=body.body)
        if tok.text == "function":
            self.eat()
            name = self.eat().text
            if self.peek() and self.peek().kind == "op" and self.peek().text == "(":
                self.eat(); self.eat()
            while self.peek() and self.peek().kind == "nl":
                self.eat()
            body = self.parse_command()
            if body.kind != "group":
                self.err("function body must be a { } group")
            return Node("funcdef", tok.line, words=[name], body=body.body)
        if tok.text == "if":
            self.eat()
            n = Node("if", tok.line)
            n.cond = self.parse_list({"then"})
            self.expect_word("then")
            n.body = self.parse_list({"elif", "else", "fi"})
            while self.is_word("elif"):
                self.eat()
                c = self.parse_list({"then"})
                self.expect_word("then")
                b = self.parse_list({"elif", "else", "fi"})
                n.elifs.append((c, b))
            if self.is_word("else"):
                self.eat()
                n.orelse = self.parse_list({"fi"})
            self.expect_word("fi")
            self.parse_trailing_redirects(n)
            return n
        if tok.text in ("while", "until"):
            self.eat()
            n = Node("while", tok.line, negated=(tok.text == "until"))
            n.cond = self.parse_list({"do"})
            self.expect_word("do")
            n.body = self.parse_list({"done"})
            self.expect_word("done")
            self.parse_trailing_redirects(n)
            return n
        if tok.text == "for":
            self.eat()
            n = Node("for", tok.line)
            n.words.append(self.eat().text)
            if self.is_word("in"):
                self.eat()
                while self.is_word() and not self.is_word("do"):
                    n.words.append(self.eat().text)
            self.skip_nl()
            self.expect_word("do")
            n.body = self.parse_list({"done"})
            self.expect_word("done")
            return n
        if tok.text == "case":
            self.eat()
            n = Node("case", tok.line)
            n.subject = self.eat().text
            self.skip_nl()
            self.expect_word("in")
            while True:
                self.skip_nl()
                if self.is_word("esac"):
                    self.eat()
                    break
                if self.peek() is None:
                    self.err("unterminated case")
                if self.peek().kind == "op" and self.peek().text == "(":
                    self.eat()
                pats = []
                while True:
                    if not self.is_word():
                        self.err("expected case pattern")
                    w = self.eat().text
                    pats.append(w)
                    if self.peek() and self.peek().kind == "op" and self.peek().text == "|":
                        self.eat()
                        continue
                    break
                if not (self.peek() and self.peek().kind == "op" and self.peek().text == ")"):
                    self.err("expected ) after case pattern")
                self.eat()
                body = self.parse_list({"esac"})
                if self.peek() and self.peek().kind == "op" and self.peek().text == ";;":
                    self.eat()
                n.arms.append((pats, body))
            return n
        if tok.text == "{":
            self.eat()
            body = self.parse_list({"}"})
            self.expect_word("}")
            return Node("group", tok.line, body=body)
        if tok.text in RESERVED:
            self.err(f"unexpected reserved word {tok.text!r}")
        # simple command
        n = Node("simple", tok.line)
        while self.is_word():
            w = self.eat()
            m = re.match(r"^(\d*)(>>|>&|<<-?|<&|>|<|&>)(.*)$", w.text)
            if m and not re.match(r"^[A-Za-z_][A-Za-z0-9_]*=", w.text):
                op, rest = m.group(1) + m.group(2), m.group(3)
                if rest == "":
                    if not self.is_word():
                        self.err("redirection without a target")
                    tgt_tok = self.eat()
                    rest = tgt_tok.text
                    if "<<" in op:
                        n.heredoc = self.lx.heredoc_bodies.get(id(tgt_tok))
                n.redirects.append((op, rest))
                continue
            if (w.text.endswith("()") and not re.match(r"^[A-Za-z_][A-Za-z0-9_]*\+?=\(", w.text)) or (self.peek() and self.peek().kind == "op" and self.peek().text == "(" and not n.words):
                self.err("function definitions")
            n.words.append(w.text)
        if not n.words and not n.redirects:
            self.err("empty command")
        return n

    def parse_trailing_redirects(self, n: Node):
        while self.is_word() and re.match(r"^\d*(>>|>|<)", self.peek().text):
            self.err("redirection on a compound command")


# ---------------------------------------------------------------------------


def command_substitutions(word: str) -> List[str]:
    """Source text of each $( ... ) / ` ... ` in a word ($(( )) arithmetic excluded)."""
    out = []
    i = 0
    while i < len(word):
        if word.startswith("$((", i):
            j = word.find("))", i)
            i = j + 2 if j >= 0 else len(word)
            continue
        if word.startswith("$(", i):
            depth = 0
            j = i + 1
            while j < len(word):
                if word[j] == "(":
                    depth += 1
                elif word[j] == ")":
                    depth -= 1
                    if depth == 0:
                        break
                j += 1
            out.append(word[i + 2:j])
            i = j + 1
            continue
        if word[i] == "`":
            j = word.find("`", i + 1)
            out.append(word[i + 1:j])
            i = j + 1
            continue
        if word[i] == "'":
            j = word.find("'", i + 1)
            i = (j + 1) if j >= 0 else len(word)
            continue
        i += 1
    return out


@dataclass
class Cmd:
    node: Node
    ctx: str
    guards: List[Tuple[str, bool]]
    order: int


def cond_text(lst: Node) -> str:
    parts = []
    for ch in lst.children:
        parts.append(flat_text(ch))
    return " ; ".join(parts)


def flat_text(n: Node) -> str:
    if n.kind == "simple":
        return n.text()
    if n.kind == "andor":
        out = flat_text(n.children[0])
        for op, ch in zip(n.ops, n.children[1:]):
            out += f" {op} {flat_text(ch)}"
        return out
    if n.kind == "pipeline":
        return ("! " if n.negated else "") + " | ".join(flat_text(c) for c in n.children)
    return f"<{n.kind}>"


def walk_commands(root: Node) -> List[Cmd]:
    """Every simple command with its errexit context and guards, in script order."""
    out: List[Cmd] = []
    functions = {}
    active = []

    def visit(n: Node, ctx: str, guards):
        if n.kind == "funcdef":
            functions[n.words[0]] = n.body
            return
        if n.kind == "simple" and n.name in functions and n.name not in active:
            # a call of a script-defined function: its body runs here (same errexit context and guards)
            active.append(n.name)
            import copy as _copy
            body = _copy.deepcopy(functions[n.name])
            visit(body, ctx, guards + [(f"call {n.name}", True)])
            active.pop()
            return
        if n.kind == "list":
            for ch in n.children:
                visit(ch, ctx if ctx != "plain" else ("background" if ch.background else "plain"), guards)
        elif n.kind == "andor":
            for i, ch in enumerate(n.children):
                last = i == len(n.children) - 1
                visit(ch, ctx if (last and ctx == "plain") else (ctx if ctx != "plain" else "andor-nonlast"), guards)
        elif n.kind == "pipeline":
            for i, ch in enumerate(n.children):
                last = i == len(n.children) - 1
                c = ctx
                if n.negated and c == "plain":
                    c = "negated"
                if not last and c == "plain":
                    c = "pipe-nonlast"
                visit(ch, c, guards)
        elif n.kind == "simple":
            out.append(Cmd(n, ctx, list(guards), len(out)))
            for w in n.words + [t for _, t in n.redirects]:
                for sub in command_substitutions(w):
                    try:
                        sub_root = Parser(sub).parse()
                    except AnalysisError as e:
                        raise AnalysisError(f"in command substitution at line {n.line}: {e}")
                    for c in walk_commands(sub_root):
                        c.ctx = "subst" if c.ctx == "plain" else "subst+" + c.ctx
                        c.guards = list(guards) + c.guards
                        c.order = len(out)
                        c.node.line = n.line
                        out.append(c)
        elif n.kind == "if":
            visit(n.cond, "cond", guards)
            ct = cond_text(n.cond)
            visit(n.body, ctx, guards + [(ct, True)])
            neg = [(ct, False)]
            for c2, b2 in n.elifs:
                visit(c2, "cond", guards + neg)
                ct2 = cond_text(c2)
                visit(b2, ctx, guards + neg + [(ct2, True)])
                neg = neg + [(ct2, False)]
            if n.orelse is not None:
                visit(n.orelse, ctx, guards + neg)
        elif n.kind == "while":
            visit(n.cond, "cond", guards)
            visit(n.body, ctx, guards + [(cond_text(n.cond), True)])
        elif n.kind == "for":
            visit(n.body, ctx, guards + [("for " + " ".join(n.words), True)])
        elif n.kind == "case":
            earlier = []
            for pats, body in n.arms:
                g = [(f"case {n.subject} in {'|'.join(pats)}", True)]
                # an arm with one literal pattern is the test `[ subject = pattern ]`; the arms before it did not match
                lit = len(pats) == 1 and not any(ch in pats[0] for ch in "*?[]|$`")
                if lit:
                    g.append((f"[ {n.subject} = {pats[0]} ]", True))
                visit(body, ctx, guards + earlier + g)
                if lit:
                    earlier = earlier + [(f"[ {n.subject} = {pats[0]} ]", False)]
        elif n.kind in ("subshell", "group"):
            visit(n.body, ctx, guards)
        else:
            raise AnalysisError(f"unhandled node kind {n.kind}")

    visit(root, "plain", [])
    return out


def parse_script(src: str) -> Tuple[Node, List[Cmd]]:
    root = Parser(src).parse()
    return root, walk_commands(root)
