"""E-ALPHA, second stage: renamings that come together with other edits.

The exact stage (alpha.py) undoes a renaming only when the whole function is otherwise unchanged.  A refactoring that renames a local and
also touches another statement of the same function defeats it.  Here every local name gets a *usage signature*: the multiset of the
contexts it occurs in, each context being the enclosing expression or statement header with every local name masked (so that two
simultaneous renamings do not disturb each other).  The committed reference stores those signatures for the tree the rules were written
against.  In the current tree the names that vanished from a function and the names that are new to it are paired when their signatures
are each other's best match, sufficiently similar and clearly better than the runner-up; the old name is then restored in memory.

The same usage signatures pair renamed module-level names (constants, functions whose body was edited as well) and renamed private
attributes of a class.  As with the exact stage, the reference is only ever used to undo a renaming: it raises no alarm, and a wrong
pairing can at worst make a rule look at the wrong name - which the rule then reports or refuses, exactly as it would have without it.
"""
from __future__ import annotations

import ast
import copy
import hashlib
from collections import Counter
from typing import Dict, Iterable, List, Optional, Set, Tuple

from .alpha import _scope_locals

_STMT_BODIES = ("body", "orelse", "finalbody", "handlers")


def _all_locals(fn) -> Set[str]:
    names: Set[str] = set()
    for n in ast.walk(fn):
        if isinstance(n, (ast.FunctionDef, ast.AsyncFunctionDef, ast.Lambda)):
            a = n.args
            allp = a.posonlyargs + a.args + a.kwonlyargs + ([a.vararg] if a.vararg else []) + ([a.kwarg] if a.kwarg else [])
            names |= {x.arg for x in allp if x.arg not in ("self", "cls")}
            names |= _scope_locals(n)
        elif isinstance(n, ast.comprehension):
            names |= {t.id for t in ast.walk(n.target) if isinstance(t, ast.Name)}
    return names


def _header(node: ast.AST) -> ast.AST:
    """The node without its nested statement lists (a `for` header without the loop body ...)."""
    if not isinstance(node, ast.stmt) and not isinstance(node, ast.ExceptHandler):
        return node
    c = copy.copy(node)
    for f in _STMT_BODIES:
        if hasattr(c, f) and isinstance(getattr(c, f), list):
            setattr(c, f, [])
    if isinstance(c, (ast.FunctionDef, ast.AsyncFunctionDef)):
        c.decorator_list = []
        c.returns = None
    return c


def _ctx_hash(ctx_node: ast.AST, target: ast.AST, names: Set[str], how: str) -> str:
    def dump(n) -> str:
        if n is target:
            return "@"
        if isinstance(n, ast.Name):
            return "_" if n.id in names else f"N({n.id})"
        if isinstance(n, ast.arg):
            return "_" if n.arg in names else f"a({n.arg})"
        if isinstance(n, ast.AST):
            parts = []
            for f, v in ast.iter_fields(n):
                if f in ("ctx", "type_comment", "annotation", "returns", "lineno", "col_offset", "end_lineno", "end_col_offset"):
                    continue
                if isinstance(n, (ast.FunctionDef, ast.AsyncFunctionDef)) and f == "name":
                    parts.append("name=_" if v in names else f"name={v}")
                    continue
                parts.append(f"{f}={dump(v)}")
            return f"{type(n).__name__}({','.join(parts)})"
        if isinstance(n, list):
            return "[" + ",".join(dump(x) for x in n) + "]"
        return repr(n)
    return hashlib.sha1((how + dump(_header(ctx_node))).encode()).hexdigest()[:10]


def local_sigs(fn) -> Dict[str, Dict[str, int]]:
    """name -> {context hash: count} for every local name (all nested scopes) of an outermost function."""
    names = _all_locals(fn)
    sigs: Dict[str, Counter] = {n: Counter() for n in names}
    parents: Dict[int, ast.AST] = {}
    for n in ast.walk(fn):
        for c in ast.iter_child_nodes(n):
            parents[id(c)] = n

    def context_of(n):
        """the smallest enclosing node that says something: skip pure containers; stop at a statement"""
        p = parents.get(id(n))
        hops = 0
        while p is not None and isinstance(p, (ast.Tuple, ast.List, ast.Starred, ast.keyword, ast.arguments, ast.FormattedValue, ast.JoinedStr)) \
                and hops < 3:
            p = parents.get(id(p))
            hops += 1
        return p

    for n in ast.walk(fn):
        if isinstance(n, ast.Name) and n.id in names:
            p = context_of(n)
            if p is not None:
                sigs[n.id][_ctx_hash(p, n, names, type(n.ctx).__name__)] += 1
        elif isinstance(n, ast.arg) and n.arg in names:
            sigs[n.arg]["param"] += 1
        elif isinstance(n, (ast.FunctionDef, ast.AsyncFunctionDef)) and n is not fn and n.name in names:
            sigs[n.name]["def:" + _ctx_hash(n.args, n, names, "def")] += 1
    return {k: dict(v) for k, v in sigs.items() if v}


def similarity(a: Dict[str, int], b: Dict[str, int]) -> float:
    keys = set(a) | set(b)
    lo = sum(min(a.get(k, 0), b.get(k, 0)) for k in keys)
    hi = sum(max(a.get(k, 0), b.get(k, 0)) for k in keys)
    return lo / hi if hi else 0.0


def pair_up(missing: Dict[str, Dict[str, int]], extra: Dict[str, Dict[str, int]], floor: float = 0.45, margin: float = 0.12) -> Dict[str, str]:
    """{new name: old name} for mutually-best, sufficiently similar, unambiguous pairs."""
    if not missing or not extra:
        return {}
    score = {(e, m): similarity(extra[e], missing[m]) for e in extra for m in missing}
    out: Dict[str, str] = {}
    for e in extra:
        ranked = sorted(((score[(e, m)], m) for m in missing), reverse=True)
        best, m = ranked[0]
        if best < floor:
            continue
        if len(ranked) > 1 and best - ranked[1][0] < margin:
            continue
        back = sorted(((score[(e2, m)], e2) for e2 in extra), reverse=True)
        if back[0][1] != e or (len(back) > 1 and back[0][0] - back[1][0] < margin):
            continue
        out[e] = m
    return out


def rename_locals(fn, mapping: Dict[str, str]) -> None:
    """Rename local names (all nested scopes) of an outermost function in place."""
    for n in ast.walk(fn):
        if isinstance(n, ast.Name) and n.id in mapping:
            n.id = mapping[n.id]
        elif isinstance(n, ast.arg) and n.arg in mapping:
            n.arg = mapping[n.arg]
        elif isinstance(n, (ast.FunctionDef, ast.AsyncFunctionDef)) and n is not fn and n.name in mapping:
            n.name = mapping[n.name]
        elif isinstance(n, ast.keyword) and n.arg in mapping and _is_local_call(n, fn, mapping):
            n.arg = mapping[n.arg]


def _is_local_call(kw, fn, mapping) -> bool:
    return False        # keyword arguments name the callee's parameters; a nested helper's parameters are handled by the caller if needed


def recover_local_renames(fn, ref_sigs: Dict[str, Dict[str, int]]) -> Dict[str, str]:
    cur = local_sigs(fn)
    missing = {k: v for k, v in ref_sigs.items() if k not in cur}
    extra = {k: v for k, v in cur.items() if k not in ref_sigs}
    mp = pair_up(missing, extra)
    if mp:
        rename_locals(fn, mp)
    return mp


# ---------------------------------------------------------------------------
# renamed instance attributes and module-level names (constants, helpers whose body was edited too)


def _parents(tree) -> Dict[int, ast.AST]:
    out = {}
    for n in ast.walk(tree):
        for c in ast.iter_child_nodes(n):
            out[id(c)] = n
    return out


def _attr_ctx(parent, node) -> str:
    """context of an attribute / global-name occurrence: the enclosing expression or statement header with every plain name masked"""
    def dump(n) -> str:
        if n is node:
            return "@"
        if isinstance(n, ast.Name):
            return "_"
        if isinstance(n, ast.arg):
            return "_"
        if isinstance(n, ast.Constant):
            return "K" if isinstance(n.value, str) and len(n.value) > 12 else repr(n.value)
        if isinstance(n, ast.AST):
            parts = []
            for f, v in ast.iter_fields(n):
                if f in ("ctx", "type_comment", "annotation", "returns", "lineno", "col_offset", "end_lineno", "end_col_offset", "decorator_list"):
                    continue
                parts.append(f"{f}={dump(v)}")
            return f"{type(n).__name__}({','.join(parts)})"
        if isinstance(n, list):
            return "[" + ",".join(dump(x) for x in n) + "]"
        return repr(n)
    return hashlib.sha1(dump(_header(parent)).encode()).hexdigest()[:10]


def attribute_sigs(trees: Dict[str, ast.Module]) -> Dict[str, Dict[str, int]]:
    """usage signature of every instance attribute (a name stored through `self.<name> = ...` somewhere in the package)"""
    stored: Set[str] = set()
    methods: Dict[str, List[ast.AST]] = {}
    for t in trees.values():
        for n in ast.walk(t):
            if isinstance(n, ast.Attribute) and not isinstance(n.ctx, ast.Load) and isinstance(n.value, ast.Name) and n.value.id == "self":
                stored.add(n.attr)
            elif isinstance(n, ast.ClassDef):
                for st in n.body:
                    if isinstance(st, (ast.FunctionDef, ast.AsyncFunctionDef)) and not (st.name.startswith("__") and st.name.endswith("__")) \
                            and not st.name.startswith(("visit_", "call_")):
                        methods.setdefault(st.name, []).append(st)
    stored |= set(methods)
    sigs: Dict[str, Counter] = {a: Counter() for a in stored}
    for name, defs in methods.items():
        for d in defs:
            sigs[name]["def:" + str(len(d.args.args))] += 2
    for t in trees.values():
        par = _parents(t)
        for n in ast.walk(t):
            if isinstance(n, ast.Attribute) and n.attr in stored:
                p = par.get(id(n))
                if p is not None:
                    sigs[n.attr][type(n.ctx).__name__ + _attr_ctx(p, n)] += 1
    return {k: dict(v) for k, v in sigs.items() if v}


def module_name_sigs(trees: Dict[str, ast.Module]) -> Dict[str, Dict[str, Dict[str, int]]]:
    """module -> {top-level name: usage signature}: names bound by assignment, def or class at module level; the signature counts the
    contexts of every occurrence of the name in the package plus one entry for the shape of its definition"""
    defined: Dict[str, Dict[str, ast.AST]] = {}
    for mname, t in trees.items():
        d = {}
        for st in t.body:
            if isinstance(st, ast.Assign) and len(st.targets) == 1 and isinstance(st.targets[0], ast.Name):
                d[st.targets[0].id] = st.value
            elif isinstance(st, ast.AnnAssign) and isinstance(st.target, ast.Name) and st.value is not None:
                d[st.target.id] = st.value
            elif isinstance(st, (ast.FunctionDef, ast.AsyncFunctionDef, ast.ClassDef)):
                d[st.name] = st
        defined[mname] = d
    universe = {n for d in defined.values() for n in d}
    uses: Dict[str, Counter] = {n: Counter() for n in universe}
    for t in trees.values():
        par = _parents(t)
        for n in ast.walk(t):
            if isinstance(n, ast.Name) and n.id in universe:
                p = par.get(id(n))
                if p is not None:
                    uses[n.id][type(n.ctx).__name__ + _attr_ctx(p, n)] += 1
            elif isinstance(n, ast.Attribute) and n.attr in universe and isinstance(n.ctx, ast.Load):
                p = par.get(id(n))
                if p is not None:
                    uses[n.attr]["A" + _attr_ctx(p, n)] += 1
    out: Dict[str, Dict[str, Dict[str, int]]] = {}
    for mname, d in defined.items():
        out[mname] = {}
        for name, v in d.items():
            sig = Counter(uses[name])
            if isinstance(v, (ast.FunctionDef, ast.AsyncFunctionDef, ast.ClassDef)):
                for st in v.body:
                    sig["body:" + _attr_ctx(st, None)] += 1
            else:
                sig["value:" + hashlib.sha1(ast.dump(v).encode()).hexdigest()[:10]] += 3
            out[mname][name] = dict(sig)
    return out


def recover_attribute_renames(trees: Dict[str, ast.Module], ref_sigs: Dict[str, Dict[str, int]]) -> Dict[str, str]:
    cur = attribute_sigs(trees)
    missing = {k: v for k, v in ref_sigs.items() if k not in cur}
    extra = {k: v for k, v in cur.items() if k not in ref_sigs}
    mp = pair_up(missing, extra, floor=0.5, margin=0.15)
    if mp:
        for t in trees.values():
            for n in ast.walk(t):
                if isinstance(n, ast.Attribute) and n.attr in mp:
                    n.attr = mp[n.attr]
                elif isinstance(n, ast.ClassDef):
                    for st in n.body:
                        if isinstance(st, (ast.FunctionDef, ast.AsyncFunctionDef)) and st.name in mp:
                            st.name = mp[st.name]
    return mp


def recover_module_name_renames(trees: Dict[str, ast.Module], ref_sigs: Dict[str, Dict[str, Dict[str, int]]]) -> Dict[str, str]:
    cur = module_name_sigs(trees)
    all_ref = {n for d in ref_sigs.values() for n in d}
    all_cur = {n for d in cur.values() for n in d}
    mp: Dict[str, str] = {}
    for mname, refd in ref_sigs.items():
        curd = cur.get(mname, {})
        missing = {k: v for k, v in refd.items() if k not in curd and k not in all_cur}
        extra = {k: v for k, v in curd.items() if k not in refd and k not in all_ref}
        for new, old in pair_up(missing, extra, floor=0.5, margin=0.15).items():
            if new not in mp and not new.startswith("__"):
                mp[new] = old
    if mp:
        for t in trees.values():
            for n in ast.walk(t):
                if isinstance(n, ast.Name) and n.id in mp:
                    n.id = mp[n.id]
                elif isinstance(n, ast.Attribute) and n.attr in mp:
                    n.attr = mp[n.attr]
                elif isinstance(n, (ast.FunctionDef, ast.AsyncFunctionDef, ast.ClassDef)) and n.name in mp and n in t.body:
                    n.name = mp[n.name]
                elif isinstance(n, ast.ImportFrom):
                    for a in n.names:
                        if a.name in mp:
                            a.name = mp[a.name]
                elif isinstance(n, (ast.Global, ast.Nonlocal)):
                    n.names = [mp.get(x, x) for x in n.names]
    return mp
