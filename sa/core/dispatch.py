"""N23: a lookup in a constant module-level table is the if/elif chain over its keys.

    TABLE = {k1: v1, k2: v2}                      if SEL == k1: <rest with v1>
    ...                                    ==     elif SEL == k2: <rest with v2>
    if SEL not in TABLE: raise E                  else: raise E
    a, b = TABLE[SEL]
    <rest using a, b>

Applies when TABLE is a module-level name bound once to a dict literal whose keys are names or constants, never mutated or re-bound in the
module, and the lookup `TABLE[SEL]` is the whole value of a plain (tuple-)assignment whose targets are not re-bound in the rest of the
block.  The rest of the block is copied into every arm with the targets replaced by the entry's values (a value that is a lambda applied
to plain arguments is beta-reduced).  When no membership guard precedes the lookup, the chain ends in `raise KeyError(SEL)` (what the
lookup does).  Keys that are names of types are compared with `is` (that is how a dict compares them)."""
from __future__ import annotations

import ast
import copy
from typing import Dict, List, Optional

_TYPE_NAMES = {"str", "int", "float", "bool", "bytes", "complex", "list", "tuple", "dict", "set", "type"}


def _tables(tree: ast.Module) -> Dict[str, ast.Dict]:
    bound: Dict[str, int] = {}
    cand: Dict[str, ast.Dict] = {}
    for st in tree.body:
        tg = None
        if isinstance(st, ast.Assign) and len(st.targets) == 1 and isinstance(st.targets[0], ast.Name):
            tg, val = st.targets[0].id, st.value
        elif isinstance(st, ast.AnnAssign) and isinstance(st.target, ast.Name) and st.value is not None:
            tg, val = st.target.id, st.value
        if tg is None:
            continue
        bound[tg] = bound.get(tg, 0) + 1
        if isinstance(val, ast.Dict) and val.keys and all(k is not None and isinstance(k, (ast.Name, ast.Constant)) for k in val.keys):
            cand[tg] = val
    out = {}
    for name, d in cand.items():
        if bound.get(name) != 1:
            continue
        ok = True
        for n in ast.walk(tree):
            # any store / mutation / global re-binding of the table disqualifies it
            if isinstance(n, ast.Name) and n.id == name and isinstance(n.ctx, (ast.Store, ast.Del)) and bound.get(name) == 1:
                # the one module-level binding itself is a Store too: count them
                pass
            if isinstance(n, ast.Global) and name in n.names:
                ok = False
            if isinstance(n, ast.Subscript) and isinstance(n.value, ast.Name) and n.value.id == name and isinstance(n.ctx, (ast.Store, ast.Del)):
                ok = False
            if isinstance(n, ast.Call) and isinstance(n.func, ast.Attribute) and isinstance(n.func.value, ast.Name) and n.func.value.id == name \
                    and n.func.attr in ("update", "pop", "setdefault", "clear", "popitem", "__setitem__"):
                ok = False
        stores = sum(1 for n in ast.walk(tree) if isinstance(n, ast.Name) and n.id == name and isinstance(n.ctx, (ast.Store, ast.Del)))
        if ok and stores == 1:
            out[name] = d
    return out


def _same(a: ast.AST, b: ast.AST) -> bool:
    return ast.dump(a) == ast.dump(b)


class _Subst(ast.NodeTransformer):
    def __init__(self, env):
        self.env = env

    def visit_Name(self, n):
        if isinstance(n.ctx, ast.Load) and n.id in self.env:
            return ast.copy_location(copy.deepcopy(self.env[n.id]), n)
        return n

    def visit_Call(self, n):
        self.generic_visit(n)
        f = n.func
        if isinstance(f, ast.Lambda) and not n.keywords and not f.args.vararg and not f.args.kwarg and not f.args.kwonlyargs \
                and len(n.args) == len(f.args.args) and all(isinstance(a, (ast.Name, ast.Constant, ast.Attribute)) for a in n.args):
            env = {p.arg: a for p, a in zip(f.args.args, n.args)}
            return ast.copy_location(_Subst(env).visit(copy.deepcopy(f.body)), n)
        return n


def _stores(stmts, names) -> bool:
    for st in stmts:
        for n in ast.walk(st):
            if isinstance(n, ast.Name) and n.id in names and isinstance(n.ctx, (ast.Store, ast.Del)):
                return True
    return False


def _get_form(body: List[ast.stmt], tables: Dict[str, ast.Dict]) -> Optional[List[ast.stmt]]:
    """x = T.get(SEL); if x is None: <ends>; a, b = x; rest      is rewritten to the subscript form N23 understands:
       if SEL not in T: <ends>; a, b = T[SEL]; rest              (x must not be used in rest)"""
    for i, st in enumerate(body):
        if not (isinstance(st, ast.Assign) and len(st.targets) == 1 and isinstance(st.targets[0], ast.Name) and isinstance(st.value, ast.Call)
                and isinstance(st.value.func, ast.Attribute) and st.value.func.attr == "get" and isinstance(st.value.func.value, ast.Name)
                and st.value.func.value.id in tables and 1 <= len(st.value.args) <= 2 and not st.value.keywords):
            continue
        if len(st.value.args) == 2 and not (isinstance(st.value.args[1], ast.Constant) and st.value.args[1].value is None):
            continue
        x, tname, sel = st.targets[0].id, st.value.func.value.id, st.value.args[0]
        if i + 2 >= len(body) + 0 and i + 1 >= len(body):
            continue
        guard = body[i + 1] if i + 1 < len(body) else None
        if not (isinstance(guard, ast.If) and not guard.orelse and isinstance(guard.test, ast.Compare) and len(guard.test.ops) == 1
                and isinstance(guard.test.ops[0], ast.Is) and isinstance(guard.test.left, ast.Name) and guard.test.left.id == x
                and isinstance(guard.test.comparators[0], ast.Constant) and guard.test.comparators[0].value is None
                and guard.body and isinstance(guard.body[-1], (ast.Raise, ast.Return))):
            continue
        nxt = body[i + 2] if i + 2 < len(body) else None
        if not (isinstance(nxt, ast.Assign) and len(nxt.targets) == 1 and isinstance(nxt.value, ast.Name) and nxt.value.id == x):
            continue
        rest = body[i + 3:]
        if any(isinstance(n, ast.Name) and n.id == x for s_ in rest for n in ast.walk(s_)) or any(isinstance(n, ast.Name) and n.id == x for s_ in guard.body for n in ast.walk(s_)):
            continue
        new_guard = ast.copy_location(ast.If(test=ast.Compare(left=copy.deepcopy(sel), ops=[ast.NotIn()], comparators=[ast.Name(id=tname, ctx=ast.Load())]),
                                             body=guard.body, orelse=[]), guard)
        new_assign = ast.copy_location(ast.Assign(targets=nxt.targets, value=ast.Subscript(value=ast.Name(id=tname, ctx=ast.Load()), slice=copy.deepcopy(sel), ctx=ast.Load())), nxt)
        out = body[:i] + [new_guard, new_assign] + rest
        for s_ in out:
            ast.fix_missing_locations(s_)
        return out
    return None


def _expand_block(body: List[ast.stmt], tables: Dict[str, ast.Dict]) -> Optional[List[ast.stmt]]:
    pre_form = _get_form(body, tables)
    if pre_form is not None:
        body = pre_form
    for i, st in enumerate(body):
        if not (isinstance(st, ast.Assign) and len(st.targets) == 1 and isinstance(st.value, ast.Subscript)
                and isinstance(st.value.value, ast.Name) and st.value.value.id in tables):
            continue
        table = tables[st.value.value.id]
        sel = st.value.slice
        tg = st.targets[0]
        if isinstance(tg, ast.Name):
            names = [tg.id]
        elif isinstance(tg, ast.Tuple) and all(isinstance(e, ast.Name) for e in tg.elts):
            names = [e.id for e in tg.elts]
        else:
            continue
        rest = body[i + 1:]
        if _stores(rest, set(names)):
            continue
        vals = []
        for v in table.values:
            if len(names) == 1:
                vals.append([v])
            elif isinstance(v, ast.Tuple) and len(v.elts) == len(names):
                vals.append(list(v.elts))
            else:
                vals = None
                break
        if vals is None:
            continue
        # an immediately preceding membership guard becomes the chain's final else
        pre = body[:i]
        final: List[ast.stmt] = [ast.Raise(exc=ast.Call(func=ast.Name(id="KeyError", ctx=ast.Load()), args=[copy.deepcopy(sel)], keywords=[]), cause=None)]
        if pre and isinstance(pre[-1], ast.If) and not pre[-1].orelse:
            t = pre[-1].test
            neg = None
            if isinstance(t, ast.Compare) and len(t.ops) == 1 and isinstance(t.ops[0], ast.NotIn):
                neg = t
            elif isinstance(t, ast.UnaryOp) and isinstance(t.op, ast.Not) and isinstance(t.operand, ast.Compare) and len(t.operand.ops) == 1 \
                    and isinstance(t.operand.ops[0], ast.In):
                neg = t.operand
            if neg is not None and _same(neg.left, sel) and isinstance(neg.comparators[0], ast.Name) and neg.comparators[0].id == st.value.value.id \
                    and pre[-1].body and isinstance(pre[-1].body[-1], (ast.Raise, ast.Return)):
                final = pre[-1].body
                pre = pre[:-1]
        chain: Optional[ast.If] = None
        for k, vs in reversed(list(zip(table.keys, vals))):
            op = ast.Is() if isinstance(k, ast.Name) and k.id in _TYPE_NAMES else ast.Eq()
            test = ast.Compare(left=copy.deepcopy(sel), ops=[op], comparators=[copy.deepcopy(k)])
            env = dict(zip(names, vs))
            arm = [_Subst(env).visit(copy.deepcopy(s)) for s in rest] or [ast.Pass()]
            node = ast.If(test=test, body=arm, orelse=[chain] if chain is not None else list(final))
            chain = ast.copy_location(node, st)
        if chain is None:
            continue
        ast.fix_missing_locations(chain)
        return pre + [chain]
    return pre_form


def expand_table_dispatch(tree: ast.Module) -> int:
    tables = _tables(tree)
    if not tables:
        return 0
    n = 0
    for _ in range(4):
        changed = False
        for holder in ast.walk(tree):
            for fld in ("body", "orelse", "finalbody"):
                lst = getattr(holder, fld, None)
                if not isinstance(lst, list) or not lst or not isinstance(lst[0], ast.stmt):
                    continue
                new = _expand_block(lst, tables)
                if new is not None:
                    setattr(holder, fld, new)
                    changed = True
                    n += 1
        if not changed:
            break
    if n:
        # a table that is no longer read can go
        for name in list(tables):
            if not any(isinstance(x, ast.Name) and x.id == name and isinstance(x.ctx, ast.Load) for x in ast.walk(tree)):
                tree.body = [st for st in tree.body if not (
                    (isinstance(st, ast.Assign) and len(st.targets) == 1 and isinstance(st.targets[0], ast.Name) and st.targets[0].id == name) or
                    (isinstance(st, ast.AnnAssign) and isinstance(st.target, ast.Name) and st.target.id == name))]
        ast.fix_missing_locations(tree)
    return n
