"""E-PY: parse every Python module of func_adl_xAOD (outside template/) and give
semantic access to it: modules, import aliases, classes (with repo-local MRO),
functions, canonical dotted names of expressions, a resolved call graph.

Nothing is imported or executed: `ast.parse` on source text only.
"""
from __future__ import annotations

import ast
import os
from dataclasses import dataclass, field
from pathlib import Path
from typing import Dict, Iterator, List, Optional, Set, Tuple

from .common import REPO, AnalysisError

PKG = "func_adl_xAOD"


def _number(tree: ast.AST):
    """source-order numbering of every node (after all normalisations): `_ord` on entry, `_ord_end` = last number inside the subtree.
    Rules order statements by these numbers, never by line numbers (E-INLINE moves statements without renumbering their lines)."""
    counter = [0]

    def rec(n):
        counter[0] += 1
        n._ord = counter[0]
        for c in ast.iter_child_nodes(n):
            rec(c)
        n._ord_end = counter[0]
    import sys
    lim = sys.getrecursionlimit()
    sys.setrecursionlimit(max(lim, 10000))
    try:
        rec(tree)
    finally:
        sys.setrecursionlimit(lim)


def ordk(n: ast.AST) -> int:
    return getattr(n, "_ord", getattr(n, "lineno", 0))


def ordk_end(n: ast.AST) -> int:
    return getattr(n, "_ord_end", getattr(n, "end_lineno", getattr(n, "lineno", 0)))


@dataclass
class Func:
    qual: str                 # module.Class.method / module.func / module.f.<locals>.g
    name: str
    node: ast.AST             # FunctionDef | AsyncFunctionDef | Lambda
    module: "Module"
    cls: Optional["Cls"] = None
    parent: Optional["Func"] = None

    @property
    def short(self) -> str:
        return (self.cls.name + "." if self.cls else "") + self.name

    @property
    def loc(self) -> str:
        return f"{self.module.rel}:{self.node.lineno}"


@dataclass
class Cls:
    qual: str
    name: str
    node: ast.ClassDef
    module: "Module"
    bases: List[str] = field(default_factory=list)   # canonical dotted names
    methods: Dict[str, Func] = field(default_factory=dict)


@dataclass
class Module:
    name: str                  # dotted
    path: Path
    rel: str
    src: str
    tree: ast.Module
    aliases: Dict[str, str] = field(default_factory=dict)  # local name -> dotted target
    funcs: Dict[str, Func] = field(default_factory=dict)   # top-level functions
    classes: Dict[str, Cls] = field(default_factory=dict)
    all_funcs: List[Func] = field(default_factory=list)    # incl. methods and nested


class Repo:
    def __init__(self, root: Path = REPO):
        self.root = Path(root)
        self.pkg = self.root / PKG
        if not self.pkg.is_dir():
            raise AnalysisError(f"package directory {self.pkg} not found")
        self.modules: Dict[str, Module] = {}
        for p in sorted(self.pkg.rglob("*.py")):
            rel = p.relative_to(self.root)
            if "template" in rel.parts:
                continue
            parts = list(rel.with_suffix("").parts)
            if parts[-1] == "__init__":
                parts = parts[:-1]
            name = ".".join(parts)
            src = p.read_text()
            try:
                tree = ast.parse(src, filename=str(p))
            except SyntaxError as e:
                raise AnalysisError(f"syntax error in {rel}: {e}")
            if not os.environ.get("SA_NO_NORM"):
                from .normalise import normalise
                tree = normalise(tree)
            m = Module(name, p, str(rel), src, tree)
            self.modules[name] = m
        self.renames_undone: List[str] = []
        if not os.environ.get("SA_NO_NORM"):
            from .callform import canonical_calls          # N22: one argument form for calls to the package's own callables
            canonical_calls({m.name: m.tree for m in self.modules.values()})
        if not os.environ.get("SA_NO_ALPHA"):
            from .alpha import load_reference, undo_pure_renames
            ref = load_reference()
            specials = {k: ref.pop(k) for k in [k for k in ref if k.startswith("__")]}
            if specials:
                from .align import recover_attribute_renames, recover_module_name_renames
                trees = {m.name: m.tree for m in self.modules.values()}
                from .imports_norm import undo_alias_renames
                undo_alias_renames(trees, specials.get("__imports__", {}), self.renames_undone)
                for a, b in sorted(recover_attribute_renames(trees, specials.get("__attrs__", {})).items()):
                    self.renames_undone.append(f"attribute .{a} -> .{b}")
                for a, b in sorted(recover_module_name_renames(trees, specials.get("__modnames__", {})).items()):
                    self.renames_undone.append(f"module-level name {a} -> {b}")
            self._undo_function_renames(ref)
            if ref and not os.environ.get("SA_NO_INLINE"):
                from .inline import undo_extractions, undo_constant_extractions, undo_pulled_up_methods, undo_find_first_helpers, undo_cross_module_expression_helpers, undo_lifted_closures
                from .normalise import normalise as _norm
                before = len(self.renames_undone)
                undo_constant_extractions({m.name: m.tree for m in self.modules.values()}, specials.get("__modnames__", {}), self.renames_undone)
                undo_lifted_closures({m.name: m.tree for m in self.modules.values()}, set(ref), self.renames_undone)     # before helpers are inlined
                undo_extractions({m.name: m.tree for m in self.modules.values()}, set(ref), self.renames_undone)
                undo_pulled_up_methods({m.name: m.tree for m in self.modules.values()}, set(ref), self.renames_undone)
                undo_find_first_helpers({m.name: m.tree for m in self.modules.values()}, set(ref), self.renames_undone)
                undo_cross_module_expression_helpers({m.name: m.tree for m in self.modules.values()}, set(ref), self.renames_undone)
                if len(self.renames_undone) > before:
                    for m in self.modules.values():      # an inlined body may complete a guard-clause / return-temporary pattern
                        m.tree = _norm(m.tree)
            self._renorm = False
            for m in self.modules.values():
                self._undo_renames(m, ref, undo_pure_renames)
            if self._renorm:
                from .normalise import normalise as _norm3
                for m in self.modules.values():
                    m.tree = _norm3(m.tree)
        for m in self.modules.values():
            _number(m.tree)
        for m in self.modules.values():
            self._index(m)
        # bases written as bare names of classes of the same module -> qualified
        for m in self.modules.values():
            for c in m.classes.values():
                c.bases = [m.classes[b].qual if b in m.classes else b for b in c.bases]
        self.n_calls = 0
        self.n_resolved = 0

    def _undo_function_renames(self, ref):
        """E-ALPHA for function names: a module-level function or a method that is missing from the tree under its reference name, while an
        unknown function with the same alpha-normal body sits in the same module/class, has been renamed.  The old name is restored on the
        definition and on every reference in the package (names, attributes, from-imports).  Only ever used to undo a renaming."""
        from .alpha import describe
        for _round in range(6):          # a renamed helper that calls another renamed helper matches only once the callee's name is restored
            cur = {}
            for m in self.modules.values():
                def rec(body, prefix):
                    for st in body:
                        if isinstance(st, (ast.FunctionDef, ast.AsyncFunctionDef)):
                            cur[f"{prefix}.{st.name}"] = st
                        elif isinstance(st, ast.ClassDef):
                            rec(st.body, f"{prefix}.{st.name}")
                        elif isinstance(st, (ast.If, ast.Try, ast.With)):
                            for fld in ("body", "orelse", "finalbody"):
                                rec(getattr(st, fld, []) or [], prefix)
                rec(m.tree.body, m.name)
            missing = [q for q in ref if q not in cur]
            extra = [q for q in cur if q not in ref]
            if not missing or not extra:
                return
            known = {q.rpartition(".")[2] for q in ref}
            renames = {}
            for q in extra:
                scope, _, newname = q.rpartition(".")
                if newname.startswith("__") or newname in known:
                    continue
                try:
                    h, _ = describe(cur[q])
                except Exception:
                    continue
                cands = [mq for mq in missing if mq.rpartition(".")[0] == scope and ref[mq]["hash"] == h]
                if len(cands) == 1 and newname not in renames:
                    renames[newname] = cands[0].rpartition(".")[2]
                    cur[q].name = renames[newname]
                    self.renames_undone.append(f"{q} -> {cands[0]}")
            if not renames:
                return
            for m in self.modules.values():
                for n in ast.walk(m.tree):
                    if isinstance(n, ast.Name) and n.id in renames:
                        n.id = renames[n.id]
                    elif isinstance(n, ast.Attribute) and n.attr in renames:
                        n.attr = renames[n.attr]
                    elif isinstance(n, ast.ImportFrom):
                        for a in n.names:
                            if a.name in renames:
                                a.name = renames[a.name]

    def _undo_renames(self, m: Module, ref, undo):
        def rec(body, prefix):
            for st in body:
                if isinstance(st, (ast.FunctionDef, ast.AsyncFunctionDef)):
                    q = f"{prefix}.{st.name}"
                    if undo(q, st, ref):
                        self.renames_undone.append(q)
                    elif q in ref and "sigs" in ref[q]:
                        from .align import recover_local_renames
                        mp = recover_local_renames(st, ref[q]["sigs"])
                        if mp:
                            self.renames_undone.append(f"{q} (with other edits): " + ", ".join(f"{a}->{b}" for a, b in sorted(mp.items())))
                        if not os.environ.get("SA_NO_INLINE"):
                            from .inline import undo_new_locals
                            from .normalise import normalise as _norm2
                            n0 = len(self.renames_undone)
                            undo_new_locals(st, ref[q]["locals"], self.renames_undone, q)
                            if len(self.renames_undone) > n0:
                                self._renorm = True
                elif isinstance(st, ast.ClassDef):
                    rec(st.body, f"{prefix}.{st.name}")
                elif isinstance(st, (ast.If, ast.Try, ast.With, ast.For, ast.While)):
                    for fld in ("body", "orelse", "finalbody"):
                        rec(getattr(st, fld, []) or [], prefix)
        rec(m.tree.body, m.name)

    # ------------------------------------------------------------------ indexing
    def _index(self, m: Module):
        is_pkg = m.path.name == "__init__.py"
        for node in ast.walk(m.tree):
            if isinstance(node, ast.Import):
                for a in node.names:
                    if a.asname:
                        m.aliases[a.asname] = a.name
                    else:
                        m.aliases[a.name.split(".")[0]] = a.name.split(".")[0]
            elif isinstance(node, ast.ImportFrom):
                base = node.module or ""
                if node.level:
                    pkg_parts = m.name.split(".")
                    if not is_pkg:
                        pkg_parts = pkg_parts[:-1]
                    if node.level > 1:
                        pkg_parts = pkg_parts[: -(node.level - 1)]
                    base = ".".join(pkg_parts + ([base] if base else []))
                for a in node.names:
                    m.aliases[a.asname or a.name] = f"{base}.{a.name}"

        def visit(body, prefix: str, cls: Optional[Cls], parent: Optional[Func]):
            for st in body:
                if isinstance(st, (ast.FunctionDef, ast.AsyncFunctionDef)):
                    f = Func(f"{prefix}.{st.name}", st.name, st, m, cls if parent is None else None, parent)
                    m.all_funcs.append(f)
                    if cls is not None and parent is None:
                        cls.methods[st.name] = f
                    elif parent is None:
                        m.funcs[st.name] = f
                    visit(st.body, f"{prefix}.{st.name}.<locals>", None, f)
                elif isinstance(st, ast.ClassDef):
                    c = Cls(f"{prefix}.{st.name}", st.name, st, m)
                    c.bases = [self.canon(m, b) for b in st.bases]
                    if parent is None and cls is None:
                        m.classes[st.name] = c
                    visit(st.body, f"{prefix}.{st.name}", c, None)
                elif isinstance(st, (ast.If, ast.Try, ast.With, ast.For, ast.While)):
                    for fld in ("body", "orelse", "finalbody"):
                        visit(getattr(st, fld, []) or [], prefix, cls, parent)
                    for h in getattr(st, "handlers", []) or []:
                        visit(h.body, prefix, cls, parent)

        visit(m.tree.body, m.name, None, None)

    # ------------------------------------------------------------------ names
    def canon(self, m: Module, e: ast.AST) -> str:
        """Dotted name of an expression with import aliases expanded ('' if not a name chain)."""
        parts: List[str] = []
        while isinstance(e, ast.Attribute):
            parts.append(e.attr)
            e = e.value
        if isinstance(e, ast.Name):
            head = m.aliases.get(e.id, e.id)
            parts.append(head)
            return ".".join(reversed(parts))
        if isinstance(e, ast.Call):
            inner = self.canon(m, e.func)
            if inner:
                parts.append(inner + "()")
                return ".".join(reversed(parts))
        return ""

    # ------------------------------------------------------------------ lookup
    def mod(self, suffix: str) -> Module:
        """Module by dotted suffix relative to the package, e.g. 'common.executor'."""
        full = f"{PKG}.{suffix}" if not suffix.startswith(PKG) else suffix
        if full in self.modules:
            return self.modules[full]
        raise AnalysisError(f"anchor module {full} not found in the tree")

    def find_class(self, name: str, hint: Optional[str] = None) -> Cls:
        found = [c for m in self.modules.values() for c in m.classes.values() if c.name == name]
        if hint:
            pref = [c for c in found if c.module.name.endswith(hint)]
            if pref:
                found = pref
        if len(found) == 1:
            return found[0]
        if not found:
            raise AnalysisError(f"anchor class {name} not found in the tree")
        raise AnalysisError(f"anchor class {name} is ambiguous: {[c.qual for c in found]}")

    def classes_named(self, name: str) -> List[Cls]:
        return [c for m in self.modules.values() for c in m.classes.values() if c.name == name]

    def mro(self, c: Cls) -> List[Cls]:
        out, seen = [], set()

        def rec(k: Cls):
            if k.qual in seen:
                return
            seen.add(k.qual)
            out.append(k)
            for b in k.bases:
                bc = self._class_by_canon(b)
                if bc is not None:
                    rec(bc)

        rec(c)
        return out

    def _class_by_canon(self, dotted: str) -> Optional[Cls]:
        if "." in dotted:
            mod, _, nm = dotted.rpartition(".")
            m = self.modules.get(mod)
            if m and nm in m.classes:
                return m.classes[nm]
            # `from x import Cls` gives x.Cls, handled above; aliases of modules too
        for m in self.modules.values():
            for c in m.classes.values():
                if c.qual == dotted:
                    return c
        return None

    def subclasses(self, c: Cls) -> List[Cls]:
        out = []
        for m in self.modules.values():
            for k in m.classes.values():
                if k is not c and c in self.mro(k):
                    out.append(k)
        return out

    def method(self, cls_name: str, meth: str, hint: Optional[str] = None) -> Func:
        c = self.find_class(cls_name, hint)
        for k in self.mro(c):
            if meth in k.methods:
                return k.methods[meth]
        raise AnalysisError(f"anchor method {cls_name}.{meth} not found in the tree")

    def has_method(self, cls_name: str, meth: str, hint: Optional[str] = None) -> bool:
        try:
            self.method(cls_name, meth, hint)
            return True
        except AnalysisError:
            return False

    def function(self, name: str, hint: Optional[str] = None) -> Func:
        found = [f for m in self.modules.values() for f in m.funcs.values() if f.name == name]
        if hint:
            pref = [f for f in found if f.module.name.endswith(hint)]
            if pref:
                found = pref
        if len(found) == 1:
            return found[0]
        if not found:
            raise AnalysisError(f"anchor function {name} not found in the tree")
        raise AnalysisError(f"anchor function {name} is ambiguous: {[f.qual for f in found]}")

    def functions_named(self, name: str) -> List[Func]:
        return [f for m in self.modules.values() for f in m.all_funcs if f.name == name]

    def all_functions(self) -> Iterator[Func]:
        for m in self.modules.values():
            yield from m.all_funcs

    def enclosing_func(self, m: Module, node: ast.AST) -> Optional[Func]:
        """innermost function whose subtree holds the node (structural: statements moved by E-INLINE keep their old line numbers)"""
        k = getattr(node, "_ord", None)
        best = None
        for f in m.all_funcs:
            lo, hi = getattr(f.node, "_ord", None), getattr(f.node, "_ord_end", None)
            if k is not None and lo is not None:
                inside = lo <= k <= hi
            else:
                inside = f.node.lineno <= node.lineno <= (f.node.end_lineno or f.node.lineno)
            if inside and (best is None or getattr(f.node, "_ord", f.node.lineno) >= getattr(best.node, "_ord", best.node.lineno)):
                best = f
        return best

    # ------------------------------------------------------------------ attribute types
    def attr_types(self, c: Cls) -> Dict[str, str]:
        """self.<attr> = <ClassName>(...) assignments in __init__ of the class MRO."""
        out: Dict[str, str] = {}
        for k in reversed(self.mro(c)):
            init = k.methods.get("__init__")
            if not init:
                continue
            for n in ast.walk(init.node):
                if isinstance(n, ast.Assign) and isinstance(n.value, ast.Call):
                    for t in n.targets:
                        if isinstance(t, ast.Attribute) and isinstance(t.value, ast.Name) and t.value.id == "self":
                            out[t.attr] = self.canon(k.module, n.value.func)
        return out

    # ------------------------------------------------------------------ call resolution
    def resolve_call(self, f: Func, call: ast.Call) -> List[Func]:
        """Repo functions a call may reach (empty if external / unknown)."""
        self.n_calls += 1
        m = f.module
        fn = call.func
        res: List[Func] = []
        if isinstance(fn, ast.Name):
            # nested local def, module level def, imported repo function, class ctor
            p: Optional[Func] = f
            while p is not None:
                for g in m.all_funcs:
                    if g.parent is p and g.name == fn.id:
                        res.append(g)
                p = p.parent
            if not res and fn.id in m.funcs:
                res.append(m.funcs[fn.id])
            if not res and fn.id in m.classes:
                res += self._ctor(m.classes[fn.id])
            if not res and fn.id in m.aliases:
                res += self._by_dotted(m.aliases[fn.id])
        elif isinstance(fn, ast.Attribute):
            dotted = self.canon(m, fn)
            if dotted:
                res += self._by_dotted(dotted)
            if not res and isinstance(fn.value, ast.Name) and fn.value.id in ("self", "cls") and f_cls(f) is not None:
                c = f_cls(f)
                for k in self.mro(c):
                    if fn.attr in k.methods:
                        res.append(k.methods[fn.attr])
                        break
                # abstract / overridden in subclasses
                for k in self.subclasses(c):
                    if fn.attr in k.methods and k.methods[fn.attr] not in res:
                        res.append(k.methods[fn.attr])
            if not res and isinstance(fn.value, ast.Call) and self.canon(m, fn.value.func) == "super" and f_cls(f):
                for k in self.mro(f_cls(f))[1:]:
                    if fn.attr in k.methods:
                        res.append(k.methods[fn.attr])
                        break
            if not res and isinstance(fn.value, ast.Attribute) and isinstance(fn.value.value, ast.Name) \
                    and fn.value.value.id == "self" and f_cls(f) is not None:
                at = self.attr_types(f_cls(f)).get(fn.value.attr)
                if at:
                    c2 = self._class_by_canon(at)
                    if c2:
                        for k in self.mro(c2):
                            if fn.attr in k.methods:
                                res.append(k.methods[fn.attr])
                                break
            if not res:
                # by repo-unique method name (reported as by-name resolution)
                cands = [g for g in self.all_functions() if g.name == fn.attr and g.cls is not None]
                owners = {g.cls.qual for g in cands}
                if cands and len(owners) <= 4 and not fn.attr.startswith("__"):
                    res += cands
        if res:
            self.n_resolved += 1
        return res

    def _ctor(self, c: Cls) -> List[Func]:
        for k in self.mro(c):
            if "__init__" in k.methods:
                return [k.methods["__init__"]]
        return []

    def _by_dotted(self, dotted: str) -> List[Func]:
        mod, _, nm = dotted.rpartition(".")
        m = self.modules.get(mod)
        if m:
            if nm in m.funcs:
                return [m.funcs[nm]]
            if nm in m.classes:
                return self._ctor(m.classes[nm])
            if nm in m.aliases:
                return self._by_dotted(m.aliases[nm])
        # Class.method
        mod2, _, cn = mod.rpartition(".")
        m2 = self.modules.get(mod2)
        if m2 and cn in m2.classes:
            for k in self.mro(m2.classes[cn]):
                if nm in k.methods:
                    return [k.methods[nm]]
        return []


def f_cls(f: Func) -> Optional[Cls]:
    p = f
    while p is not None:
        if p.cls is not None:
            return p.cls
        p = p.parent
    return None


# ---------------------------------------------------------------------- small AST helpers


def calls_in(node: ast.AST) -> List[ast.Call]:
    return [n for n in ast.walk(node) if isinstance(n, ast.Call)]


def call_name(call: ast.Call) -> str:
    """Last component of the callee ('' if not a name/attribute)."""
    fn = call.func
    if isinstance(fn, ast.Attribute):
        return fn.attr
    if isinstance(fn, ast.Name):
        return fn.id
    return ""


def recv_src(call: ast.Call) -> str:
    fn = call.func
    if isinstance(fn, ast.Attribute):
        return ast.unparse(fn.value)
    return ""


def src(n: Optional[ast.AST]) -> str:
    return "" if n is None else ast.unparse(n)


def kwarg(call: ast.Call, name: str) -> Optional[ast.AST]:
    for k in call.keywords:
        if k.arg == name:
            return k.value
    return None


def arg(call: ast.Call, pos: int, name: Optional[str] = None) -> Optional[ast.AST]:
    if pos < len(call.args):
        return call.args[pos]
    if name:
        return kwarg(call, name)
    return None


def const_str(n: Optional[ast.AST]) -> Optional[str]:
    if isinstance(n, ast.Constant) and isinstance(n.value, str):
        return n.value
    return None


def walk_no_nested(node: ast.AST) -> Iterator[ast.AST]:
    """ast.walk that does not descend into nested function/class/lambda bodies."""
    todo = [node]
    first = True
    while todo:
        n = todo.pop()
        if not first and isinstance(n, (ast.FunctionDef, ast.AsyncFunctionDef, ast.ClassDef, ast.Lambda)):
            continue
        first = False
        yield n
        todo.extend(reversed(list(ast.iter_child_nodes(n))))
