"""E-J2: facts about the jinja2 templates, from jinja2's *parser* only (nothing is
rendered) plus a brace/paren matcher over the surrounding C++/CMake/Python text
with the jinja tags blanked, which names the region each slot sits in.
"""
from __future__ import annotations

import ast as pyast
import re
from dataclasses import dataclass, field
from pathlib import Path
from typing import Dict, List, Optional, Set, Tuple

import jinja2
from jinja2 import meta, nodes

from .common import REPO, AnalysisError

TEMPLATE_ROOT = "func_adl_xAOD/template"


@dataclass
class Slot:
    template: str          # relative path of the template file
    var: str               # iterated variable
    target: str            # loop variable
    lineno: int
    offset: int            # char offset of the {% for %} tag
    end_offset: int        # char offset just after {% endfor %}
    body_outputs: List[str] = field(default_factory=list)   # source of each {{ ... }} in the loop body
    body_text: str = ""    # literal template text of the body with outputs shown as {{x}}
    loop_filters: List[str] = field(default_factory=list)   # filters applied to the iterated expr
    out_filters: List[str] = field(default_factory=list)    # filters applied inside outputs
    bare: bool = True      # every output is the bare loop variable
    has_test_or_else: bool = False
    region: str = ""


@dataclass
class Template:
    rel: str
    src: str
    has_jinja: bool
    undeclared: Set[str]
    slots: List[Slot]
    outputs_outside_loops: List[str]


_TAG = re.compile(r"\{%.*?%\}|\{\{.*?\}\}|\{#.*?#\}", re.S)


def blank_tags(src: str) -> str:
    return _TAG.sub(lambda m: re.sub(r"[^\n]", " ", m.group(0)), src)


def _expr_src(n) -> str:
    if isinstance(n, nodes.Name):
        return n.name
    if isinstance(n, nodes.Filter):
        return f"{_expr_src(n.node)}|{n.name}"
    if isinstance(n, nodes.Getattr):
        return f"{_expr_src(n.node)}.{n.attr}"
    if isinstance(n, nodes.Const):
        return repr(n.value)
    return type(n).__name__


def _filters(n) -> List[str]:
    out = []
    for f in n.find_all(nodes.Filter) if hasattr(n, "find_all") else []:
        out.append(f.name)
    if isinstance(n, nodes.Filter):
        out.append(n.name)
    return sorted(set(out))


def load_template(path: Path, root: Path = REPO) -> Template:
    src = path.read_text()
    rel = str(path.relative_to(root))
    env = jinja2.Environment()
    try:
        tree = env.parse(src)
    except jinja2.TemplateSyntaxError as e:
        raise AnalysisError(f"template {rel} does not parse: {e}")
    # filters/tests registered by the executor at run time are unknown here: declare them so that the tree compiles
    for f in tree.find_all(nodes.Filter):
        env.filters.setdefault(f.name, lambda x, *a, **k: x)
    for t in tree.find_all(nodes.Test):
        env.tests.setdefault(t.name, lambda x, *a, **k: True)
    try:
        und = set(meta.find_undeclared_variables(tree))
    except jinja2.TemplateError as e:
        raise AnalysisError(f"template {rel} cannot be analysed: {e}")
    has = bool(_TAG.search(src))
    # offsets of for tags, in order
    for_tags = [m for m in re.finditer(r"\{%-?\s*for\s+(\w+)\s+in\s+(.*?)\s*-?%\}", src, re.S)]
    end_tags = [m for m in re.finditer(r"\{%-?\s*endfor\s*-?%\}", src)]
    fors = list(tree.find_all(nodes.For))
    if len(fors) != len(for_tags) or len(end_tags) != len(for_tags):
        raise AnalysisError(f"template {rel}: {len(fors)} For nodes but {len(for_tags)} for-tags / {len(end_tags)} endfor-tags "
                            "(nested or unusual loop syntax is outside the analysed subset)")
    slots = []
    for node, tag, end in zip(fors, for_tags, end_tags):
        if not isinstance(node.iter, (nodes.Name, nodes.Filter)) or not isinstance(node.target, nodes.Name):
            raise AnalysisError(f"template {rel}:{node.lineno}: loop form outside the analysed subset")
        it = node.iter
        lf = []
        while isinstance(it, nodes.Filter):
            lf.append(it.name)
            it = it.node
        if not isinstance(it, nodes.Name):
            raise AnalysisError(f"template {rel}:{node.lineno}: loop iterates a non-name expression")
        s = Slot(rel, it.name, node.target.name, node.lineno, tag.start(), end.end(), loop_filters=lf)
        s.has_test_or_else = bool(node.test) or bool(node.else_)
        text = []
        for out in node.body:
            if isinstance(out, nodes.Output):
                for piece in out.nodes:
                    if isinstance(piece, nodes.TemplateData):
                        text.append(piece.data)
                    else:
                        e = _expr_src(piece)
                        s.body_outputs.append(e)
                        s.out_filters += _filters(piece)
                        text.append("{{" + e + "}}")
                        if not (isinstance(piece, nodes.Name) and piece.name == s.target):
                            s.bare = False
            else:
                s.bare = False
                text.append(f"<{type(out).__name__}>")
        s.body_text = "".join(text)
        slots.append(s)
    loops_spans = [(s.offset, s.end_offset) for s in slots]
    outside = []
    for m in re.finditer(r"\{\{(.*?)\}\}", src, re.S):
        if not any(a <= m.start() < b for a, b in loops_spans):
            outside.append(m.group(1).strip())
    return Template(rel, src, has, und, slots, outside)


def load_all(root: Path = REPO) -> Dict[str, Template]:
    base = root / TEMPLATE_ROOT
    if not base.is_dir():
        raise AnalysisError("template directory not found")
    out = {}
    for p in sorted(base.rglob("*")):
        if p.is_file() and p.suffix not in (".md",):
            out[str(p.relative_to(root))] = load_template(p, root)
    return out


# ---------------------------------------------------------------------------
# C++ region of an offset


def _strip_cpp(text: str) -> str:
    """Blank comments, string and char literals and preprocessor lines (same length)."""
    out = list(text)
    i, n = 0, len(text)
    bol = True
    while i < n:
        c = text[i]
        if bol and c == "#":
            j = text.find("\n", i)
            j = n if j < 0 else j
            for k in range(i, j):
                out[k] = " "
            i = j
            continue
        if c == "\n":
            bol = True
            i += 1
            continue
        if not c.isspace():
            bol = False
        if text.startswith("//", i):
            j = text.find("\n", i)
            j = n if j < 0 else j
            for k in range(i, j):
                out[k] = " "
            i = j
            continue
        if text.startswith("/*", i):
            j = text.find("*/", i + 2)
            j = n if j < 0 else j + 2
            for k in range(i, j):
                if out[k] != "\n":
                    out[k] = " "
            i = j
            continue
        if c in "\"'":
            j = i + 1
            while j < n and text[j] != c:
                if text[j] == "\\":
                    j += 1
                j += 1
            for k in range(i + 1, min(j, n)):
                out[k] = " "
            i = j + 1
            continue
        i += 1
    return "".join(out)


def cpp_context(src: str, offset: int) -> Tuple[List[str], str]:
    """(stack of block headers enclosing `offset`, pending statement text before offset at that level)."""
    code = _strip_cpp(blank_tags(src))
    stack: List[str] = []
    pending_start = 0
    starts: List[int] = []
    i = 0
    while i < offset:
        c = code[i]
        if c == "{":
            stack.append(" ".join(code[pending_start:i].split()))
            starts.append(pending_start)
            pending_start = i + 1
        elif c == "}":
            if stack:
                stack.pop()
                starts.pop()
            pending_start = i + 1
        elif c == ";":
            pending_start = i + 1
        i += 1
    return stack, " ".join(code[pending_start:offset].split())


def only_preprocessor_before(src: str, offset: int) -> bool:
    code = _strip_cpp(blank_tags(src))
    return code[:offset].strip() == ""


def cpp_region(src: str, offset: int) -> str:
    """Name the C++ region of a slot: include-area, class-body:<name>:<access>, ctor-init:<class>,
    body:<class>::<function>, toplevel, other:<header>."""
    stack, pending = cpp_context(src, offset)
    if not stack:
        m = re.match(r"^(\w+)\s*::\s*(\w+)\s*\(.*\)\s*:(?!:)", pending, re.S)
        if m and m.group(1) == m.group(2):
            return f"ctor-init:{m.group(1)}"
        if only_preprocessor_before(src, offset):
            return "include-area"
        if pending == "":
            return "toplevel"
        return f"toplevel-pending:{pending[:40]}"
    hdr = stack[0]
    if len(stack) == 1:
        m = re.match(r"^class\s+(\w+)", hdr)
        if m:
            # last access specifier before offset inside the class
            code = _strip_cpp(blank_tags(src))
            acc = re.findall(r"\b(public|private|protected)\s*:", code[:offset])
            return f"class-body:{m.group(1)}:{acc[-1] if acc else 'private'}"
        m = re.search(r"(\w+)\s*::\s*(~?\w+)\s*\(", hdr)
        if m:
            return f"body:{m.group(1)}::{m.group(2)}"
    return "nested:" + " > ".join(h[:40] for h in stack)


def statement_after_in_body(src: str, offset: int, word: str) -> bool:
    """True if, in the function body enclosing `offset`, the keyword `word` occurs after offset at the same depth."""
    code = _strip_cpp(blank_tags(src))
    depth = 0
    i = offset
    while i < len(code):
        c = code[i]
        if c == "{":
            depth += 1
        elif c == "}":
            if depth == 0:
                return False
            depth -= 1
        elif depth == 0 and code.startswith(word, i) and not (code[i - 1].isalnum() or code[i - 1] == "_"):
            return True
        i += 1
    return False


def statement_before_in_body(src: str, offset: int, word: str) -> bool:
    """True if `word` occurs, at the slot's own depth, between the opening brace of the enclosing body and offset."""
    code = _strip_cpp(blank_tags(src))
    depth = 0
    i = offset - 1
    while i >= 0:
        c = code[i]
        if c == "}":
            depth += 1
        elif c == "{":
            if depth == 0:
                return False
            depth -= 1
        elif depth == 0 and code.startswith(word, i) and (i == 0 or not (code[i - 1].isalnum() or code[i - 1] == "_")):
            return True
        i -= 1
    return False


# ---------------------------------------------------------------------------
# CMake and python job-options regions


def cmake_region(src: str, offset: int) -> str:
    """'<command>:<last keyword before offset>' of the enclosing cmake command call."""
    code = re.sub(r"#[^\n]*", lambda m: " " * len(m.group(0)), blank_tags(src))
    depth = 0
    i = offset - 1
    while i >= 0:
        if code[i] == ")":
            depth += 1
        elif code[i] == "(":
            if depth == 0:
                m = re.search(r"(\w+)\s*$", code[:i])
                inside = code[i + 1:offset]
                kws = re.findall(r"\b([A-Z][A-Z_]{2,})\b", inside)
                return f"{m.group(1) if m else '?'}:{kws[-1] if kws else ''}"
            depth -= 1
        i -= 1
    return "toplevel"


def python_slot_position(src: str, slot: Slot) -> Tuple[List[str], List[str]]:
    """Top-level statements (unparsed, one line each) before and after the slot in a python template."""
    blanked = blank_tags(src)
    try:
        tree = pyast.parse(blanked)
    except SyntaxError as e:
        raise AnalysisError(f"python template does not parse once jinja tags are blanked: {e}")
    before, after = [], []
    for st in tree.body:
        (before if st.lineno < slot.lineno else after).append(pyast.unparse(st).split("\n")[0])
    return before, after
