"""E-FIN: evaluation of small pure expressions over a finite domain.

Some helpers decide by looking a type name up in a module-level table of constants (`_type_priority`) and comparing the
result with other entries of that table.  Their behaviour over ALL inputs is then a finite case distinction that can be
computed from the source: the table is a literal, the tests are comparisons of constants.  This is constant folding, not
execution of the repository's code: only literals, names bound by the caller, subscripts / .get() of literal dicts,
comparisons, boolean connectives and conditional expressions are understood; anything else is `Unknown`."""
from __future__ import annotations

import ast
from typing import Any, Dict


class Unknown(Exception):
    pass


def literal_tables(module_tree: ast.Module) -> Dict[str, Any]:
    out = {}
    for n in module_tree.body:
        tgt, val = None, None
        if isinstance(n, ast.Assign) and len(n.targets) == 1 and isinstance(n.targets[0], ast.Name):
            tgt, val = n.targets[0].id, n.value
        elif isinstance(n, ast.AnnAssign) and isinstance(n.target, ast.Name) and n.value is not None:
            tgt, val = n.target.id, n.value
        if tgt is not None:
            try:
                out[tgt] = ast.literal_eval(val)
            except Exception:
                pass
    return out


def ev(e: ast.AST, env: Dict[str, Any], tables: Dict[str, Any]):
    if isinstance(e, ast.Constant):
        return e.value
    if isinstance(e, ast.Name):
        if e.id in env:
            return env[e.id]
        if e.id in tables:
            return tables[e.id]
        raise Unknown(e.id)
    if isinstance(e, ast.Attribute):
        key = ast.unparse(e)
        if key in env:
            return env[key]
        raise Unknown(key)
    if isinstance(e, ast.Subscript):
        base = ev(e.value, env, tables)
        k = ev(e.slice, env, tables)
        try:
            return base[k]
        except Exception:
            raise Unknown(f"no entry {k!r}")
    if isinstance(e, ast.Call) and isinstance(e.func, ast.Attribute) and e.func.attr == "get" and 1 <= len(e.args) <= 2:
        base = ev(e.func.value, env, tables)
        k = ev(e.args[0], env, tables)
        d = ev(e.args[1], env, tables) if len(e.args) == 2 else None
        if isinstance(base, dict):
            return base.get(k, d)
        raise Unknown("get on a non-dict")
    if isinstance(e, ast.UnaryOp) and isinstance(e.op, ast.Not):
        return not ev(e.operand, env, tables)
    if isinstance(e, ast.UnaryOp) and isinstance(e.op, ast.USub):
        return -ev(e.operand, env, tables)
    if isinstance(e, ast.BoolOp):
        vals = [ev(v, env, tables) for v in e.values]
        return all(vals) if isinstance(e.op, ast.And) else any(vals)
    if isinstance(e, ast.IfExp):
        return ev(e.body, env, tables) if ev(e.test, env, tables) else ev(e.orelse, env, tables)
    if isinstance(e, ast.Compare):
        left = ev(e.left, env, tables)
        res = True
        for op, c in zip(e.ops, e.comparators):
            right = ev(c, env, tables)
            try:
                ok = {ast.Lt: lambda: left < right, ast.LtE: lambda: left <= right, ast.Gt: lambda: left > right, ast.GtE: lambda: left >= right,
                      ast.Eq: lambda: left == right, ast.NotEq: lambda: left != right, ast.In: lambda: left in right,
                      ast.NotIn: lambda: left not in right, ast.Is: lambda: left is right, ast.IsNot: lambda: left is not right}[type(op)]()
            except TypeError:
                raise Unknown("incomparable")
            res = res and ok
            left = right
        return res
    raise Unknown(type(e).__name__)
