"""E-TPL: view a Python string expression that becomes C++ text as a template:
literal parts + holes.  Handles f-strings, string constants, `+` concatenation,
single-definition locals, `str(x)`, and the repository's escaper
`cpp_string_literal(x)` (a hole that renders as one complete C++ string literal).
"""
from __future__ import annotations

import ast
from typing import List, Optional, Tuple

from .pyfacts import call_name, src, walk_no_nested

ESCAPERS = {"cpp_string_literal"}
Part = Tuple[str, object]   # ("lit", str) | ("hole", ast.AST) | ("strlit", ast.AST)


def _defs(fn: ast.AST, name: str) -> List[ast.AST]:
    out = []
    for st in walk_no_nested(fn):
        if isinstance(st, ast.Assign) and len(st.targets) == 1 and isinstance(st.targets[0], ast.Name) and st.targets[0].id == name:
            out.append(st.value)
        elif isinstance(st, ast.AugAssign) and isinstance(st.target, ast.Name) and st.target.id == name:
            out.append(None)
    return out


def parts(fn: Optional[ast.AST], e: ast.AST, depth: int = 0) -> List[Part]:
    if isinstance(e, ast.Constant) and isinstance(e.value, str):
        return [("lit", e.value)]
    if isinstance(e, ast.JoinedStr):
        out: List[Part] = []
        for v in e.values:
            if isinstance(v, ast.Constant):
                out.append(("lit", v.value))
            elif isinstance(v, ast.FormattedValue):
                if _is_stringy(v.value) or (isinstance(v.value, ast.Name) and v.format_spec is None and v.conversion == -1):
                    out.extend(parts(fn, v.value, depth + 1))
                else:
                    out.append(("hole", v.value))
        return _merge(out)
    if isinstance(e, ast.BinOp) and isinstance(e.op, ast.Add):
        return _merge(parts(fn, e.left, depth) + parts(fn, e.right, depth))
    if isinstance(e, ast.Call):
        n = call_name(e)
        if n in ESCAPERS and e.args:
            return [("strlit", e.args[0])]
        if n == "str" and len(e.args) == 1:
            return [("hole", e.args[0])]
    if isinstance(e, ast.Name) and fn is not None and depth < 6:
        ds = _defs(fn, e.id)
        if len(ds) == 1 and ds[0] is not None and _is_stringy(ds[0]):
            return parts(fn, ds[0], depth + 1)
    return [("hole", e)]


def _is_stringy(e: ast.AST) -> bool:
    if isinstance(e, (ast.JoinedStr,)):
        return True
    if isinstance(e, ast.Constant) and isinstance(e.value, str):
        return True
    if isinstance(e, ast.BinOp) and isinstance(e.op, ast.Add):
        return _is_stringy(e.left) or _is_stringy(e.right)
    if isinstance(e, ast.Call) and call_name(e) in ESCAPERS:
        return True
    return False


def _merge(ps: List[Part]) -> List[Part]:
    out: List[Part] = []
    for k, v in ps:
        if k == "lit" and out and out[-1][0] == "lit":
            out[-1] = ("lit", out[-1][1] + v)
        else:
            out.append((k, v))
    return out


def shape(ps: List[Part]) -> List[str]:
    """Readable shape: literals as is, holes as {src}, escaper holes as {"src"}."""
    out = []
    for k, v in ps:
        if k == "lit":
            out.append(v)
        elif k == "hole":
            out.append("{" + src(v) + "}")
        else:
            out.append('{"' + src(v) + '"}')
    return out


def text(ps: List[Part]) -> str:
    return "".join(shape(ps))


def holes_inside_string_literals(ps: List[Part]) -> List[ast.AST]:
    """Plain holes that sit between an opening and a closing double quote of the C++ text."""
    inside = False
    bad = []
    for k, v in ps:
        if k == "lit":
            i = 0
            s = v
            while i < len(s):
                if s[i] == "\\":
                    i += 2
                    continue
                if s[i] == '"':
                    inside = not inside
                i += 1
        elif k == "hole" and inside:
            bad.append(v)
    return bad


def leading_literal(ps: List[Part]) -> str:
    return ps[0][1] if ps and ps[0][0] == "lit" else ""
