"""N22: one argument form for calls to the package's own callables.  `f(a, 1, x=2)`, `f(a, d=1, x=2)` and `f(a=a, d=1, x=2)` are the same call;
which form is written cannot matter to a rule.  For every call whose callee name denotes exactly one signature in the package (a function, a
method, or a class through its __init__; no *args/**kwargs; positional-only parameters excluded) the arguments are brought to: parameters
WITHOUT a default positional, in order; parameters WITH a default by keyword.  A call that does not fit its signature (too many arguments,
unknown keyword, missing required argument) is left alone.  Applied to the reference tree and the tree under analysis alike."""
from __future__ import annotations

import ast
from typing import Dict, List, Optional, Tuple

# method names that are far more often a call on a library object (dict.get, list.append, ...) than on the package's own class
_AMBIGUOUS = {"get", "add", "append", "extend", "update", "pop", "remove", "insert", "index", "count", "copy", "items", "keys", "values",
              "format", "join", "split", "strip", "replace", "visit", "generic_visit", "write", "read", "open", "run", "type", "scope",
              "emit", "render", "dump", "load", "parse", "match", "search", "sub", "debug", "info", "warning", "error", "exists"}


def signatures(trees: Dict[str, ast.Module]) -> Dict[str, Tuple[List[str], int]]:
    """callee name -> (parameter names without self/cls, number of parameters without a default), only for names with ONE signature"""
    found: Dict[str, List[Tuple[Tuple[str, ...], int]]] = {}

    def sig(fn: ast.FunctionDef, drop_first: bool) -> Optional[Tuple[Tuple[str, ...], int]]:
        a = fn.args
        if a.vararg or a.kwarg or a.posonlyargs or a.kwonlyargs:
            return None
        params = [x.arg for x in a.args]
        nreq = len(params) - len(a.defaults)
        if drop_first:
            if not params:
                return None
            params = params[1:]
            nreq = max(0, nreq - 1)
        return tuple(params), nreq

    def rec(body, in_class: bool):
        for st in body:
            if isinstance(st, (ast.FunctionDef, ast.AsyncFunctionDef)):
                static = any(isinstance(d, ast.Name) and d.id == "staticmethod" for d in st.decorator_list)
                prop = any((isinstance(d, ast.Name) and d.id == "property") or (isinstance(d, ast.Attribute) and d.attr in ("setter", "getter"))
                           for d in st.decorator_list)
                if prop or (st.name.startswith("__") and st.name != "__init__"):
                    continue
                s = sig(st, in_class and not static)
                if st.name != "__init__":
                    found.setdefault(st.name, []).append(s)
                rec(st.body, False)
            elif isinstance(st, ast.ClassDef):
                init = [m for m in st.body if isinstance(m, ast.FunctionDef) and m.name == "__init__"]
                # a class without its own __init__ inherits one we do not resolve here: no signature
                found.setdefault(st.name, []).append(sig(init[0], True) if init else None)
                rec(st.body, True)
            elif isinstance(st, (ast.If, ast.Try, ast.With, ast.For, ast.While)):
                for fld in ("body", "orelse", "finalbody"):
                    rec(getattr(st, fld, []) or [], in_class)
                for h in getattr(st, "handlers", []) or []:
                    rec(h.body, in_class)

    for t in trees.values():
        rec(t.body, False)
    return {k: (list(v[0][0]), v[0][1]) for k, v in found.items() if len(v) == 1 and v[0] is not None and k not in _AMBIGUOUS}


def canonical_calls(trees: Dict[str, ast.Module]) -> int:
    sigs = signatures(trees)
    changed = 0
    for t in trees.values():
        for n in ast.walk(t):
            if not isinstance(n, ast.Call):
                continue
            name = n.func.attr if isinstance(n.func, ast.Attribute) else n.func.id if isinstance(n.func, ast.Name) else None
            if name not in sigs:
                continue
            params, nreq = sigs[name]
            if any(isinstance(a, ast.Starred) for a in n.args) or any(k.arg is None for k in n.keywords):
                continue
            if len(n.args) > len(params):
                continue
            given = {}
            for p, a in zip(params, n.args):
                given[p] = a
            bad = False
            for k in n.keywords:
                if k.arg not in params or k.arg in given:
                    bad = True
                    break
                given[k.arg] = k.value
            if bad or any(p not in given for p in params[:nreq]):
                continue
            new_args = [given[p] for p in params[:nreq]]
            kw_order = [p for p in params[nreq:] if p in given]
            # optional parameters keep the order in which they were written (positional ones first, in signature order)
            written = [p for p in params[nreq:][:max(0, len(n.args) - nreq)]] + [k.arg for k in n.keywords if k.arg in params[nreq:]]
            new_kw = [ast.keyword(arg=p, value=given[p]) for p in written]
            assert sorted(written) == sorted(kw_order)
            if len(new_args) != len(n.args) or [k.arg for k in new_kw] != [k.arg for k in n.keywords]:
                changed += 1
                for k in new_kw:
                    ast.copy_location(k, k.value)
                n.args, n.keywords = new_args, new_kw
    return changed
