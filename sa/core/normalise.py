"""E-NORM: a normal form applied to every module before any rule runs, so that four kinds of behaviour-preserving
re-spellings never reach a rule:

  N1  statements that only log at debug/info level are dropped (`logging.getLogger(..).debug(..)`, `log.info(..)`);
      warnings and above are kept (C10 decides that the double fallback warns)
  N2  inside functions `x: T = v` becomes `x = v` and a bare `x: T` is dropped (class and module level annotations are kept)
  N3  `if not c: A else: B` and `if a != b: A else: B` (is not / not in) become the positive test with the branches swapped
      (repeatedly; elif chains are left alone)
  N4  `t = E; return t` becomes `return E` when every use of t is such a return right after its assignment

  N5  `not a == b`, `not a is b`, `not a in b` (and their negative forms) become the single comparison
  N6  guard-clause form: `if c: <ends in return/raise/continue/break> else: REST` becomes the if without else followed by REST;
      `if c: A else: <ends>` becomes `if not c: <ends>` followed by A; when both end, the positive test comes first
  N7  a `+` chain of string constants and `str(e)` calls becomes the f-string with the same parts; a lone f"{e}" becomes str(e)

Positions are kept (reports still name the original lines).  The transformation is the same for the tree the rules were
written against and for the tree under analysis, so it can only remove differences, never create one.
"""
from __future__ import annotations

import ast

_QUIET = {"debug", "info", "log"}
_LOGGERS = {"logging", "logger", "log", "_log", "_logger", "LOG", "LOGGER"}


def _is_quiet_log(st) -> bool:
    if not (isinstance(st, ast.Expr) and isinstance(st.value, ast.Call) and isinstance(st.value.func, ast.Attribute)):
        return False
    f = st.value.func
    if f.attr not in _QUIET:
        return False
    r = f.value
    if isinstance(r, ast.Call) and isinstance(r.func, ast.Attribute) and r.func.attr == "getLogger":
        return True
    if isinstance(r, ast.Name) and r.id in _LOGGERS:
        return True
    if isinstance(r, ast.Attribute) and r.attr in _LOGGERS | {"_logger", "logger"}:
        return True
    return False


def _adjacent_pairs(fn, name) -> int:
    """number of `name = E` statements immediately followed by `return name`"""
    k = 0
    for n in ast.walk(fn):
        for fld in ("body", "orelse", "finalbody"):
            b = getattr(n, fld, None)
            if isinstance(b, list):
                for a, r in zip(b, b[1:]):
                    if isinstance(a, ast.Assign) and len(a.targets) == 1 and isinstance(a.targets[0], ast.Name) and a.targets[0].id == name \
                            and isinstance(r, ast.Return) and isinstance(r.value, ast.Name) and r.value.id == name:
                        k += 1
    return k


def _count_names(fn, name):
    loads = stores = 0
    for n in ast.walk(fn):
        if isinstance(n, ast.Name) and n.id == name:
            if isinstance(n.ctx, ast.Load):
                loads += 1
            else:
                stores += 1
    return loads, stores


_NEG = {ast.Eq: ast.NotEq, ast.NotEq: ast.Eq, ast.Is: ast.IsNot, ast.IsNot: ast.Is, ast.In: ast.NotIn, ast.NotIn: ast.In}


def _ends(body) -> bool:
    if not body:
        return False
    last = body[-1]
    if isinstance(last, (ast.Return, ast.Raise, ast.Continue, ast.Break)):
        return True
    if isinstance(last, ast.If):
        return _ends(last.body) and _ends(last.orelse)
    return False


def _is_negative(t) -> bool:
    return (isinstance(t, ast.UnaryOp) and isinstance(t.op, ast.Not)) or \
        (isinstance(t, ast.Compare) and len(t.ops) == 1 and isinstance(t.ops[0], (ast.NotEq, ast.IsNot, ast.NotIn)))


def _negate(t):
    if isinstance(t, ast.UnaryOp) and isinstance(t.op, ast.Not):
        return t.operand
    if isinstance(t, ast.Compare) and len(t.ops) == 1 and type(t.ops[0]) in _NEG:
        return ast.copy_location(ast.Compare(left=t.left, ops=[_NEG[type(t.ops[0])]()], comparators=t.comparators), t)
    return ast.copy_location(ast.UnaryOp(op=ast.Not(), operand=t), t)


def _str_parts(e):
    """parts of a `+` chain made only of str constants, str(x) calls and f-strings; None when anything else takes part"""
    if isinstance(e, ast.BinOp) and isinstance(e.op, ast.Add):
        l, r = _str_parts(e.left), _str_parts(e.right)
        return None if l is None or r is None else l + r
    if isinstance(e, ast.Constant) and isinstance(e.value, str):
        return [e]
    if isinstance(e, ast.Call) and isinstance(e.func, ast.Name) and e.func.id == "str" and len(e.args) == 1 and not e.keywords:
        return [ast.FormattedValue(value=e.args[0], conversion=-1, format_spec=None)]
    if isinstance(e, ast.JoinedStr):
        return list(e.values)
    return None


class _Norm(ast.NodeTransformer):
    def __init__(self):
        self.fn_stack = []
        self._temps = {}

    def _block(self, body, in_function=True):
        out = []
        for st in body:
            if _is_quiet_log(st):
                continue
            if in_function and isinstance(st, ast.AnnAssign) and isinstance(st.target, ast.Name) and st.simple:
                if st.value is None:
                    continue
                out.append(ast.copy_location(ast.Assign(targets=[st.target], value=st.value), st))
                continue
            out.append(st)
        # N6: guard-clause form.  An if whose body ends (return/raise/continue/break) needs no else; an if whose else ends is the
        # same guard with the test negated; when both end the positive test comes first.
        if in_function:
            res = []
            i = 0
            while i < len(out):
                st = out[i]
                if isinstance(st, ast.If):
                    b_ends, e_ends = _ends(st.body), _ends(st.orelse)
                    if st.orelse and not b_ends and e_ends:
                        st.test = _negate(st.test)
                        st.body, st.orelse = st.orelse, st.body
                        b_ends, e_ends = True, False
                    if b_ends:
                        rest = st.orelse if st.orelse else out[i + 1:]
                        if rest and _ends(rest) and _is_negative(st.test):
                            flipped = ast.copy_location(ast.If(test=_negate(st.test), body=self._block(list(rest), True), orelse=[]), st)
                            res.append(flipped)
                            res.extend(st.body)
                            i = len(out)
                            break
                        if st.orelse:
                            rest, st.orelse = st.orelse, []
                            out = out[:i + 1] + rest + out[i + 1:]
                res.append(st)
                i += 1
            out = res
        # N4
        if self.fn_stack and in_function:
            fn = self.fn_stack[-1]
            res = []
            i = 0
            while i < len(out):
                a = out[i]
                b = out[i + 1] if i + 1 < len(out) else None
                if isinstance(a, ast.Assign) and len(a.targets) == 1 and isinstance(a.targets[0], ast.Name) and isinstance(b, ast.Return) \
                        and isinstance(b.value, ast.Name) and b.value.id == a.targets[0].id and self._only_return_temp(fn, a.targets[0].id):
                    res.append(ast.copy_location(ast.Return(value=a.value), a))
                    i += 2
                    continue
                res.append(a)
                i += 1
            out = res
        if not out:
            out = [ast.copy_location(ast.Pass(), body[0])] if body else []
        return out

    def _only_return_temp(self, fn, name) -> bool:
        key = (id(fn), name)
        if key not in self._temps:
            loads, stores = _count_names(fn, name)
            self._temps[key] = loads == stores == _adjacent_pairs(fn, name) and loads > 0
        return self._temps[key]

    def generic_visit(self, node):
        super().generic_visit(node)
        for fld in ("body", "orelse", "finalbody"):
            v = getattr(node, fld, None)
            if isinstance(v, list) and v and isinstance(v[0], ast.stmt):
                # annotations in class bodies declare fields (dataclasses) and module-level ones are state inventory: N2/N4 apply to code in functions
                inside = bool(self.fn_stack) and not isinstance(node, ast.ClassDef)
                setattr(node, fld, self._block(v, in_function=inside))
        if isinstance(node, ast.Try):
            for h in node.handlers:
                h.body = self._block(h.body)
        return node

    def visit_FunctionDef(self, node):
        self.fn_stack.append(node)
        self.generic_visit(node)
        self.fn_stack.pop()
        return node
    visit_AsyncFunctionDef = visit_FunctionDef

    def visit_UnaryOp(self, node):
        self.generic_visit(node)
        if isinstance(node.op, ast.Not) and isinstance(node.operand, ast.Compare) and len(node.operand.ops) == 1 and type(node.operand.ops[0]) in _NEG:
            c = node.operand
            return ast.copy_location(ast.Compare(left=c.left, ops=[_NEG[type(c.ops[0])]()], comparators=c.comparators), node)
        return node

    def visit_BinOp(self, node):
        self.generic_visit(node)
        if isinstance(node.op, ast.Add):
            ps = _str_parts(node)
            if ps is not None and any(isinstance(x, ast.FormattedValue) for x in ps) and any(isinstance(x, ast.Constant) for x in ps):
                merged = []
                for x in ps:
                    if isinstance(x, ast.Constant) and merged and isinstance(merged[-1], ast.Constant):
                        merged[-1] = ast.Constant(value=merged[-1].value + x.value)
                    else:
                        merged.append(x)
                return ast.copy_location(ast.JoinedStr(values=merged), node)
        return node

    def visit_JoinedStr(self, node):
        self.generic_visit(node)
        if len(node.values) == 1 and isinstance(node.values[0], ast.FormattedValue) and node.values[0].format_spec is None \
                and node.values[0].conversion == -1:
            return ast.copy_location(ast.Call(func=ast.Name(id="str", ctx=ast.Load()), args=[node.values[0].value], keywords=[]), node)
        return node

    def visit_If(self, node):
        self.generic_visit(node)
        while node.orelse and not (len(node.orelse) == 1 and isinstance(node.orelse[0], ast.If)) and not _ends(node.body) and not _ends(node.orelse):
            t = node.test
            if isinstance(t, ast.UnaryOp) and isinstance(t.op, ast.Not):
                node.test = t.operand
            elif isinstance(t, ast.Compare) and len(t.ops) == 1 and isinstance(t.ops[0], (ast.NotEq, ast.IsNot, ast.NotIn)):
                node.test = ast.copy_location(ast.Compare(left=t.left, ops=[_NEG[type(t.ops[0])]()], comparators=t.comparators), t)
            else:
                break
            node.body, node.orelse = node.orelse, node.body
        return node


def normalise(tree: ast.Module) -> ast.Module:
    tree = _Norm().visit(tree)
    ast.fix_missing_locations(tree)
    return tree
