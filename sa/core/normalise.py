"""E-NORM: a normal form applied to every module before any rule runs, so that four kinds of behaviour-preserving
re-spellings never reach a rule:

  N1  statements that only log at debug/info level are dropped (`logging.getLogger(..).debug(..)`, `log.info(..)`);
      warnings and above are kept (C10 decides that the double fallback warns)
  N2  inside functions `x: T = v` becomes `x = v` and a bare `x: T` is dropped (class and module level annotations are kept)
  N3  `if not c: A else: B` and `if a != b: A else: B` (is not / not in) become the positive test with the branches swapped
      (repeatedly; elif chains are left alone)
  N4  `t = E; return t` becomes `return E` when every use of t is such a return right after its assignment

  N5  `not a == b`, `not a is b`, `not a in b` (and their negative forms) become the single comparison
  N6  guard-clause form: `if c: <ends in return/raise/continue/break> else: REST` becomes the if without else followed by REST;
      `if c: A else: <ends>` becomes `if not c: <ends>` followed by A; when both end, the positive test comes first
  N7  a `+` chain of string constants and `str(e)` calls becomes the f-string with the same parts; a lone f"{e}" becomes str(e)

  N8  `isinstance(x, (A, B))` becomes `isinstance(x, A) or isinstance(x, B)`; `not (a or b)` / `not (a and b)` are pushed inward
  N9  a chain of `if <boolean test>: return True/False` that ends in a return becomes the single boolean `return` expression
  N10 a conditional expression that is the whole value of a return / an assignment, or the one conditional argument of a call statement
      (or of the call an assignment stores), becomes the if/else statement with that return / assignment / call in each arm
  N11 in the tail of a function an if-arm that ends in a bare `return` (in a loop body: a bare `continue`) is the same as an if/else with the
      following statements in the other arm: the else form is used (an empty arm negates the test)
  N12 `x += [a, b]`, `x.extend([a, b])` become `x.append(a); x.append(b)`; `x.extend(<generator or list comprehension>)` and
      `x += [<list comprehension>]` become the for/if loops that append the element; `for v in xs: x.append(v)` is `x.extend(xs)`
  N13 `d[k] if k in d else V`, `if k in d: x = d[k] else: x = V` and `x = V; if k in d: x = d[k]` (V a literal or a plain name; also under
      bool()/int()/str()/float() when V is that conversion's fixed point) become `d.get(k, V)`; `.get(k, None)` is `.get(k)`
  N14 a for statement that unpacks its elements (`for a, (b, c) in pairs`) reads them by position instead (one loop variable, a -> v[0],
      c -> v[1][1]); enumerate() and .items() loops keep their unpacked form
  N15 a local bound once, at the top level of a function, to a plain access path (`func = node.func`) is replaced by that path
  N16 `a, b = x, y` becomes `a = x; b = y` when neither a nor b is read on the right-hand side
  N17 `d = {"a": x, ...}` (constant keys, local d) becomes `d = {}` followed by the item assignments; `d.update({...})` and
      `d.update({K: V for ...})` become the item assignments / the loops that make them
  N18 emptiness tests in a boolean position: `len(x) == 0` is `not x`; `len(x) > 0`, `len(x) != 0`, `len(x) >= 1` are `x`
  N19 `x = A; if c: x = B` (A a literal or a plain path, c and B do not read x) becomes `if c: x = B else: x = A`
  N21 `for v in xs: if c: return False` followed by `return True` is `return all(not c for v in xs)` (dually `any`); all([..]) = all(..)

Positions are kept (reports still name the original lines).  The transformation is the same for the tree the rules were
written against and for the tree under analysis, so it can only remove differences, never create one.
"""
from __future__ import annotations

import ast
import copy

_QUIET = {"debug", "info"}      # (.log(level, ..) is kept: its level is a run-time value)
_LOGGERS = {"logging", "logger", "log", "_log", "_logger", "LOG", "LOGGER"}


def _is_quiet_log(st) -> bool:
    if not (isinstance(st, ast.Expr) and isinstance(st.value, ast.Call) and isinstance(st.value.func, ast.Attribute)):
        return False
    f = st.value.func
    if f.attr not in _QUIET:
        return False
    r = f.value
    if isinstance(r, ast.Call) and isinstance(r.func, ast.Attribute) and r.func.attr == "getLogger":
        return True
    if isinstance(r, ast.Name) and r.id in _LOGGERS:
        return True
    if isinstance(r, ast.Attribute) and r.attr in _LOGGERS | {"_logger", "logger"}:
        return True
    return False


def _adjacent_pairs(fn, name) -> int:
    """number of `name = E` statements immediately followed by `return name`"""
    k = 0
    for n in ast.walk(fn):
        for fld in ("body", "orelse", "finalbody"):
            b = getattr(n, fld, None)
            if isinstance(b, list):
                for a, r in zip(b, b[1:]):
                    if isinstance(a, ast.Assign) and len(a.targets) == 1 and isinstance(a.targets[0], ast.Name) and a.targets[0].id == name \
                            and isinstance(r, ast.Return) and isinstance(r.value, ast.Name) and r.value.id == name:
                        k += 1
    return k


def _count_names(fn, name):
    loads = stores = 0
    for n in ast.walk(fn):
        if isinstance(n, ast.Name) and n.id == name:
            if isinstance(n.ctx, ast.Load):
                loads += 1
            else:
                stores += 1
    return loads, stores


_NEG = {ast.Eq: ast.NotEq, ast.NotEq: ast.Eq, ast.Is: ast.IsNot, ast.IsNot: ast.Is, ast.In: ast.NotIn, ast.NotIn: ast.In}


def _ends(body) -> bool:
    if not body:
        return False
    last = body[-1]
    if isinstance(last, (ast.Return, ast.Raise, ast.Continue, ast.Break)):
        return True
    if isinstance(last, ast.If):
        return _ends(last.body) and _ends(last.orelse)
    return False


def _is_negative(t) -> bool:
    if isinstance(t, ast.BoolOp):
        return all(_is_negative(v) for v in t.values)       # not a or not b  ==  not (a and b)
    return (isinstance(t, ast.UnaryOp) and isinstance(t.op, ast.Not)) or \
        (isinstance(t, ast.Compare) and len(t.ops) == 1 and isinstance(t.ops[0], (ast.NotEq, ast.IsNot, ast.NotIn)))


def _negate(t):
    if isinstance(t, ast.BoolOp):
        dual = ast.Or() if isinstance(t.op, ast.And) else ast.And()
        return ast.copy_location(ast.BoolOp(op=dual, values=[_negate(v) for v in t.values]), t)
    if isinstance(t, ast.UnaryOp) and isinstance(t.op, ast.Not):
        return t.operand
    if isinstance(t, ast.Compare) and len(t.ops) == 1 and type(t.ops[0]) in _NEG:
        return ast.copy_location(ast.Compare(left=t.left, ops=[_NEG[type(t.ops[0])]()], comparators=t.comparators), t)
    return ast.copy_location(ast.UnaryOp(op=ast.Not(), operand=t), t)


def _str_parts(e):
    """parts of a `+` chain made only of str constants, str(x) calls and f-strings; None when anything else takes part"""
    if isinstance(e, ast.BinOp) and isinstance(e.op, ast.Add):
        l, r = _str_parts(e.left), _str_parts(e.right)
        return None if l is None or r is None else l + r
    if isinstance(e, ast.Constant) and isinstance(e.value, str):
        return [e]
    if isinstance(e, ast.Call) and isinstance(e.func, ast.Name) and e.func.id == "str" and len(e.args) == 1 and not e.keywords:
        return [ast.FormattedValue(value=e.args[0], conversion=-1, format_spec=None)]
    if isinstance(e, ast.JoinedStr):
        return list(e.values)
    return None

_BOOL_CALLS = {"isinstance", "issubclass", "callable", "hasattr", "any", "all", "startswith", "endswith", "isdigit", "isalpha", "isalnum",
               "isidentifier", "isspace", "exists", "is_dir", "is_file"}


def _boolish(t) -> bool:
    """syntactically certain to evaluate to a bool"""
    if isinstance(t, ast.Constant):
        return isinstance(t.value, bool)
    if isinstance(t, ast.Compare):
        return True
    if isinstance(t, ast.UnaryOp) and isinstance(t.op, ast.Not):
        return True
    if isinstance(t, ast.BoolOp):
        return all(_boolish(v) for v in t.values)
    if isinstance(t, ast.Call):
        f = t.func
        name = f.id if isinstance(f, ast.Name) else f.attr if isinstance(f, ast.Attribute) else ""
        return name in _BOOL_CALLS or name.startswith(("is_", "has_"))
    return False


def _plain(e) -> bool:
    """an expression without calls or other effects (names, attributes, constants, subscripts of those)"""
    return all(isinstance(n, (ast.Name, ast.Attribute, ast.Constant, ast.Subscript, ast.Load, ast.Store, ast.Tuple, ast.Index if hasattr(ast, "Index") else ast.Load,
                              ast.UnaryOp, ast.USub, ast.UAdd, ast.Slice)) for n in ast.walk(e))


def _truthy(t):
    """N18: an emptiness test in a boolean position: len(x) == 0 -> not x;  len(x) > 0, len(x) != 0, len(x) >= 1, 0 < len(x) -> x"""
    if not (isinstance(t, ast.Compare) and len(t.ops) == 1):
        return t
    l, op, r = t.left, t.ops[0], t.comparators[0]

    def is_len(e):
        return isinstance(e, ast.Call) and isinstance(e.func, ast.Name) and e.func.id == "len" and len(e.args) == 1 and not e.keywords and _plain(e.args[0])

    def num(e):
        return e.value if isinstance(e, ast.Constant) and type(e.value) is int else None
    if is_len(r) and num(l) is not None:          # 0 < len(x)  ->  len(x) > 0
        flip = {ast.Lt: ast.Gt, ast.Gt: ast.Lt, ast.LtE: ast.GtE, ast.GtE: ast.LtE, ast.Eq: ast.Eq, ast.NotEq: ast.NotEq}
        if type(op) not in flip:
            return t
        l, op, r = r, flip[type(op)](), l
    if not (is_len(l) and num(r) is not None):
        return t
    x, n = l.args[0], num(r)
    empty = (isinstance(op, ast.Eq) and n == 0) or (isinstance(op, ast.Lt) and n == 1) or (isinstance(op, ast.LtE) and n == 0)
    nonempty = (isinstance(op, (ast.NotEq, ast.Gt)) and n == 0) or (isinstance(op, ast.GtE) and n == 1)
    if empty:
        return ast.copy_location(ast.UnaryOp(op=ast.Not(), operand=x), t)
    if nonempty:
        return x
    return t


def _is_none(e) -> bool:
    return isinstance(e, ast.Constant) and e.value is None


def _bool_const(e):
    return e.value if isinstance(e, ast.Constant) and isinstance(e.value, bool) else None


def _or(a, b, at):
    vals = (a.values if isinstance(a, ast.BoolOp) and isinstance(a.op, ast.Or) else [a]) + (b.values if isinstance(b, ast.BoolOp) and isinstance(b.op, ast.Or) else [b])
    return ast.copy_location(ast.BoolOp(op=ast.Or(), values=list(vals)), at)


def _and(a, b, at):
    vals = (a.values if isinstance(a, ast.BoolOp) and isinstance(a.op, ast.And) else [a]) + (b.values if isinstance(b, ast.BoolOp) and isinstance(b.op, ast.And) else [b])
    return ast.copy_location(ast.BoolOp(op=ast.And(), values=list(vals)), at)


def _expand_ifexp(st):
    """N10: the statement with a conditional expression in a deciding position -> if/else statement (None when not applicable)"""
    def split(make, ie):
        a = ast.copy_location(make(ie.body), st)
        b = ast.copy_location(make(ie.orelse), st)
        return ast.copy_location(ast.If(test=ie.test, body=[a], orelse=[b]), st)

    def call_with(call, k, v):
        args = list(call.args)
        args[k] = v
        return ast.copy_location(ast.Call(func=call.func, args=args, keywords=call.keywords), call)

    def one_ifexp_arg(call):
        if not isinstance(call, ast.Call) or not _plain(call.func) or any(not _plain(k.value) for k in call.keywords):
            return None
        idx = [i for i, a in enumerate(call.args) if isinstance(a, ast.IfExp)]
        if len(idx) != 1 or any(not _plain(a) for i, a in enumerate(call.args) if i != idx[0]):
            return None
        return idx[0]

    if isinstance(st, ast.Return) and isinstance(st.value, ast.IfExp):
        return split(lambda v: ast.Return(value=v), st.value)
    if isinstance(st, ast.Assign) and len(st.targets) == 1 and _plain(st.targets[0]):
        if isinstance(st.value, ast.IfExp):
            return split(lambda v: ast.Assign(targets=st.targets, value=v), st.value)
        k = one_ifexp_arg(st.value)
        if k is not None:
            return split(lambda v: ast.Assign(targets=st.targets, value=call_with(st.value, k, v)), st.value.args[k])
    if isinstance(st, ast.Expr):
        k = one_ifexp_arg(st.value)
        if k is not None:
            return split(lambda v: ast.Expr(value=call_with(st.value, k, v)), st.value.args[k])
    return None


def _appends(st):
    """N12: list-growing statement -> the equivalent append statements / loops (None when not applicable)"""
    def app(x, elt):
        return ast.copy_location(ast.Expr(value=ast.copy_location(ast.Call(func=ast.Attribute(value=x, attr="append", ctx=ast.Load()), args=[elt], keywords=[]), st)), st)

    def loops(x, comp):
        inner = [app(x, comp.elt)]
        for g in reversed(comp.generators):
            if g.is_async:
                return None
            for c in reversed(g.ifs):
                inner = [ast.copy_location(ast.If(test=c, body=inner, orelse=[]), st)]
            inner = [ast.copy_location(ast.For(target=g.target, iter=g.iter, body=inner, orelse=[], type_comment=None), st)]
        return inner

    x = src_v = None
    # `x = [<a if c else b> for v in xs]`: a list built by a per-element case distinction is the loop that appends in each case
    if isinstance(st, ast.Assign) and len(st.targets) == 1 and isinstance(st.targets[0], ast.Name) and isinstance(st.value, ast.ListComp) \
            and isinstance(st.value.elt, ast.IfExp) and not any(isinstance(n, ast.Name) and n.id == st.targets[0].id for n in ast.walk(st.value)):
        lp = loops(_as_load(st.targets[0]), st.value)
        if lp is not None:
            init = ast.copy_location(ast.Assign(targets=[st.targets[0]], value=ast.copy_location(ast.List(elts=[], ctx=ast.Load()), st.value)), st)
            return [init] + lp
    if isinstance(st, ast.AugAssign) and isinstance(st.op, ast.Add) and _plain(st.target):
        x, src_v = st.target, st.value
        x = _as_load(x)
        if isinstance(src_v, ast.List) and src_v.elts and not any(isinstance(e, ast.Starred) for e in src_v.elts):
            return [app(x, e) for e in src_v.elts]
        if isinstance(src_v, ast.ListComp):
            return loops(x, src_v)
        return None
    if isinstance(st, ast.Expr) and isinstance(st.value, ast.Call) and isinstance(st.value.func, ast.Attribute) and st.value.func.attr == "extend" \
            and len(st.value.args) == 1 and not st.value.keywords and _plain(st.value.func.value):
        x, src_v = st.value.func.value, st.value.args[0]
        if isinstance(src_v, (ast.List, ast.Tuple)) and src_v.elts and not any(isinstance(e, ast.Starred) for e in src_v.elts):
            return [app(x, e) for e in src_v.elts]
        if isinstance(src_v, (ast.ListComp, ast.GeneratorExp)):
            return loops(x, src_v)
    return None


_WRAP = {"bool": bool, "int": int, "str": str, "float": float}


def _literal_default(v) -> bool:
    if isinstance(v, ast.Constant):
        return True
    if isinstance(v, (ast.List, ast.Tuple, ast.Dict, ast.Set)):
        return not (v.elts if not isinstance(v, ast.Dict) else v.keys)
    return isinstance(v, (ast.Name, ast.Attribute)) and _plain(v)


def _get_form(test, present, default):
    """N13: `<present> if k in d else <default>` with present = d[k] or f(d[k]) -> d.get(k, default) / f(d.get(k, default)); None otherwise"""
    if not (isinstance(test, ast.Compare) and len(test.ops) == 1 and isinstance(test.ops[0], ast.In) and _plain(test.left) and _plain(test.comparators[0])):
        return None
    if not _literal_default(default):
        return None
    k, d = test.left, test.comparators[0]
    want = ast.dump(ast.Subscript(value=d, slice=k, ctx=ast.Load()))

    def get(at):
        args = [k] if (isinstance(default, ast.Constant) and default.value is None) else [k, default]
        return ast.copy_location(ast.Call(func=ast.Attribute(value=_as_load(d), attr="get", ctx=ast.Load()), args=args, keywords=[]), at)

    if ast.dump(_as_load(present)) == want:
        return get(present)
    if isinstance(present, ast.Call) and isinstance(present.func, ast.Name) and present.func.id in _WRAP and len(present.args) == 1 and not present.keywords \
            and ast.dump(_as_load(present.args[0])) == want and isinstance(default, ast.Constant):
        try:
            if _WRAP[present.func.id](default.value) == default.value and type(_WRAP[present.func.id](default.value)) is type(default.value):
                return ast.copy_location(ast.Call(func=present.func, args=[get(present)], keywords=[]), present)
        except Exception:
            return None
    return None


def _one_assign(stmts):
    if len(stmts) == 1 and isinstance(stmts[0], ast.Assign) and len(stmts[0].targets) == 1 and _plain(stmts[0].targets[0]):
        return stmts[0]
    return None


def _dict_items(st):
    """N17: `d = {"a": x, "b": y}` (constant keys) -> `d = {}; d["a"] = x; d["b"] = y`;  `d.update({...})` / `d.update({K: V for ...})`
    -> the item assignments / the for-if loops that assign d[K] = V.  None when not applicable."""
    def setitem(d, k, v):
        return ast.copy_location(ast.Assign(targets=[ast.Subscript(value=_as_load(d), slice=k, ctx=ast.Store())], value=v), st)

    if isinstance(st, ast.Assign) and len(st.targets) == 1 and isinstance(st.targets[0], ast.Name) and isinstance(st.value, ast.Dict) \
            and st.value.keys and all(isinstance(k, ast.Constant) for k in st.value.keys) \
            and not all(isinstance(v, ast.Constant) for v in st.value.values):          # (a table of constants stays a literal)
        d = st.targets[0]
        if any(isinstance(n, ast.Name) and n.id == d.id for v in st.value.values for n in ast.walk(v)):
            return None
        out = [ast.copy_location(ast.Assign(targets=[d], value=ast.copy_location(ast.Dict(keys=[], values=[]), st.value)), st)]
        return out + [setitem(d, k, v) for k, v in zip(st.value.keys, st.value.values)]
    if isinstance(st, ast.Expr) and isinstance(st.value, ast.Call) and isinstance(st.value.func, ast.Attribute) and st.value.func.attr == "update" \
            and len(st.value.args) == 1 and not st.value.keywords and _plain(st.value.func.value):
        d, a = st.value.func.value, st.value.args[0]
        if isinstance(a, ast.Dict) and a.keys and all(k is not None for k in a.keys):
            return [setitem(d, k, v) for k, v in zip(a.keys, a.values)]
        if isinstance(a, ast.DictComp):
            inner = [setitem(d, a.key, a.value)]
            for g in reversed(a.generators):
                if g.is_async:
                    return None
                for c in reversed(g.ifs):
                    inner = [ast.copy_location(ast.If(test=c, body=inner, orelse=[]), st)]
                inner = [ast.copy_location(ast.For(target=g.target, iter=g.iter, body=inner, orelse=[], type_comment=None), st)]
            return inner
    return None


def _as_load(t):
    import copy
    c = copy.deepcopy(t)
    for n in ast.walk(c):
        if hasattr(n, "ctx"):
            n.ctx = ast.Load()
    return c


def _chain_root(e):
    while isinstance(e, (ast.Attribute, ast.Subscript)):
        e = e.value
    return e.id if isinstance(e, ast.Name) else None


def _plain_chain(e) -> bool:
    """a.b.c, a.b[0], a['k'].c - names, attributes and constant subscripts only"""
    if isinstance(e, ast.Name):
        return True
    if isinstance(e, ast.Attribute):
        return _plain_chain(e.value)
    if isinstance(e, ast.Subscript):
        return isinstance(e.slice, ast.Constant) and _plain_chain(e.value)
    return False


def _inline_plain_aliases(fn) -> None:
    """N15: a local bound exactly once, at the top level of the function body, to a plain access path of something that is not re-bound or
    stored into anywhere in the function (`func = node.func`, `obj = spec.replacement_instance_obj`) is only another name for that path:
    its uses read the path itself.  Paths rooted at self/cls are left alone (methods called in between may re-bind the attribute)."""
    import copy
    for _ in range(4):
        stores = {}
        for n in ast.walk(fn):
            if isinstance(n, ast.Name) and not isinstance(n.ctx, ast.Load):
                stores[n.id] = stores.get(n.id, 0) + 1
            elif isinstance(n, ast.arg):
                stores[n.arg] = stores.get(n.arg, 0) + 1
            elif isinstance(n, (ast.Global, ast.Nonlocal)):
                for nm in n.names:
                    stores[nm] = stores.get(nm, 0) + 2
        written_paths = set()
        for n in ast.walk(fn):
            if isinstance(n, (ast.Attribute, ast.Subscript)) and not isinstance(n.ctx, ast.Load):
                written_paths.add(_chain_root(n))
        cand = holder = None
        blocks = [(fn, "body")]
        for n in ast.walk(fn):
            if n is fn or isinstance(n, (ast.FunctionDef, ast.AsyncFunctionDef, ast.ClassDef, ast.Lambda)):
                continue
            for fld in ("body", "orelse", "finalbody"):
                if isinstance(getattr(n, fld, None), list) and getattr(n, fld) and isinstance(getattr(n, fld)[0], ast.stmt):
                    blocks.append((n, fld))
        for owner, fld in blocks:
            lst = getattr(owner, fld)
            for i, st in enumerate(lst):
                is_const = isinstance(st, ast.Assign) and isinstance(st.value, ast.Constant) and isinstance(st.value.value, (str, int, float)) \
                    and not isinstance(st.value.value, bool)
                if isinstance(st, ast.Assign) and len(st.targets) == 1 and isinstance(st.targets[0], ast.Name) and (is_const or (_plain_chain(st.value)
                        and not isinstance(st.value, ast.Name))):
                    x, root = st.targets[0].id, (None if is_const else _chain_root(st.value))
                    if stores.get(x) == 1 and root not in ("self", "cls") and stores.get(root, 0) <= 1 and root not in written_paths \
                            and x not in written_paths and root != x:
                        # every read of x stands in a later statement of the same block (the binding dominates it)
                        later = {id(y) for s in lst[i + 1:] for y in ast.walk(s)}
                        reads = [y for y in ast.walk(fn) if isinstance(y, ast.Name) and y.id == x and isinstance(y.ctx, ast.Load)]
                        if all(id(y) in later for y in reads):
                            cand, holder = st, (owner, fld)
                            break
            if cand is not None:
                break
        if cand is None:
            return
        x = cand.targets[0].id

        class R(ast.NodeTransformer):
            def visit_Name(s, n):
                if n.id == x and isinstance(n.ctx, ast.Load):
                    return ast.copy_location(copy.deepcopy(cand.value), n)
                return n
        owner, fld = holder
        new = [R().visit(s) for s in getattr(owner, fld) if s is not cand]
        setattr(owner, fld, new or [ast.copy_location(ast.Pass(), cand)])
        ast.fix_missing_locations(fn)


class _Norm(ast.NodeTransformer):
    def __init__(self):
        self.fn_stack = []
        self._temps = {}
        self.module = None

    def visit_Module(self, node):
        self.module = node
        return self.generic_visit(node)

    # N30: a lambda parameter with a default that is a name which cannot change between the creation of the lambda and its call (a module-level
    # name bound once, or a local of the enclosing function bound once outside any loop) is that name: `lambda x, p=V: E`  ==  `lambda x: E[V/p]`.
    # A loop variable bound this way (`lambda x, md=md: ..`) is the classic early binding and stays.
    def visit_Lambda(self, node):
        self.generic_visit(node)
        a = node.args
        if not a.defaults or a.vararg or a.kwarg or a.kwonlyargs or a.posonlyargs:
            return node
        npos = len(a.args) - len(a.defaults)
        keep_args, keep_defaults, env = list(a.args[:npos]), [], {}
        for prm, d in zip(a.args[npos:], a.defaults):
            if isinstance(d, ast.Name) and self._stable_name(d.id) and not keep_defaults:
                # (only trailing-compatible: parameters after a kept default must keep theirs too)
                env[prm.arg] = d
            else:
                keep_args.append(prm)
                keep_defaults.append(d)
        if not env or any(v.id in {x.arg for x in keep_args} for v in env.values()):
            return node

        class Sub(ast.NodeTransformer):
            def visit_Name(s, n):
                if isinstance(n.ctx, ast.Load) and n.id in env:
                    return ast.copy_location(ast.Name(id=env[n.id].id, ctx=ast.Load()), n)
                return n
        node.body = Sub().visit(node.body)
        a.args, a.defaults = keep_args, keep_defaults
        return node

    def _stable_name(self, name: str) -> bool:
        def stores(root):
            n_plain = n_other = 0
            for n in ast.walk(root):
                if isinstance(n, ast.Name) and n.id == name and isinstance(n.ctx, (ast.Store, ast.Del)):
                    n_other += 1
                elif isinstance(n, ast.arg) and n.arg == name:
                    n_other += 1
                elif isinstance(n, (ast.FunctionDef, ast.AsyncFunctionDef, ast.ClassDef)) and n.name == name and n is not root:
                    n_other += 1
            return n_other
        if self.fn_stack:
            fn = self.fn_stack[0]
            k = stores(fn)
            if k > 1:
                return False
            if k == 1:
                # bound once in the enclosing function: by a plain assignment that is a statement of the function body itself (not in a loop)
                return any(isinstance(st, ast.Assign) and len(st.targets) == 1 and isinstance(st.targets[0], ast.Name) and st.targets[0].id == name
                           for st in fn.body)
        if self.module is None:
            return False
        top = 0
        for st in self.module.body:
            if isinstance(st, (ast.Assign, ast.AnnAssign, ast.AugAssign)):
                tg = st.targets if isinstance(st, ast.Assign) else [st.target]
                top += sum(1 for t in tg for n in ast.walk(t) if isinstance(n, ast.Name) and n.id == name and isinstance(n.ctx, ast.Store))
            elif isinstance(st, (ast.FunctionDef, ast.AsyncFunctionDef, ast.ClassDef)) and st.name == name:
                top += 1
            elif isinstance(st, (ast.Import, ast.ImportFrom)):
                top += sum(1 for x in st.names if (x.asname or x.name).split(".")[0] == name)
        glob = any(isinstance(n, ast.Global) and name in n.names for n in ast.walk(self.module))
        return top == 1 and not glob

    def _block(self, body, in_function=True):
        out = []
        if in_function:
            # N16: `a, b = x, y` is `a = x; b = y` when no target is read on the right-hand side
            split = []
            for st in body:
                if isinstance(st, ast.Assign) and len(st.targets) == 1 and isinstance(st.targets[0], (ast.Tuple, ast.List)) \
                        and isinstance(st.value, (ast.Tuple, ast.List)) and len(st.targets[0].elts) == len(st.value.elts) \
                        and all(isinstance(t, ast.Name) for t in st.targets[0].elts) and not any(isinstance(v, ast.Starred) for v in st.value.elts):
                    tn = {t.id for t in st.targets[0].elts}
                    if [t.id for t in st.targets[0].elts] == [v.id if isinstance(v, ast.Name) else None for v in st.value.elts]:
                        continue                                   # a, b = a, b
                    if not any(isinstance(n, ast.Name) and n.id in tn for v in st.value.elts for n in ast.walk(v)) and len(tn) == len(st.value.elts):
                        for t, v in zip(st.targets[0].elts, st.value.elts):
                            split.append(ast.copy_location(ast.Assign(targets=[t], value=v), st))
                        continue
                # N16b: `a, b = P` with P a plain path is `a = P[0]; b = P[1]` (the unpacking itself insists that P has exactly that many items)
                if isinstance(st, ast.Assign) and len(st.targets) == 1 and isinstance(st.targets[0], (ast.Tuple, ast.List)) \
                        and all(isinstance(t, ast.Name) for t in st.targets[0].elts) and len(st.targets[0].elts) >= 2 and _plain_chain(st.value) \
                        and not isinstance(st.value, ast.Name):
                    for k_, t in enumerate(st.targets[0].elts):
                        split.append(ast.copy_location(ast.Assign(targets=[t], value=ast.Subscript(value=copy.deepcopy(st.value), slice=ast.Constant(value=k_), ctx=ast.Load())), st))
                    continue
                # N28: `a, *rest = X.split(..)` is `t = X.split(..); a = t[0]; rest = t[1:]` (split returns a list: a slice of it is the same list the
                # star collects)
                if isinstance(st, ast.Assign) and len(st.targets) == 1 and isinstance(st.targets[0], (ast.Tuple, ast.List)) and len(st.targets[0].elts) == 2 \
                        and isinstance(st.targets[0].elts[0], ast.Name) and isinstance(st.targets[0].elts[1], ast.Starred) \
                        and isinstance(st.targets[0].elts[1].value, ast.Name) and isinstance(st.value, ast.Call) \
                        and isinstance(st.value.func, ast.Attribute) and st.value.func.attr == "split":
                    a_, r_ = st.targets[0].elts[0], st.targets[0].elts[1].value
                    tmp = f"_parts_{a_.id}"
                    ld = lambda: ast.Name(id=tmp, ctx=ast.Load())
                    split.append(ast.copy_location(ast.Assign(targets=[ast.Name(id=tmp, ctx=ast.Store())], value=st.value), st))
                    split.append(ast.copy_location(ast.Assign(targets=[a_], value=ast.Subscript(value=ld(), slice=ast.Constant(value=0), ctx=ast.Load())), st))
                    split.append(ast.copy_location(ast.Assign(targets=[r_], value=ast.Subscript(value=ld(), slice=ast.Slice(lower=ast.Constant(value=1), upper=None, step=None), ctx=ast.Load())), st))
                    continue
                split.append(st)
            body = split
            expanded = []
            if self.fn_stack:
                body = self._n4(list(body))       # `t = a if c else b; return t` is `return a if c else b` before the conditional is expanded
            for st in body:
                rep = _expand_ifexp(st)
                if rep is not None:
                    expanded.append(self.visit(rep))          # nested conditional expressions, guard-clause form of the new if
                    continue
                reps = _appends(st)
                if reps is None:
                    reps = _dict_items(st)
                if reps is not None:
                    for r in reps:
                        expanded.append(self.visit(r))
                    continue
                expanded.append(st)
            body = self._get_statements(expanded)
        for k_, st in enumerate(body):
            if isinstance(st, (ast.Return, ast.Raise, ast.Continue, ast.Break)):
                body = body[:k_ + 1]             # nothing after it in this block runs
                break
        for st in body:
            if _is_quiet_log(st):
                continue
            if isinstance(st, ast.Assign) and len(st.targets) == 1 and isinstance(st.targets[0], ast.Name) and isinstance(st.value, ast.Name) \
                    and st.value.id == st.targets[0].id:
                continue                                           # x = x
            if in_function and isinstance(st, ast.AnnAssign) and isinstance(st.target, ast.Name) and st.simple:
                if st.value is None:
                    continue
                out.append(ast.copy_location(ast.Assign(targets=[st.target], value=st.value), st))
                continue
            # ... and `self.x: T = v` in a method is `self.x = v` (an annotation on an attribute declares nothing at run time)
            if in_function and isinstance(st, ast.AnnAssign) and isinstance(st.target, ast.Attribute):
                if st.value is None:
                    continue
                out.append(ast.copy_location(ast.Assign(targets=[st.target], value=st.value), st))
                continue
            out.append(st)
        # N6: guard-clause form.  An if whose body ends (return/raise/continue/break) needs no else; an if whose else ends is the
        # same guard with the test negated; when both end the positive test comes first.
        if in_function:
            res = []
            i = 0
            while i < len(out):
                st = out[i]
                if isinstance(st, ast.If):
                    b_ends, e_ends = _ends(st.body), _ends(st.orelse)
                    if st.orelse and not b_ends and e_ends:
                        st.test = _negate(st.test)
                        st.body, st.orelse = st.orelse, st.body
                        b_ends, e_ends = True, False
                    if b_ends:
                        rest = st.orelse if st.orelse else out[i + 1:]
                        if rest and _ends(rest) and _is_negative(st.test):
                            flipped = ast.copy_location(ast.If(test=_negate(st.test), body=self._block(list(rest), True), orelse=[]), st)
                            res.append(flipped)
                            res.extend(st.body)
                            i = len(out)
                            break
                        if st.orelse:
                            rest, st.orelse = st.orelse, []
                            out = out[:i + 1] + rest + out[i + 1:]
                res.append(st)
                i += 1
            out = res
        # N21: `for v in xs: if c: return False` + `return True` is `return all(not c for v in xs)` (dually any)
        if in_function and len(out) >= 2 and isinstance(out[-1], ast.Return) and _bool_const(out[-1].value) is not None and isinstance(out[-2], ast.For) \
                and not out[-2].orelse and len(out[-2].body) == 1 and isinstance(out[-2].body[0], ast.If) and not out[-2].body[0].orelse \
                and len(out[-2].body[0].body) == 1 and isinstance(out[-2].body[0].body[0], ast.Return) \
                and _bool_const(out[-2].body[0].body[0].value) is (not _bool_const(out[-1].value)):
            lp, final = out[-2], _bool_const(out[-1].value)
            c = lp.body[0].test
            elt = self.visit(_negate(c)) if final else c
            gen = ast.GeneratorExp(elt=elt, generators=[ast.comprehension(target=lp.target, iter=lp.iter, ifs=[], is_async=0)])
            call = ast.Call(func=ast.Name(id="all" if final else "any", ctx=ast.Load()), args=[gen], keywords=[])
            out[-2:] = [ast.fix_missing_locations(ast.copy_location(ast.Return(value=ast.copy_location(call, lp)), lp))]
        # N9: boolean return chain
        if in_function:
            while len(out) >= 2 and isinstance(out[-1], ast.Return) and out[-1].value is not None and isinstance(out[-2], ast.If) \
                    and not out[-2].orelse and len(out[-2].body) == 1 and isinstance(out[-2].body[0], ast.Return) \
                    and _bool_const(out[-2].body[0].value) is not None and _boolish(out[-2].test):
                c, last = out[-2].test, out[-1].value
                if _bool_const(out[-2].body[0].value):
                    v = c if _bool_const(last) is False else _or(c, last, out[-2])
                else:
                    nc = self.visit(_negate(c))
                    v = nc if _bool_const(last) is True else _and(nc, last, out[-2])
                out[-2:] = [ast.copy_location(ast.Return(value=v), out[-2])]
        # N4
        if self.fn_stack and in_function:
            out = self._n4(out)
            out = self._n25(out)
        if not out:
            out = [ast.copy_location(ast.Pass(), body[0])] if body else []
        return out

    def _n25(self, out):
        """N25: an if/else (possibly nested, other statements allowed in the arms) whose every arm ENDS by assigning the same local x, followed by
        the one statement that reads x (nothing else in the function does), is that statement at the end of every arm with the arm's value in x's
        place - the common suffix un-factored:  if c: x = A else: x = B; y = x.f()   ==   if c: y = A.f() else: y = B.f().
        Sound when nothing with an effect is evaluated in the statement before x: the values are plain paths, or the statement is
        `<name>.<method>(x)`, `t = x` or `return x`."""
        fn = self.fn_stack[-1]

        def leaves(stmts):
            """the final assignment `x = V` of every arm, or None"""
            if not stmts:
                return None
            last = stmts[-1]
            if isinstance(last, ast.Assign) and len(last.targets) == 1 and isinstance(last.targets[0], ast.Name):
                return [(stmts, last)]
            if isinstance(last, ast.If) and last.orelse:
                l1, l2 = leaves(last.body), leaves(last.orelse)
                if l1 is None or l2 is None:
                    return None
                return l1 + l2
            return None
        res = []
        i = 0
        while i < len(out):
            a = out[i]
            b = out[i + 1] if i + 1 < len(out) else None
            lv = leaves([a]) if isinstance(a, ast.If) and isinstance(b, (ast.Assign, ast.Expr, ast.Return)) else None
            if lv and len({l.targets[0].id for _, l in lv}) == 1 and len(lv) >= 2:
                name = lv[0][1].targets[0].id
                loads, stores = _count_names(fn, name)
                reads_in_b = [n for n in ast.walk(b) if isinstance(n, ast.Name) and n.id == name and isinstance(n.ctx, ast.Load)]
                stores_in_b = [n for n in ast.walk(b) if isinstance(n, ast.Name) and n.id == name and isinstance(n.ctx, ast.Store)]
                plain_vals = all(_plain_chain(l.value) for _, l in lv)
                x_first = (isinstance(b, ast.Expr) and isinstance(b.value, ast.Call) and isinstance(b.value.func, ast.Attribute) and isinstance(b.value.func.value, ast.Name)
                           and len(b.value.args) == 1 and not b.value.keywords and isinstance(b.value.args[0], ast.Name) and b.value.args[0].id == name) \
                    or (isinstance(b, (ast.Assign, ast.Return)) and isinstance(b.value, ast.Name) and b.value.id == name)
                if loads == 1 and stores == len(lv) and len(reads_in_b) == 1 and not stores_in_b and (plain_vals or x_first) \
                        and not any(isinstance(n, (ast.Lambda, ast.ListComp, ast.GeneratorExp, ast.SetComp, ast.DictComp)) for n in ast.walk(b)):
                    def put(val):
                        c = copy.deepcopy(b)
                        if isinstance(c, (ast.Assign, ast.Return)) and isinstance(c.value, ast.Name) and c.value.id == name:
                            c.value = copy.deepcopy(val)
                            return c
                        for parent in ast.walk(c):
                            for fld, v in ast.iter_fields(parent):
                                if isinstance(v, ast.Name) and v.id == name and isinstance(v.ctx, ast.Load):
                                    setattr(parent, fld, copy.deepcopy(val))
                                elif isinstance(v, list):
                                    for k, x in enumerate(v):
                                        if isinstance(x, ast.Name) and x.id == name and isinstance(x.ctx, ast.Load):
                                            v[k] = copy.deepcopy(val)
                        return c
                    for stmts, last in lv:
                        stmts[-1] = ast.copy_location(put(last.value), last)
                    res.append(a)
                    i += 2
                    continue
            res.append(a)
            i += 1
        return res

    def _n4(self, out):
        fn = self.fn_stack[-1]
        res = []
        i = 0
        while i < len(out):
            a = out[i]
            b = out[i + 1] if i + 1 < len(out) else None
            if isinstance(a, ast.Assign) and len(a.targets) == 1 and isinstance(a.targets[0], ast.Name) and isinstance(b, ast.Return) \
                    and isinstance(b.value, ast.Name) and b.value.id == a.targets[0].id and self._only_return_temp(fn, a.targets[0].id):
                res.append(ast.copy_location(ast.Return(value=a.value), a))
                i += 2
                continue
            res.append(a)
            i += 1
        return res

    def _get_statements(self, body):
        """N13 at statement level: `if k in d: x = d[k] else: x = V` and `x = V; if k in d: x = d[k]` -> `x = d.get(k, V)`"""
        out = []
        for st in body:
            if isinstance(st, ast.If):
                a, b = _one_assign(st.body), _one_assign(st.orelse)
                if a is not None and b is not None and ast.dump(a.targets[0]) == ast.dump(b.targets[0]):
                    g = _get_form(st.test, a.value, b.value)
                    if g is None and _is_negative(st.test):
                        g = _get_form(_negate(st.test), b.value, a.value)
                    if g is not None:
                        out.append(ast.copy_location(ast.Assign(targets=a.targets, value=g), st))
                        continue
                if a is not None and not st.orelse and out:
                    prev = out[-1]
                    if isinstance(prev, ast.Assign) and len(prev.targets) == 1 and ast.dump(prev.targets[0]) == ast.dump(a.targets[0]):
                        g = _get_form(st.test, a.value, prev.value)
                        if g is not None:
                            out[-1] = ast.copy_location(ast.Assign(targets=a.targets, value=g), prev)
                            continue
                        # N19: `x = A; if c: x = B` (A a literal or a plain path, c does not read x) is `if c: x = B else: x = A`
                        tname = ast.unparse(a.targets[0])
                        reads_x = any(ast.unparse(n) == tname for n in ast.walk(st.test) if isinstance(n, (ast.Name, ast.Attribute)))
                        if _literal_default(prev.value) and not reads_x and not any(
                                ast.unparse(n) == tname for n in ast.walk(a.value) if isinstance(n, (ast.Name, ast.Attribute))):
                            out[-1] = self.visit_If(ast.copy_location(ast.If(test=st.test, body=st.body, orelse=[prev]), st))
                            continue
            out.append(st)
        # `if k in d: return d[k]` + `return V`
        if len(out) >= 2 and isinstance(out[-1], ast.Return) and out[-1].value is not None and isinstance(out[-2], ast.If) and not out[-2].orelse \
                and len(out[-2].body) == 1 and isinstance(out[-2].body[0], ast.Return) and out[-2].body[0].value is not None:
            g = _get_form(out[-2].test, out[-2].body[0].value, out[-1].value)
            if g is not None:
                out[-2:] = [ast.copy_location(ast.Return(value=g), out[-2])]
        return out

    def visit_IfExp(self, node):
        self.generic_visit(node)
        node.test = self._bool_pos(node.test)
        g = _get_form(node.test, node.body, node.orelse)
        if g is None and _is_negative(node.test):
            g = _get_form(_negate(node.test), node.orelse, node.body)
        return g if g is not None else node

    def _only_return_temp(self, fn, name) -> bool:
        key = (id(fn), name)
        if key not in self._temps:
            loads, stores = _count_names(fn, name)
            self._temps[key] = loads == stores == _adjacent_pairs(fn, name) and loads > 0
        return self._temps[key]

    def generic_visit(self, node):
        super().generic_visit(node)
        for fld in ("body", "orelse", "finalbody"):
            v = getattr(node, fld, None)
            if isinstance(v, list) and v and isinstance(v[0], ast.stmt):
                # annotations in class bodies declare fields (dataclasses) and module-level ones are state inventory: N2/N4 apply to code in functions
                inside = bool(self.fn_stack) and not isinstance(node, ast.ClassDef)
                setattr(node, fld, self._block(v, in_function=inside))
        if isinstance(node, ast.Try):
            for h in node.handlers:
                h.body = self._block(h.body)
        return node

    def visit_FunctionDef(self, node):
        self.fn_stack.append(node)
        if len(self.fn_stack) == 1:
            _inline_plain_aliases(node)
        self.generic_visit(node)
        node.body = self._tail_form(node.body, ast.Return) or [ast.copy_location(ast.Pass(), node)]
        # N13 at the end of a function: `if k in d: return d[k]` and falling off the end (None) is `return d.get(k)`
        last = node.body[-1]
        if isinstance(last, ast.If) and not last.orelse and len(last.body) == 1 and isinstance(last.body[0], ast.Return) and last.body[0].value is not None:
            g = _get_form(last.test, last.body[0].value, ast.Constant(value=None))
            if g is not None:
                node.body[-1] = ast.copy_location(ast.Return(value=g), last)
        self.fn_stack.pop()
        return node
    visit_AsyncFunctionDef = visit_FunctionDef

    def visit_For(self, node):
        self.generic_visit(node)
        if self.fn_stack and isinstance(node, ast.For):
            # N12: `for v in xs: out.append(v)` is `out.extend(xs)`
            if len(node.body) == 1 and not node.orelse and isinstance(node.target, ast.Name) and isinstance(node.body[0], ast.Expr):
                c = node.body[0].value
                if isinstance(c, ast.Call) and isinstance(c.func, ast.Attribute) and c.func.attr == "append" and len(c.args) == 1 and not c.keywords \
                        and isinstance(c.args[0], ast.Name) and c.args[0].id == node.target.id and _plain(c.func.value) \
                        and not any(isinstance(n, ast.Name) and n.id == node.target.id for n in ast.walk(c.func.value)):
                    ext = ast.Call(func=ast.Attribute(value=c.func.value, attr="extend", ctx=ast.Load()), args=[node.iter], keywords=[])
                    return ast.fix_missing_locations(ast.copy_location(ast.Expr(value=ast.copy_location(ext, node)), node))
            self._index_form(node)
        if self.fn_stack:
            node.body = self._tail_form(node.body, ast.Continue) or [ast.copy_location(ast.Pass(), node)]
        return node
    def visit_While(self, node):
        node = self.visit_For(node)
        if isinstance(node, ast.While):
            node.test = self._bool_pos(node.test)
        return node

    def _index_form(self, node):
        """N14: `for a, (b, c) in pairs:` reads the elements by position: `for a_b_c in pairs:` with a -> a_b_c[0], b -> a_b_c[1][0] ...
        (not for enumerate()/.items(), whose unpacked spelling is the only one in use; not when a name is re-bound in the body)"""
        t = node.target
        if not isinstance(t, (ast.Tuple, ast.List)):
            return
        it = node.iter
        if isinstance(it, ast.Call) and ((isinstance(it.func, ast.Name) and it.func.id == "enumerate")
                                         or (isinstance(it.func, ast.Attribute) and it.func.attr == "items")):
            return
        paths = {}

        def walk(x, path):
            if isinstance(x, ast.Name):
                paths[x.id] = path
            elif isinstance(x, (ast.Tuple, ast.List)):
                for i, e in enumerate(x.elts):
                    walk(e, path + (i,))
            else:
                raise ValueError
        try:
            walk(t, ())
        except ValueError:
            return
        names = [n for n in paths if n != "_"]
        if not names:
            return
        body_mod = ast.Module(body=node.body + node.orelse, type_ignores=[])
        for n in ast.walk(body_mod):
            if isinstance(n, ast.Name) and n.id in paths and not isinstance(n.ctx, ast.Load):
                return
            if isinstance(n, (ast.FunctionDef, ast.AsyncFunctionDef, ast.Lambda)):
                a = n.args
                if any(x.arg in paths for x in a.posonlyargs + a.args + a.kwonlyargs):
                    return
        new = "_".join(names)
        # the new loop variable may share its name with the unpacked names it replaces and with the loop variable of another (not
        # enclosing, not enclosed) loop; any other use of that name in the function keeps the loop as it is
        fn = self.fn_stack[-1]
        inside = {id(x) for x in ast.walk(node)}
        for n in ast.walk(fn):
            nm = n.id if isinstance(n, ast.Name) else n.arg if isinstance(n, ast.arg) else None
            if nm != new or nm in paths and id(n) in inside:
                continue
            if id(n) in inside:
                return
            owner = getattr(n, "_n14_loop", None)
            if owner is None:
                return
        for lp in ast.walk(node):
            if lp is not node and isinstance(lp, ast.For) and isinstance(lp.target, ast.Name) and lp.target.id == new:
                return

        class R(ast.NodeTransformer):
            def visit_Name(s, n):
                if n.id in paths and n.id != "_" and isinstance(n.ctx, ast.Load):
                    e = ast.Name(id=new, ctx=ast.Load())
                    e._n14_loop = node
                    for i in paths[n.id]:
                        e = ast.Subscript(value=e, slice=ast.Constant(value=i), ctx=ast.Load())
                    return ast.copy_location(e, n)
                return n
        node.body = [R().visit(s) for s in node.body]
        node.orelse = [R().visit(s) for s in node.orelse]
        node.target = ast.copy_location(ast.Name(id=new, ctx=ast.Store()), t)
        node.target._n14_loop = node
        ast.fix_missing_locations(node)

    @staticmethod
    def _bare(st, kind) -> bool:
        return isinstance(st, kind) and (kind is ast.Continue or st.value is None or _is_none(st.value))

    def _tail_form(self, body, kind):
        """N11 on a statement list in tail position of a function (kind = Return) or of a loop body (kind = Continue)."""
        out = list(body)
        while out and self._bare(out[-1], kind):
            out.pop()
        for i, st in enumerate(out):
            if not isinstance(st, ast.If):
                continue
            b_bare = bool(st.body) and self._bare(st.body[-1], kind)
            e_bare = bool(st.orelse) and self._bare(st.orelse[-1], kind)
            last = i == len(out) - 1
            if not (b_bare or e_bare):
                if last:
                    st.body = self._tail_form(st.body, kind) or [ast.copy_location(ast.Pass(), st)]
                    st.orelse = self._tail_form(st.orelse, kind)
                    self._polarity(st)
                continue
            rest = out[i + 1:]
            nb = st.body[:-1] if b_bare else st.body + ([] if _ends(st.body) else rest)
            ne = st.orelse[:-1] if e_bare else st.orelse + ([] if _ends(st.orelse) else rest)
            st.body = self._tail_form(nb, kind)
            st.orelse = self._tail_form(ne, kind)
            if not st.body and not st.orelse:
                st.body = [ast.copy_location(ast.Pass(), st)]
            self._polarity(st)
            return out[:i + 1]
        return out

    def _polarity(self, st):
        """an if produced by N11: empty body -> negated test; negative test with both arms -> positive test first"""
        if not st.body and st.orelse:
            st.test = self.visit(_negate(st.test))
            st.body, st.orelse = st.orelse, []
        if st.orelse and _is_negative(st.test) and not (len(st.orelse) == 1 and isinstance(st.orelse[0], ast.If)) \
                and _ends(st.body) == _ends(st.orelse):
            st.test = _negate(st.test)
            st.body, st.orelse = st.orelse, st.body
        if not st.body:
            st.body = [ast.copy_location(ast.Pass(), st)]

    # N24: a conditional expression at the head of an access path is the conditional expression of the two paths:
    #      (A if c else B).f(x)[k]  ==  A.f(x)[k] if c else B.f(x)[k]     (c is evaluated first either way, then the chosen head, then x, k)
    def visit_Attribute(self, node):
        self.generic_visit(node)
        v = node.value
        if isinstance(v, ast.IfExp) and isinstance(node.ctx, ast.Load):
            mk = lambda h: ast.copy_location(ast.Attribute(value=h, attr=node.attr, ctx=ast.Load()), node)
            return ast.copy_location(ast.IfExp(test=v.test, body=mk(v.body), orelse=mk(v.orelse)), node)
        return node

    def visit_Subscript(self, node):
        self.generic_visit(node)
        v = node.value
        if isinstance(v, ast.IfExp) and isinstance(node.ctx, ast.Load) and _plain(node.slice):
            mk = lambda h: ast.copy_location(ast.Subscript(value=h, slice=copy.deepcopy(node.slice), ctx=ast.Load()), node)
            return ast.copy_location(ast.IfExp(test=v.test, body=mk(v.body), orelse=mk(v.orelse)), node)
        return node

    def visit_Call(self, node):
        self.generic_visit(node)
        f = node.func
        if isinstance(f, ast.IfExp) and isinstance(f.body, ast.Attribute) and isinstance(f.orelse, ast.Attribute) and f.body.attr == f.orelse.attr \
                and all(_plain(a) for a in node.args) and all(k.arg and _plain(k.value) for k in node.keywords):
            mk = lambda h: ast.copy_location(ast.Call(func=h, args=copy.deepcopy(node.args), keywords=copy.deepcopy(node.keywords)), node)
            return ast.copy_location(ast.IfExp(test=f.test, body=mk(f.body), orelse=mk(f.orelse)), node)
        # all([..]) / any([..]) over a list comprehension read the same as over the generator
        if isinstance(node.func, ast.Name) and node.func.id in ("all", "any") and len(node.args) == 1 and not node.keywords and isinstance(node.args[0], ast.ListComp):
            lc = node.args[0]
            node.args = [ast.copy_location(ast.GeneratorExp(elt=lc.elt, generators=lc.generators), lc)]
        if isinstance(node.func, ast.Attribute) and node.func.attr == "get" and len(node.args) == 2 and not node.keywords and _is_none(node.args[1]):
            node.args = node.args[:1]
        if isinstance(node.func, ast.Name) and node.func.id == "isinstance" and len(node.args) == 2 and not node.keywords \
                and isinstance(node.args[1], ast.Tuple) and len(node.args[1].elts) >= 2 and _plain(node.args[0]):
            vals = [ast.copy_location(ast.Call(func=node.func, args=[node.args[0], t], keywords=[]), node) for t in node.args[1].elts]
            return ast.copy_location(ast.BoolOp(op=ast.Or(), values=vals), node)
        return node

    def visit_BoolOp(self, node):
        self.generic_visit(node)
        vals = []
        for v in node.values:
            if isinstance(v, ast.BoolOp) and type(v.op) is type(node.op):
                vals.extend(v.values)
            else:
                vals.append(v)
        node.values = vals
        return node

    def visit_UnaryOp(self, node):
        self.generic_visit(node)
        if isinstance(node.op, ast.Not) and isinstance(node.operand, ast.BoolOp):
            b = node.operand
            dual = ast.Or() if isinstance(b.op, ast.And) else ast.And()
            return self.visit_BoolOp(ast.copy_location(ast.BoolOp(op=dual, values=[self.visit(_negate(v)) for v in b.values]), node))
        if isinstance(node.op, ast.Not) and isinstance(node.operand, ast.UnaryOp) and isinstance(node.operand.op, ast.Not) and _boolish(node.operand.operand):
            return node.operand.operand
        if isinstance(node.op, ast.Not) and isinstance(node.operand, ast.Compare) and len(node.operand.ops) == 1 and type(node.operand.ops[0]) in _NEG:
            c = node.operand
            return ast.copy_location(ast.Compare(left=c.left, ops=[_NEG[type(c.ops[0])]()], comparators=c.comparators), node)
        return node

    def visit_BinOp(self, node):
        self.generic_visit(node)
        if isinstance(node.op, ast.Add):
            ps = _str_parts(node)
            if ps is not None and any(isinstance(x, ast.FormattedValue) for x in ps) and any(isinstance(x, ast.Constant) for x in ps):
                merged = []
                for x in ps:
                    if isinstance(x, ast.Constant) and merged and isinstance(merged[-1], ast.Constant):
                        merged[-1] = ast.Constant(value=merged[-1].value + x.value)
                    else:
                        merged.append(x)
                return ast.copy_location(ast.JoinedStr(values=merged), node)
        return node

    def visit_JoinedStr(self, node):
        self.generic_visit(node)
        # a hole that holds a string constant is literal text: f"{'/scripts'}/{x}" is f"/scripts/{x}"
        vals = []
        flat = []
        for v in node.values:
            # a hole that holds another f-string is that f-string's parts: f"{q}{f'{p}_tree'}{q}" is f"{q}{p}_tree{q}"
            if isinstance(v, ast.FormattedValue) and isinstance(v.value, ast.JoinedStr) and v.format_spec is None and v.conversion == -1:
                flat.extend(v.value.values)
            elif isinstance(v, ast.FormattedValue) and v.format_spec is None and v.conversion == -1 and isinstance(v.value, ast.Call) \
                    and isinstance(v.value.func, ast.Name) and v.value.func.id == "str" and len(v.value.args) == 1 and not v.value.keywords:
                flat.append(ast.copy_location(ast.FormattedValue(value=v.value.args[0], conversion=-1, format_spec=None), v))      # {str(x)} is {x}
            else:
                flat.append(v)
        for v in flat:
            if isinstance(v, ast.FormattedValue) and isinstance(v.value, ast.Constant) and isinstance(v.value.value, str) and v.format_spec is None \
                    and v.conversion == -1:
                v = ast.copy_location(ast.Constant(value=v.value.value), v)
            if isinstance(v, ast.Constant) and vals and isinstance(vals[-1], ast.Constant):
                vals[-1] = ast.copy_location(ast.Constant(value=vals[-1].value + v.value), vals[-1])
            else:
                vals.append(v)
        node.values = vals
        if len(vals) == 1 and isinstance(vals[0], ast.Constant):
            return ast.copy_location(ast.Constant(value=vals[0].value), node)
        if len(node.values) == 1 and isinstance(node.values[0], ast.FormattedValue) and node.values[0].format_spec is None \
                and node.values[0].conversion == -1:
            return ast.copy_location(ast.Call(func=ast.Name(id="str", ctx=ast.Load()), args=[node.values[0].value], keywords=[]), node)
        return node

    def visit_Assert(self, node):
        self.generic_visit(node)
        node.test = self._bool_pos(node.test)
        return node

    def _bool_pos(self, t):
        if isinstance(t, ast.BoolOp):
            t.values = [self._bool_pos(v) for v in t.values]
            return t
        if isinstance(t, ast.UnaryOp) and isinstance(t.op, ast.Not):
            inner = self._bool_pos(t.operand)
            if isinstance(inner, ast.UnaryOp) and isinstance(inner.op, ast.Not):
                return inner.operand if _boolish(inner.operand) or True else t      # in a boolean position `not not x` is `x`
            t.operand = inner
            return t
        return _truthy(t)

    def visit_If(self, node):
        self.generic_visit(node)
        node.test = self._bool_pos(node.test)
        while node.orelse and not (len(node.orelse) == 1 and isinstance(node.orelse[0], ast.If)) and not _ends(node.body) and not _ends(node.orelse):
            if not _is_negative(node.test):
                break
            node.test = _negate(node.test)
            node.body, node.orelse = node.orelse, node.body
        return node


def normalise(tree: ast.Module) -> ast.Module:
    from .constfold import fold_module_constants, unroll_registrars
    unroll_registrars(tree)                      # N27
    fold_module_constants(tree)                  # N26 (before N23: a folded table can be a dispatch table)
    from .dispatch import expand_table_dispatch
    expand_table_dispatch(tree)                  # N23
    prev = None
    for _ in range(5):                       # one form can complete the pattern of another: run to the fixed point
        tree = _Norm().visit(tree)
        ast.fix_missing_locations(tree)
        cur = ast.dump(tree)
        if cur == prev:
            break
        prev = cur
    return tree
