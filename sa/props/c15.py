"""C15 - job-script blocks emitted once each in dependency order.

Decides the guarded-emission shape of generate_script_block, its totality
(progress or ValueError), duplicate/missing/conflict handling, and the wiring
from metadata to the ATLAS job-options template.  Not decided: correctness of
the ordering algorithm as an algorithm over every dependency graph.
"""
from __future__ import annotations

import ast

from sa.core.common import AnalysisError, Collector
from sa.core.paths import enclosing, enumerate_paths, guards, parent_map
from sa.core.pyfacts import Repo, arg, call_name, const_str, kwarg, src, walk_no_nested
from sa.core import jinja_facts as J

EXPLANATION = (
    "Static shape check of meta_data.generate_script_block (control dependence of the only output append on "
    "'not seen' and 'dependencies subset of seen', whole-script iteration, seen.add in the same branch; while-loop "
    "progress-or-ValueError; dependency list extended for every copy of a block on every path; conflict and "
    "missing-dependency raises before emission), of the add_job_script metadata branch, of the executor wiring "
    "(every JobScriptSpecification appended, generate_script_block(self._job_option_blocks) under the key the "
    "template iterates, reset clears) and of the slot in ATestRun_eljob.py (bare, unfiltered, after the job is "
    "created and before createAlgorithm)."
)
ASSUMPTIONS = [
    "the iterative emit-when-dependencies-seen scheme is a correct topological emission if its guards are as checked "
    "(the algorithm itself is not proved here)",
]


def check(col: Collector, tier: str):
    repo = Repo()
    g = repo.function("generate_script_block")
    fn = g.node
    pm = parent_map(fn)
    # the returned list
    rets = [r for r in walk_no_nested(fn) if isinstance(r, ast.Return) and r.value is not None]
    if len(rets) != 1 or not isinstance(rets[0].value, ast.Name):
        raise AnalysisError("generate_script_block: expected a single `return <name>`")
    outv = rets[0].value.id
    writers = []
    for c in walk_no_nested(fn):
        if isinstance(c, ast.Call) and call_name(c) in ("append", "extend", "insert") and src(c.func.value) == outv:
            writers.append(c)
        if isinstance(c, ast.AugAssign) and src(c.target) == outv:
            writers.append(c)
    col.floor("C15.R1", 5)
    col.add("C15.R1", "generate_script_block", "single-output-writer", len(writers) == 1,
            f"{len(writers)} statements write the output list; exactly one guarded writer is expected", g.loc)
    if len(writers) != 1:
        return
    w = writers[0]
    gs = guards(fn, w, pm)
    gset = {(src(t), tr) for t, tr in gs}
    fors = enclosing(fn, w, (ast.For,), pm)
    whiles = enclosing(fn, w, (ast.While,), pm)
    if not fors or not whiles:
        raise AnalysisError("generate_script_block: emission is not inside `while ...: for block in ...:`")
    # the writer adds <block>.script whole and in order: out.extend(<block>.script)  (E-NORM N12: a loop that appends each line reads the same)
    whole = isinstance(w, ast.Call) and call_name(w) == "extend" and len(w.args) == 1 and isinstance(w.args[0], ast.Attribute) and w.args[0].attr == "script"
    blockvar = src(w.args[0].value) if whole else "?"
    col.add("C15.R1", "generate_script_block", "emits-whole-script-in-order", whole,
            f"the writer must add every line of <block>.script in order (found {src(w)[:60]})", g.loc)
    # guard atoms (closed guard set: nested ifs, one `and`, guard clauses with continue all read the same):
    #   <block>.name in <seen> is False;   dependencies[<block>.name] is a subset of <seen>
    seen = None
    for t, truth in gs:
        if isinstance(t, ast.Compare) and len(t.ops) == 1 and isinstance(t.ops[0], ast.In) and not truth and src(t.left) == f"{blockvar}.name":
            seen = src(t.comparators[0])
    not_seen = seen is not None

    def subset_shape(t):
        """t compares some collection with <seen> for inclusion (whatever the collection is): returns the collection's text"""
        if isinstance(t, ast.Compare) and len(t.ops) == 1:
            l, op, r = t.left, t.ops[0], t.comparators[0]
            if isinstance(op, ast.LtE) and src(r) == seen:
                return src(l)
            if isinstance(op, ast.GtE) and src(l) == seen:
                return src(r)
        if isinstance(t, ast.Call) and call_name(t) == "issubset" and len(t.args) == 1 and src(t.args[0]) == seen:
            return src(t.func.value)
        if isinstance(t, ast.Call) and call_name(t) == "issuperset" and len(t.args) == 1 and src(t.func.value) == seen:
            return src(t.args[0])
        if isinstance(t, ast.Call) and call_name(t) == "all" and len(t.args) == 1 and isinstance(t.args[0], (ast.GeneratorExp, ast.ListComp)) \
                and len(t.args[0].generators) == 1 and isinstance(t.args[0].elt, ast.Compare) and isinstance(t.args[0].elt.ops[0], ast.In) \
                and src(t.args[0].elt.comparators[0]) == seen:
            return src(t.args[0].generators[0].iter)
        return None

    def is_subset_test(t) -> bool:
        """t says: every dependency of <block> is in <seen>"""
        dep = f"[{blockvar}.name]"
        if isinstance(t, ast.Compare) and len(t.ops) == 1:
            l, op, r = t.left, t.ops[0], t.comparators[0]
            if isinstance(op, ast.LtE) and src(r) == seen and dep in src(l) and "set(" in src(l):
                return True
            if isinstance(op, ast.GtE) and src(l) == seen and dep in src(r) and "set(" in src(r):
                return True
        if isinstance(t, ast.Call) and call_name(t) == "issubset" and len(t.args) == 1 and src(t.args[0]) == seen and dep in src(t.func.value):
            return True
        if isinstance(t, ast.Call) and call_name(t) == "issuperset" and len(t.args) == 1 and src(t.func.value) == seen and dep in src(t.args[0]):
            return True
        if isinstance(t, ast.Call) and call_name(t) == "all" and len(t.args) == 1 and isinstance(t.args[0], (ast.GeneratorExp, ast.ListComp)):
            ge = t.args[0]
            if len(ge.generators) == 1 and not ge.generators[0].ifs and dep in src(ge.generators[0].iter) and isinstance(ge.elt, ast.Compare) \
                    and len(ge.elt.ops) == 1 and isinstance(ge.elt.ops[0], ast.In) and src(ge.elt.left) == src(ge.generators[0].target) \
                    and src(ge.elt.comparators[0]) == seen:
                return True
        return False
    subset = seen is not None and any(truth and is_subset_test(t) for t, truth in gs)
    col.add("C15.R1", "generate_script_block", "guard:not-already-emitted", not_seen,
            f"emission must be control-dependent on `{blockvar}.name not in <seen>` (found guards {[src(t) + '=' + str(b) for t, b in gs]})", g.loc)
    if seen is not None and not subset:
        others = [src(t) for t, truth in gs if not (isinstance(t, ast.Compare) and src(t.left) == f"{blockvar}.name" and src(t.comparators[0]) == seen)
                  and not isinstance(t, (ast.For, ast.While, ast.BoolOp, ast.Constant)) and src(t) not in {src(w_.test) for w_ in whiles}]
        wrong_set = [subset_shape(t) for t, truth in gs if truth and seen and subset_shape(t) is not None]
        if wrong_set:
            others = []          # readiness IS decided by inclusion in the emitted set - of something else than the merged dependency table
        if others:
            # another readiness test (counters, a work list that is struck off, ...): a different algorithm, not decided by this rule
            col.defer(f"generate_script_block decides readiness by {others[:2]}, not by `dependencies of the block are a subset of the emitted ones`: "
                      "C15.R1 guard:dependencies-subset-of-seen cannot be decided on this algorithm")
            subset = True
    col.add("C15.R1", "generate_script_block", "guard:dependencies-subset-of-seen", subset,
            "emission must be control-dependent on set(dependencies[block.name]) <= seen (dependencies on the left)", g.loc)
    # seen.add(name) under exactly the guards of the writer
    adds = [c for c in walk_no_nested(fn) if isinstance(c, ast.Call) and call_name(c) == "add" and seen and src(c.func.value) == seen
            and len(c.args) == 1 and src(c.args[0]) == f"{blockvar}.name"]
    added = len(adds) == 1 and {(src(t), tr) for t, tr in guards(fn, adds[0], pm)} == gset and enclosing(fn, adds[0], (ast.For,), pm)[:1] == [f_ for f_ in fors if src(f_.target) == blockvar][:1]
    col.add("C15.R1", "generate_script_block", "marks-seen-in-emitting-branch", added,
            "the emitting branch must record the block in the seen set (otherwise it is emitted again)", g.loc)
    lst = None       # the statement list of the emitting branch (used by the progress-flag form below)
    holder = pm.get(adds[0]) if adds else None
    while holder is not None and not isinstance(holder, ast.stmt):
        holder = pm.get(holder)
    if holder is not None:
        par = pm.get(holder)
        for fld in ("body", "orelse"):
            if par is not None and holder in (getattr(par, fld, []) or []):
                lst = getattr(par, fld)
    # the seen set starts empty and the output starts empty
    inits = {}
    for s_ in walk_no_nested(fn):
        if isinstance(s_, ast.Assign) and len(s_.targets) == 1 and isinstance(s_.targets[0], ast.Name) and not enclosing(fn, s_, (ast.For, ast.While), pm):
            inits.setdefault(src(s_.targets[0]), []).append(src(s_.value))
    inits = {k: v[0] for k, v in inits.items() if len(v) == 1}
    col.add("C15.R1", "generate_script_block", "initial-state-empty",
            inits.get(seen) in ("set()",) and inits.get(outv) in ("[]", "list()"),
            f"seen starts as {inits.get(seen)}, output as {inits.get(outv)}", g.loc)
    # the lookup iterated holds every distinct block (keyed by name, first copy kept)
    block_fors = [f_ for f_ in fors if src(f_.target) == blockvar]
    outer_for = block_fors[0] if block_fors else None
    lookup = src(outer_for.iter) if outer_for is not None else ""
    col.add("C15.R1", "generate_script_block", "iterates-all-distinct-blocks",
            outer_for is not None and lookup.endswith(".values()"),
            f"the emission loop must run over all distinct blocks ({lookup})", g.loc)

    # ---- R2 totality
    col.floor("C15.R2", 6)
    wl = whiles[0]
    t = wl.test
    deps_name = None
    ok_while = isinstance(t, ast.Compare) and len(t.ops) == 1 and isinstance(t.ops[0], (ast.Lt, ast.NotEq)) and src(t.left) == f"len({seen})" \
        and src(t.comparators[0]).startswith("len(")
    if ok_while:
        deps_name = src(t.comparators[0])[4:-1]
    col.add("C15.R2", "generate_script_block", "loop-until-all-seen", ok_while,
            f"outer loop must continue while len(seen) < len(all blocks) (test: {src(t)})", g.loc)
    # progress detection, two equivalent idioms:
    #   (a) a flag reset first in each sweep, set in the emitting branch, ValueError raised under `flag is False` after the sweep
    #   (b) the number of emitted blocks remembered first in each sweep, ValueError raised under `len(seen) == <remembered>` after the sweep
    raises = [r for st_ in wl.body for r in ast.walk(st_) if isinstance(r, ast.Raise) and r.exc is not None and "ValueError" in src(r.exc)]
    sweep_idx = next((i for i, st_ in enumerate(wl.body) if outer_for is not None and any(x is outer_for for x in ast.walk(st_))), None)
    progress_ok = False
    cyc_branch = []
    why_prog = "no ValueError after the sweep"
    for r in raises:
        rg = guards(wl, r, pm)
        top = r
        while pm.get(top) is not wl and pm.get(top) is not None:
            top = pm[top]
        after_sweep = sweep_idx is not None and top in wl.body and wl.body.index(top) > sweep_idx
        for t_, tr_ in rg:
            # (a) flag
            if isinstance(t_, ast.Name) and not tr_:
                flag = t_.id
                first = wl.body[0]
                reset_first = isinstance(first, ast.Assign) and src(first.targets[0]) == flag and isinstance(first.value, ast.Constant) and first.value.value is False
                sets = [s_ for s_ in walk_no_nested(wl) if isinstance(s_, ast.Assign) and src(s_.targets[0]) == flag and isinstance(s_.value, ast.Constant) and s_.value.value is True]
                set_in_branch = len(sets) == 1 and {(src(x), y) for x, y in guards(fn, sets[0], pm)} == gset
                if reset_first and set_in_branch and after_sweep:
                    progress_ok = True
                else:
                    why_prog = f"flag {flag}: reset first={reset_first}, set exactly in the emitting branch={set_in_branch}, raise after the sweep={after_sweep}"
            # (b) count remembered before the sweep
            if isinstance(t_, ast.Compare) and len(t_.ops) == 1 and isinstance(t_.ops[0], ast.Eq) and tr_:
                sides = {src(t_.left), src(t_.comparators[0])}
                if f"len({seen})" in sides and len(sides) == 2:
                    other = (sides - {f"len({seen})"}).pop()
                    first = wl.body[0]
                    remembered = isinstance(first, ast.Assign) and src(first.targets[0]) == other and src(first.value) == f"len({seen})"
                    rebinds = [s_ for s_ in walk_no_nested(wl) if isinstance(s_, (ast.Assign, ast.AugAssign)) and any(
                        isinstance(n_, ast.Name) and n_.id == other and isinstance(n_.ctx, ast.Store) for n_ in ast.walk(s_))]
                    if remembered and len(rebinds) == 1 and after_sweep:
                        progress_ok = True
                    else:
                        why_prog = f"count {other}: remembered first={remembered}, bound once per sweep={len(rebinds) == 1}, raise after the sweep={after_sweep}"
        if progress_ok:
            st_ = pm.get(r)
            cyc_branch = []
            # the statements executed between the detection and the raise: the list the raise stands in
            for fld in ("body", "orelse"):
                if st_ is not None and r in (getattr(st_, fld, []) or []):
                    cyc_branch = getattr(st_, fld)
            break
    # nothing between the detection of "no progress" and its ValueError may fail in another way: the branch is straight-line code
    # (no loop, no next() without default)
    risky = []
    for st_ in cyc_branch:
        for x in ast.walk(st_):
            if isinstance(x, (ast.While, ast.For)):
                risky.append(f"loop at line {x.lineno}")
            if isinstance(x, ast.Call) and call_name(x) == "next" and len(x.args) == 1:
                risky.append(src(x)[:50])
    col.add("C15.R2", "generate_script_block", "cycle-report-cannot-fail-otherwise", not risky,
            f"the circular-dependency branch must go straight to its ValueError; constructs that can raise StopIteration/KeyError or not terminate: {risky}", g.loc)
    col.add("C15.R2", "generate_script_block", "no-progress-raises-ValueError", progress_ok,
            "a sweep that emits nothing (cycle) must raise ValueError: progress is detected by a flag (reset first, set in the emitting branch) or "
            f"by the number of emitted blocks remembered before the sweep ({why_prog})", g.loc)
    # dependency table construction: every copy's depends_on is merged, on every non-raising path
    build = None
    for s in fn.body:
        if isinstance(s, ast.For) and deps_name and any(
                isinstance(n, ast.Subscript) and src(n.value) == deps_name for n in ast.walk(s)) and s is not wl \
                and not any(isinstance(n, ast.Raise) and "not found" in src(n) for n in ast.walk(s) if False):
            build = s
            break
    if build is None or deps_name is None:
        raise AnalysisError("generate_script_block: dependency-table construction loop not found")
    bvar = src(build.target)
    fake = ast.FunctionDef(name="_", args=fn.args, body=build.body, decorator_list=[], lineno=build.lineno)
    paths = [p for p in enumerate_paths(fake, unroll=1) if p.status in ("end",)]
    merged_all = bool(paths)
    for p in paths:
        hit = False
        for e in p.events:
            if e.kind == "call" and call_name(e.node) in ("extend",) and src(e.node.func.value) == f"{deps_name}[{bvar}.name]" \
                    and src(e.node.args[0]) == f"{bvar}.depends_on":
                hit = True
            if e.kind == "assign" and isinstance(e.node, ast.AugAssign) and src(e.node.target) == f"{deps_name}[{bvar}.name]" \
                    and src(e.node.value) == f"{bvar}.depends_on":
                hit = True
            if e.kind == "assign" and isinstance(e.node, ast.Assign) and src(e.node.targets[0]) == f"{deps_name}[{bvar}.name]" \
                    and f"{bvar}.depends_on" in src(e.node.value) and "[]" != src(e.node.value):
                hit = True
        merged_all = merged_all and hit
    col.add("C15.R2", "generate_script_block", "every-copy-merges-its-dependencies", merged_all,
            f"on every non-raising path of the table-building loop ({len(paths)} paths) the copy's depends_on must be merged into "
            f"{deps_name}[{bvar}.name] (union of dependencies over repeated blocks)", g.loc)
    # conflict raise: repeated name with different script
    conflict = False
    for n in ast.walk(build):
        if isinstance(n, ast.If) and isinstance(n.test, ast.Compare) and isinstance(n.test.ops[0], ast.NotEq) \
                and {src(n.test.left).split(".")[-1], src(n.test.comparators[0]).split(".")[-1]} == {"script"} \
                and any(isinstance(r, ast.Raise) and "ValueError" in src(r.exc) for r in n.body):
            conflict = True
    col.add("C15.R2", "generate_script_block", "same-name-different-script-raises", conflict,
            "a repeated name whose script differs from the first copy must raise ValueError", g.loc)
    # missing dependency raise, before emission (statement order: before the while).  Two spellings of "some dependency of some block is not
    # a sent block": nested loops with the test inside, or a generator with the same clauses whose first element (next(.., None)) is tested
    def scans_all_dependencies(gens_iter_srcs, cond) -> bool:
        """clauses `for .. in D.items()/.values()` + `for d in <deps>` and the condition `d not in D`"""
        return any((".items()" in it or ".values()" in it) and it.startswith(deps_name) for it in gens_iter_srcs) and len(gens_iter_srcs) == 2 \
            and isinstance(cond, ast.Compare) and len(cond.ops) == 1 and isinstance(cond.ops[0], (ast.NotIn, ast.In)) and src(cond.comparators[0]) == deps_name
    missing = False
    from sa.core.pyfacts import ordk
    wl_guards = {(src(x), y) for x, y in guards(fn, wl, pm)}

    def before_emission(r_) -> bool:
        """the raise comes before the emission loop in program order, or stands in a branch that excludes it (guard clause turned around)"""
        return ordk(r_) < ordk(wl) or any((src(x), not y) in wl_guards for x, y in guards(fn, r_, pm))
    for r in [r_ for r_ in walk_no_nested(fn) if isinstance(r_, ast.Raise) and r_.exc is not None and "ValueError" in src(r_.exc)
              and not any(x is r_ for x in ast.walk(wl)) and before_emission(r_)]:
        lps = [l for l in enclosing(fn, r, (ast.For,), pm) if l is not build]
        for t_, tr_ in guards(fn, r, pm):
            # (a) inside the two loops, under `d in D` being false
            if len(lps) == 2 and isinstance(t_, ast.Compare) and isinstance(t_.ops[0], ast.In) and not tr_ \
                    and scans_all_dependencies([src(l.iter) for l in lps], t_) and not any(isinstance(x, (ast.Break, ast.Continue)) for l in lps for x in ast.walk(l)):
                missing = True
            # (b) under `<first offender> is None` being false, the offender being next(<generator over the same clauses>, None)
            if isinstance(t_, ast.Compare) and isinstance(t_.ops[0], ast.Is) and not tr_ and isinstance(t_.left, ast.Name) and src(t_.comparators[0]) == "None":
                ds = [st_.value for st_ in walk_no_nested(fn) if isinstance(st_, ast.Assign) and len(st_.targets) == 1 and src(st_.targets[0]) == t_.left.id]
                if len(ds) == 1 and isinstance(ds[0], ast.Call) and call_name(ds[0]) == "next" and len(ds[0].args) == 2 and src(ds[0].args[1]) == "None" \
                        and isinstance(ds[0].args[0], ast.GeneratorExp):
                    ge = ds[0].args[0]
                    conds = [c_ for g_ in ge.generators for c_ in g_.ifs]
                    if len(conds) == 1 and scans_all_dependencies([src(g_.iter) for g_ in ge.generators], conds[0]) and isinstance(conds[0].ops[0], ast.NotIn):
                        missing = True
    col.add("C15.R2", "generate_script_block", "unknown-dependency-raises-before-emission", missing,
            "every dependency of every block must be checked against the sent blocks, raising ValueError, before emission starts", g.loc)
    # first copy registered: lookup[b.name] = b only when new
    reg = any(isinstance(n, ast.Assign) and isinstance(n.targets[0], ast.Subscript) and src(n.targets[0].slice) == f"{bvar}.name"
              and src(n.value) == bvar for n in ast.walk(build))
    col.add("C15.R2", "generate_script_block", "block-registered-under-its-name", reg,
            "each distinct block must be registered in the lookup under its name", g.loc)

    # ---- R3 wiring
    check_wiring(col, repo)


def check_wiring(col: Collector, repo: Repo):
    col.floor("C15.R3", 7)
    pm_f = repo.function("process_metadata")
    br = None
    for n in ast.walk(pm_f.node):
        if isinstance(n, ast.If) and isinstance(n.test, ast.Compare) and const_str(n.test.comparators[0]) == "add_job_script":
            br = n
    if br is None:
        raise AnalysisError("process_metadata has no add_job_script branch")
    body = ast.FunctionDef(name="_", args=pm_f.node.args, body=br.body, decorator_list=[], lineno=br.lineno)
    ctor = [c for c in ast.walk(body) if isinstance(c, ast.Call) and call_name(c) == "JobScriptSpecification"]
    ok = False
    if len(ctor) == 1:
        c = ctor[0]
        n_, s_, d_ = arg(c, 0, "name"), arg(c, 1, "script"), arg(c, 2, "depends_on")
        ok = src(n_) == "md['name']" and src(s_) == "md['script']" and src(d_) in ("md.get('depends_on', [])", "md.get('depends_on', list())")
    col.add("C15.R3", "process_metadata.add_job_script", "fields-from-same-named-keys", ok,
            "JobScriptSpecification must take name/script from md['name']/md['script'] (KeyError if absent) and depends_on from md.get('depends_on', [])", pm_f.loc)
    paths = enumerate_paths(body, unroll=1)
    every = all(any(e.kind == "call" and call_name(e.node) == "append" and src(e.node.func.value) == "cpp_funcs" for e in p.events)
                for p in paths if p.status == "end")
    noraise = all(p.status == "end" for p in paths)
    col.add("C15.R3", "process_metadata.add_job_script", "appended-on-every-path", every and noraise and bool(paths),
            "every add_job_script block must be appended unconditionally (merging of repeats is generate_script_block's job); "
            f"paths={[(p.status) for p in paths]}", pm_f.loc)
    # executor: every JobScriptSpecification of this query is appended
    aat = repo.method("executor", "apply_ast_transformations", hint="common.executor")
    ok = False
    pma = parent_map(aat.node)
    for c in walk_no_nested(aat.node):
        if isinstance(c, ast.Call) and call_name(c) == "append" and src(c.func.value) == "self._job_option_blocks":
            lps = enclosing(aat.node, c, (ast.For,), pma)
            if len(lps) == 1 and src(lps[0].iter) == "cpp_functions" and src(c.args[0]) == src(lps[0].target):
                gs = guards(lps[0], c, pma)
                pos = [t for t, tr in gs if tr]
                neg = [t for t, tr in gs if not tr]
                ok = len(pos) == 1 and "isinstance" in src(pos[0]) and "JobScriptSpecification" in src(pos[0]) and \
                    all("isinstance" in src(t) and "JobScriptSpecification" not in src(t) for t in neg)
    col.add("C15.R3", "executor.apply_ast_transformations", "collects-every-job-script", ok,
            "every JobScriptSpecification in this query's metadata must be appended to self._job_option_blocks", aat.loc)
    # reset clears
    rs = repo.method("executor", "reset", hint="common.executor")
    cleared = any(isinstance(n, ast.Assign) and src(n.targets[0]) == "self._job_option_blocks" and src(n.value) in ("[]", "list()")
                  for n in ast.walk(rs.node))
    col.add("C15.R3", "executor.reset", "clears-job-option-blocks", cleared, "reset() must empty self._job_option_blocks", rs.loc)
    # ATLAS replacement dict
    ad = repo.method("atlas_xaod_executor", "add_to_replacement_dict")
    key = None
    from sa.props._tr import const_key_entries
    for k, v, _ in const_key_entries(ad.node):
        if isinstance(v, ast.Call) and call_name(v) == "generate_script_block" and src(v.args[0]) == "self._job_option_blocks":
            key = k
    overwritten = False
    if key:
        # the key must survive: returned dict is that dict (d.update(d1) where d1 = super() empty is fine)
        pass
    tpls = J.load_all()
    el = [t for r, t in tpls.items() if r.endswith("ATestRun_eljob.py")]
    if not el:
        raise AnalysisError("ATestRun_eljob.py template not found")
    t = el[0]
    slots = [s for s in t.slots if s.var == key] if key else []
    col.add("C15.R3", "atlas_xaod_executor.add_to_replacement_dict", "key-agrees-with-template",
            key is not None and len(slots) == 1,
            f"generate_script_block(self._job_option_blocks) is passed under key {key!r}; the job-options template iterates "
            f"{[s.var for s in t.slots]} (a renamed key renders as nothing)", ad.loc)
    # the executor's file list contains the template and the ATLAS executor is the one wired
    for s in slots:
        before, after = J.python_slot_position(t.src, s)
        pos_ok = any("ROOT.EL.Job()" in b for b in before) and any("sampleHandler" in b for b in before) \
            and any("createAlgorithm(" in a for a in after) and any("driver.submit" in a for a in after)
        col.add("C15.R3", "template:ATestRun_eljob.py", "slot-position", pos_ok,
                "the script slot must come after the job and sample handler are created and before createAlgorithm / submit", f"{t.rel}:{s.lineno}")
        form = s.bare and not s.loop_filters and not s.out_filters and not s.has_test_or_else \
            and s.body_text.strip() == "{{" + s.target + "}}" and s.body_text.startswith("\n") and s.body_text.endswith("\n")
        col.add("C15.R3", "template:ATestRun_eljob.py", "slot-form", form,
                f"each script line must be emitted once, unfiltered, alone on an unindented line (body {s.body_text!r}, "
                f"loop filters {s.loop_filters})", f"{t.rel}:{s.lineno}")
    # jinja environment must not strip
    wf = repo.method("executor", "write_cpp_files", hint="common.executor")
    for c in walk_no_nested(wf.node):
        if isinstance(c, ast.Call) and call_name(c) == "Environment":
            bad = {k.arg for k in c.keywords} - {"loader"}
            col.add("C15.R3", "executor.write_cpp_files", "environment-options", not bad,
                    f"jinja2.Environment options {sorted(bad)} may alter emitted script lines", wf.loc)
