"""C15 - job-script blocks emitted once each in dependency order.

Decides the guarded-emission shape of generate_script_block, its totality
(progress or ValueError), duplicate/missing/conflict handling, and the wiring
from metadata to the ATLAS job-options template.  Not decided: correctness of
the ordering algorithm as an algorithm over every dependency graph.
"""
from __future__ import annotations

import ast

from sa.core.common import AnalysisError, Collector
from sa.core.paths import enclosing, enumerate_paths, guards, parent_map
from sa.core.pyfacts import Repo, arg, call_name, const_str, kwarg, src, walk_no_nested
from sa.core import jinja_facts as J

EXPLANATION = (
    "Static shape check of meta_data.generate_script_block (control dependence of the only output append on "
    "'not seen' and 'dependencies subset of seen', whole-script iteration, seen.add in the same branch; while-loop "
    "progress-or-ValueError; dependency list extended for every copy of a block on every path; conflict and "
    "missing-dependency raises before emission), of the add_job_script metadata branch, of the executor wiring "
    "(every JobScriptSpecification appended, generate_script_block(self._job_option_blocks) under the key the "
    "template iterates, reset clears) and of the slot in ATestRun_eljob.py (bare, unfiltered, after the job is "
    "created and before createAlgorithm)."
)
ASSUMPTIONS = [
    "the iterative emit-when-dependencies-seen scheme is a correct topological emission if its guards are as checked "
    "(the algorithm itself is not proved here)",
]


def check(col: Collector, tier: str):
    repo = Repo()
    g = repo.function("generate_script_block")
    fn = g.node
    pm = parent_map(fn)
    # the returned list
    rets = [r for r in walk_no_nested(fn) if isinstance(r, ast.Return) and r.value is not None]
    if len(rets) != 1 or not isinstance(rets[0].value, ast.Name):
        raise AnalysisError("generate_script_block: expected a single `return <name>`")
    outv = rets[0].value.id
    writers = []
    for c in walk_no_nested(fn):
        if isinstance(c, ast.Call) and call_name(c) in ("append", "extend", "insert") and src(c.func.value) == outv:
            writers.append(c)
        if isinstance(c, ast.AugAssign) and src(c.target) == outv:
            writers.append(c)
    col.floor("C15.R1", 5)
    col.add("C15.R1", "generate_script_block", "single-output-writer", len(writers) == 1,
            f"{len(writers)} statements write the output list; exactly one guarded writer is expected", g.loc)
    if len(writers) != 1:
        return
    w = writers[0]
    gs = guards(fn, w, pm)
    # identify the block variable: the for-loop enclosing the guards that iterates the lookup table
    fors = enclosing(fn, w, (ast.For,), pm)
    whiles = enclosing(fn, w, (ast.While,), pm)
    if not fors or not whiles:
        raise AnalysisError("generate_script_block: emission is not inside `while ...: for block in ...:`")
    # the writer adds <block>.script whole and in order: out.extend(<block>.script)  (E-NORM N12: a loop that appends each line reads the same)
    whole = isinstance(w, ast.Call) and call_name(w) == "extend" and len(w.args) == 1 and isinstance(w.args[0], ast.Attribute) and w.args[0].attr == "script"
    blockvar = src(w.args[0].value) if whole else "?"
    inner = pm[w]            # the statement that holds the writer (its siblings are the emitting branch)
    fors = [inner] + list(fors)
    col.add("C15.R1", "generate_script_block", "emits-whole-script-in-order", whole,
            f"the writer must add every line of <block>.script in order (found {src(w)[:60]})", g.loc)
    # guards: not in seen ; set(deps[name]) <= seen
    seen = None
    not_seen = False
    subset = False
    for t, truth in gs:
        if isinstance(t, ast.Compare) and len(t.ops) == 1:
            l, op, r = t.left, t.ops[0], t.comparators[0]
            if isinstance(op, ast.NotIn) and truth and src(l) == f"{blockvar}.name":
                not_seen, seen = True, src(r)
            if isinstance(op, ast.In) and not truth and src(l) == f"{blockvar}.name":
                not_seen, seen = True, src(r)
    for t, truth in gs:
        if isinstance(t, ast.Compare) and len(t.ops) == 1 and seen:
            l, op, r = t.left, t.ops[0], t.comparators[0]
            dep_expr = f"[{blockvar}.name]"
            if truth and isinstance(op, ast.LtE) and src(r) == seen and dep_expr in src(l) and "set(" in src(l):
                subset = True
            if truth and isinstance(op, ast.GtE) and src(l) == seen and dep_expr in src(r) and "set(" in src(r):
                subset = True
        if isinstance(t, ast.Call) and call_name(t) == "issubset" and truth and seen and src(t.args[0]) == seen \
                and f"[{blockvar}.name]" in src(t.func.value):
            subset = True
    col.add("C15.R1", "generate_script_block", "guard:not-already-emitted", not_seen,
            f"emission must be control-dependent on `{blockvar}.name not in <seen>` (found guards {[src(t) + '=' + str(b) for t, b in gs]})", g.loc)
    col.add("C15.R1", "generate_script_block", "guard:dependencies-subset-of-seen", subset,
            "emission must be control-dependent on set(dependencies[block.name]) <= seen (dependencies on the left)", g.loc)
    # seen.add(name) in the same branch as the writer (sibling of the inner for)
    branch = pm[inner]
    lst = None
    for fld in ("body", "orelse"):
        if inner in getattr(branch, fld, []):
            lst = getattr(branch, fld)
    added = lst is not None and any(
        isinstance(s, ast.Expr) and isinstance(s.value, ast.Call) and call_name(s.value) == "add"
        and src(s.value.func.value) == seen and src(s.value.args[0]) == f"{blockvar}.name" for s in lst)
    col.add("C15.R1", "generate_script_block", "marks-seen-in-emitting-branch", added,
            "the emitting branch must record the block in the seen set (otherwise it is emitted again)", g.loc)
    # the seen set starts empty and the output starts empty
    inits = {src(s.targets[0]): src(s.value) for s in fn.body if isinstance(s, ast.Assign)}
    col.add("C15.R1", "generate_script_block", "initial-state-empty",
            inits.get(seen) in ("set()",) and inits.get(outv) in ("[]", "list()"),
            f"seen starts as {inits.get(seen)}, output as {inits.get(outv)}", g.loc)
    # the lookup iterated holds every distinct block (keyed by name, first copy kept)
    outer_for = fors[1] if len(fors) > 1 else None
    lookup = src(outer_for.iter) if outer_for is not None else ""
    col.add("C15.R1", "generate_script_block", "iterates-all-distinct-blocks",
            outer_for is not None and lookup.endswith(".values()") and src(outer_for.target) == blockvar,
            f"the emission loop must run over all distinct blocks ({lookup})", g.loc)

    # ---- R2 totality
    col.floor("C15.R2", 6)
    wl = whiles[0]
    t = wl.test
    deps_name = None
    ok_while = isinstance(t, ast.Compare) and isinstance(t.ops[0], ast.Lt) and src(t.left) == f"len({seen})" \
        and src(t.comparators[0]).startswith("len(")
    if ok_while:
        deps_name = src(t.comparators[0])[4:-1]
    col.add("C15.R2", "generate_script_block", "loop-until-all-seen", ok_while,
            f"outer loop must continue while len(seen) < len(all blocks) (test: {src(t)})", g.loc)
    # progress flag
    flag = None
    for s in wl.body:
        if isinstance(s, ast.Assign) and isinstance(s.value, ast.Constant) and s.value.value is False:
            flag = src(s.targets[0])
            break
    set_true = flag is not None and lst is not None and any(
        isinstance(s, ast.Assign) and src(s.targets[0]) == flag and isinstance(s.value, ast.Constant) and s.value.value is True for s in lst)
    raise_ok = False
    for s in wl.body:
        if isinstance(s, ast.If) and flag and src(s.test) == f"not {flag}":
            raise_ok = any(isinstance(r, ast.Raise) and r.exc is not None and "ValueError" in src(r.exc) for r in ast.walk(s))
    first_is_reset = flag is not None and isinstance(wl.body[0], ast.Assign) and src(wl.body[0].targets[0]) == flag
    # nothing between the detection of "no progress" and its ValueError may fail in another way: the branch is straight-line code
    # (no loop, no next() without default, no indexing of the dependency tables by a computed key)
    risky = []
    for s in wl.body:
        if isinstance(s, ast.If) and flag and src(s.test) in (f"not {flag}", flag):
            br = s.body if src(s.test) == f"not {flag}" else s.orelse
            for st_ in br:
                for x in ast.walk(st_):
                    if isinstance(x, (ast.While, ast.For)):
                        risky.append(f"loop at line {x.lineno}")
                    if isinstance(x, ast.Call) and call_name(x) == "next" and len(x.args) == 1:
                        risky.append(src(x)[:50])
    col.add("C15.R2", "generate_script_block", "cycle-report-cannot-fail-otherwise", not risky,
            f"the circular-dependency branch must go straight to its ValueError; constructs that can raise StopIteration/KeyError or not terminate: {risky}", g.loc)
    col.add("C15.R2", "generate_script_block", "no-progress-raises-ValueError", bool(flag) and set_true and raise_ok and first_is_reset,
            "each sweep must reset a progress flag first, set it in the emitting branch, and raise ValueError when a sweep emits nothing (cycle)", g.loc)
    # dependency table construction: every copy's depends_on is merged, on every non-raising path
    build = None
    for s in fn.body:
        if isinstance(s, ast.For) and deps_name and any(
                isinstance(n, ast.Subscript) and src(n.value) == deps_name for n in ast.walk(s)) and s is not wl \
                and not any(isinstance(n, ast.Raise) and "not found" in src(n) for n in ast.walk(s) if False):
            build = s
            break
    if build is None or deps_name is None:
        raise AnalysisError("generate_script_block: dependency-table construction loop not found")
    bvar = src(build.target)
    fake = ast.FunctionDef(name="_", args=fn.args, body=build.body, decorator_list=[], lineno=build.lineno)
    paths = [p for p in enumerate_paths(fake, unroll=1) if p.status in ("end",)]
    merged_all = bool(paths)
    for p in paths:
        hit = False
        for e in p.events:
            if e.kind == "call" and call_name(e.node) in ("extend",) and src(e.node.func.value) == f"{deps_name}[{bvar}.name]" \
                    and src(e.node.args[0]) == f"{bvar}.depends_on":
                hit = True
            if e.kind == "assign" and isinstance(e.node, ast.AugAssign) and src(e.node.target) == f"{deps_name}[{bvar}.name]" \
                    and src(e.node.value) == f"{bvar}.depends_on":
                hit = True
            if e.kind == "assign" and isinstance(e.node, ast.Assign) and src(e.node.targets[0]) == f"{deps_name}[{bvar}.name]" \
                    and f"{bvar}.depends_on" in src(e.node.value) and "[]" != src(e.node.value):
                hit = True
        merged_all = merged_all and hit
    col.add("C15.R2", "generate_script_block", "every-copy-merges-its-dependencies", merged_all,
            f"on every non-raising path of the table-building loop ({len(paths)} paths) the copy's depends_on must be merged into "
            f"{deps_name}[{bvar}.name] (union of dependencies over repeated blocks)", g.loc)
    # conflict raise: repeated name with different script
    conflict = False
    for n in ast.walk(build):
        if isinstance(n, ast.If) and isinstance(n.test, ast.Compare) and isinstance(n.test.ops[0], ast.NotEq) \
                and {src(n.test.left).split(".")[-1], src(n.test.comparators[0]).split(".")[-1]} == {"script"} \
                and any(isinstance(r, ast.Raise) and "ValueError" in src(r.exc) for r in n.body):
            conflict = True
    col.add("C15.R2", "generate_script_block", "same-name-different-script-raises", conflict,
            "a repeated name whose script differs from the first copy must raise ValueError", g.loc)
    # missing dependency raise, before emission (statement order: before the while)
    missing = False
    for s in fn.body:
        if s is wl:
            break
        if isinstance(s, ast.For) and s is not build:
            for n in ast.walk(s):
                if isinstance(n, ast.If) and isinstance(n.test, ast.Compare) and isinstance(n.test.ops[0], ast.NotIn) \
                        and src(n.test.comparators[0]) == deps_name \
                        and any(isinstance(r, ast.Raise) and "ValueError" in src(r.exc) for r in n.body):
                    # iterates all deps of all names
                    missing = ".items()" in src(s.iter) or ".values()" in src(s.iter)
    col.add("C15.R2", "generate_script_block", "unknown-dependency-raises-before-emission", missing,
            "every dependency of every block must be checked against the sent blocks, raising ValueError, before emission starts", g.loc)
    # first copy registered: lookup[b.name] = b only when new
    reg = any(isinstance(n, ast.Assign) and isinstance(n.targets[0], ast.Subscript) and src(n.targets[0].slice) == f"{bvar}.name"
              and src(n.value) == bvar for n in ast.walk(build))
    col.add("C15.R2", "generate_script_block", "block-registered-under-its-name", reg,
            "each distinct block must be registered in the lookup under its name", g.loc)

    # ---- R3 wiring
    check_wiring(col, repo)


def check_wiring(col: Collector, repo: Repo):
    col.floor("C15.R3", 7)
    pm_f = repo.function("process_metadata")
    br = None
    for n in ast.walk(pm_f.node):
        if isinstance(n, ast.If) and isinstance(n.test, ast.Compare) and const_str(n.test.comparators[0]) == "add_job_script":
            br = n
    if br is None:
        raise AnalysisError("process_metadata has no add_job_script branch")
    body = ast.FunctionDef(name="_", args=pm_f.node.args, body=br.body, decorator_list=[], lineno=br.lineno)
    ctor = [c for c in ast.walk(body) if isinstance(c, ast.Call) and call_name(c) == "JobScriptSpecification"]
    ok = False
    if len(ctor) == 1:
        c = ctor[0]
        n_, s_, d_ = arg(c, 0, "name"), arg(c, 1, "script"), arg(c, 2, "depends_on")
        ok = src(n_) == "md['name']" and src(s_) == "md['script']" and src(d_) in ("md.get('depends_on', [])", "md.get('depends_on', list())")
    col.add("C15.R3", "process_metadata.add_job_script", "fields-from-same-named-keys", ok,
            "JobScriptSpecification must take name/script from md['name']/md['script'] (KeyError if absent) and depends_on from md.get('depends_on', [])", pm_f.loc)
    paths = enumerate_paths(body, unroll=1)
    every = all(any(e.kind == "call" and call_name(e.node) == "append" and src(e.node.func.value) == "cpp_funcs" for e in p.events)
                for p in paths if p.status == "end")
    noraise = all(p.status == "end" for p in paths)
    col.add("C15.R3", "process_metadata.add_job_script", "appended-on-every-path", every and noraise and bool(paths),
            "every add_job_script block must be appended unconditionally (merging of repeats is generate_script_block's job); "
            f"paths={[(p.status) for p in paths]}", pm_f.loc)
    # executor: every JobScriptSpecification of this query is appended
    aat = repo.method("executor", "apply_ast_transformations", hint="common.executor")
    ok = False
    pma = parent_map(aat.node)
    for c in walk_no_nested(aat.node):
        if isinstance(c, ast.Call) and call_name(c) == "append" and src(c.func.value) == "self._job_option_blocks":
            lps = enclosing(aat.node, c, (ast.For,), pma)
            if len(lps) == 1 and src(lps[0].iter) == "cpp_functions" and src(c.args[0]) == src(lps[0].target):
                gs = guards(lps[0], c, pma)
                pos = [t for t, tr in gs if tr]
                neg = [t for t, tr in gs if not tr]
                ok = len(pos) == 1 and "isinstance" in src(pos[0]) and "JobScriptSpecification" in src(pos[0]) and \
                    all("isinstance" in src(t) and "JobScriptSpecification" not in src(t) for t in neg)
    col.add("C15.R3", "executor.apply_ast_transformations", "collects-every-job-script", ok,
            "every JobScriptSpecification in this query's metadata must be appended to self._job_option_blocks", aat.loc)
    # reset clears
    rs = repo.method("executor", "reset", hint="common.executor")
    cleared = any(isinstance(n, ast.Assign) and src(n.targets[0]) == "self._job_option_blocks" and src(n.value) in ("[]", "list()")
                  for n in ast.walk(rs.node))
    col.add("C15.R3", "executor.reset", "clears-job-option-blocks", cleared, "reset() must empty self._job_option_blocks", rs.loc)
    # ATLAS replacement dict
    ad = repo.method("atlas_xaod_executor", "add_to_replacement_dict")
    key = None
    from sa.props._tr import const_key_entries
    for k, v, _ in const_key_entries(ad.node):
        if isinstance(v, ast.Call) and call_name(v) == "generate_script_block" and src(v.args[0]) == "self._job_option_blocks":
            key = k
    overwritten = False
    if key:
        # the key must survive: returned dict is that dict (d.update(d1) where d1 = super() empty is fine)
        pass
    tpls = J.load_all()
    el = [t for r, t in tpls.items() if r.endswith("ATestRun_eljob.py")]
    if not el:
        raise AnalysisError("ATestRun_eljob.py template not found")
    t = el[0]
    slots = [s for s in t.slots if s.var == key] if key else []
    col.add("C15.R3", "atlas_xaod_executor.add_to_replacement_dict", "key-agrees-with-template",
            key is not None and len(slots) == 1,
            f"generate_script_block(self._job_option_blocks) is passed under key {key!r}; the job-options template iterates "
            f"{[s.var for s in t.slots]} (a renamed key renders as nothing)", ad.loc)
    # the executor's file list contains the template and the ATLAS executor is the one wired
    for s in slots:
        before, after = J.python_slot_position(t.src, s)
        pos_ok = any("ROOT.EL.Job()" in b for b in before) and any("sampleHandler" in b for b in before) \
            and any("createAlgorithm(" in a for a in after) and any("driver.submit" in a for a in after)
        col.add("C15.R3", "template:ATestRun_eljob.py", "slot-position", pos_ok,
                "the script slot must come after the job and sample handler are created and before createAlgorithm / submit", f"{t.rel}:{s.lineno}")
        form = s.bare and not s.loop_filters and not s.out_filters and not s.has_test_or_else \
            and s.body_text.strip() == "{{" + s.target + "}}" and s.body_text.startswith("\n") and s.body_text.endswith("\n")
        col.add("C15.R3", "template:ATestRun_eljob.py", "slot-form", form,
                f"each script line must be emitted once, unfiltered, alone on an unindented line (body {s.body_text!r}, "
                f"loop filters {s.loop_filters})", f"{t.rel}:{s.lineno}")
    # jinja environment must not strip
    wf = repo.method("executor", "write_cpp_files", hint="common.executor")
    for c in walk_no_nested(wf.node):
        if isinstance(c, ast.Call) and call_name(c) == "Environment":
            bad = {k.arg for k in c.keywords} - {"loader"}
            col.add("C15.R3", "executor.write_cpp_files", "environment-options", not bad,
                    f"jinja2.Environment options {sorted(bad)} may alter emitted script lines", wf.loc)
