"""C11 - injected C++ functions are applied hygienically at every call site.

Decided: substitution construction, the isolation protocol of process_ast_node,
arity and call-style checks, forwarding of includes/libraries, self-consistency
of the built-in specifications, discovery of call sites, metadata ->
specification mapping, per-use result variables, method object binding.
"""
from __future__ import annotations

import ast
import re

from sa.core.common import AnalysisError, Collector
from sa.core.paths import enumerate_paths, guards, parent_map
from sa.core.pyfacts import Repo, arg, call_name, const_str, kwarg, src, walk_no_nested, ordk, ordk_end
from sa.core.scope_typestate import ScopeInterp
from sa.core.templates import parts, shape
from sa.props._tr import check_finder, defs_of
from sa.props.c18 import check_substitution

EXPLANATION = (
    "R1 formal names are replaced in one pass by a function replacement over \\b(?:escaped names)\\b (regex AST of a sample "
    "pattern), for code lines and field initialisers alike; R2 process_ast_node declares the result variable before opening "
    "the block, translates every actual argument before opening it, assigns the result from the specification's result name "
    "as the last statement of the block and closes the block; R3 build_CPPCodeValue raises on arity mismatch and on both "
    "call-style mismatches before touching the node, isNonnull and collections check arity; R4 every include and link library "
    "of the code value is forwarded; R5 every built-in specification mentions each formal parameter and its method object as "
    "a whole word in its code and declares its result name; R6 call sites are discovered children-first by name from a "
    "per-query copy of the table, with callbacks bound to their own specification; R7 add_cpp_function keys map to the "
    "same-named specification fields; R8 the result variable gets a per-use unique name and the declared value/collection "
    "type; R9 the method object is bound to the receiver's representation and substituted first."
)
ASSUMPTIONS = ["Python's re module word-boundary and alternation semantics", "C++ block scoping isolates names declared inside { }"]


def check(col: Collector, tier: str):
    repo = Repo()
    ca = repo.mod("common.cpp_ast")
    pan = repo.function("process_ast_node")
    fn = pan.node
    # ------------------------------------------------------------ R1
    check_substitution(col, repo, "C11.R1")
    # the replacement list: method object first, then formal->actual in order, complete
    col.floor("C11.R9", 2)
    # every (formal, actual text) pair that enters the replacement list, whatever the construction (literal, +=, comprehension)
    from sa.core.paths import enclosing
    from sa.props._tr import resolve_name
    pm = parent_map(fn)
    helper_calls = [c for c in walk_no_nested(fn) if isinstance(c, ast.Call) and call_name(c) == "_substitute_arguments"]
    list_names = {src(c.args[1]) for c in helper_calls if len(c.args) > 1}
    # ... and every list that is poured into one of those (parts collected separately and joined: repl_list += obj_repl)
    for _ in range(3):
        for n_ in walk_no_nested(fn):
            if isinstance(n_, ast.AugAssign) and src(n_.target) in list_names and isinstance(n_.value, ast.Name):
                list_names.add(n_.value.id)
            elif isinstance(n_, ast.Call) and call_name(n_) == "extend" and src(n_.func.value) in list_names and n_.args and isinstance(n_.args[0], ast.Name):
                list_names.add(n_.args[0].id)
            elif isinstance(n_, ast.Assign) and src(n_.targets[0]) in list_names and isinstance(n_.value, ast.BinOp) and isinstance(n_.value.op, ast.Add):
                list_names.update(x.id for x in (n_.value.left, n_.value.right) if isinstance(x, ast.Name))
    pairs = []   # (key expr, value expr, iteration source or None, guards)

    def add_pairs(container, node_for_guards):
        if isinstance(container, (ast.List, ast.Tuple)):
            for e in container.elts:
                if isinstance(e, ast.Tuple) and len(e.elts) == 2:
                    lp = enclosing(fn, node_for_guards, (ast.For,), pm)
                    pairs.append((e.elts[0], e.elts[1], lp[0] if lp else None, guards(fn, node_for_guards, pm)))
        elif isinstance(container, ast.ListComp) and isinstance(container.elt, ast.Tuple) and len(container.elt.elts) == 2:
            pairs.append((container.elt.elts[0], container.elt.elts[1], container.generators[0], guards(fn, node_for_guards, pm)))

    for n_ in walk_no_nested(fn):
        if isinstance(n_, ast.Assign) and src(n_.targets[0]) in list_names:
            add_pairs(n_.value, n_)
        elif isinstance(n_, ast.AugAssign) and src(n_.target) in list_names:
            add_pairs(n_.value, n_)
        elif isinstance(n_, ast.Call) and call_name(n_) in ("append",) and src(n_.func.value) in list_names and n_.args:
            add_pairs(ast.List(elts=[n_.args[0]], ctx=ast.Load()), n_)
    ok_args = False
    ok_obj = False
    for k, v, it, gs in pairs:
        if it is not None:
            iter_expr = it.iter
            tgt = it.target
            if isinstance(iter_expr, ast.Call) and call_name(iter_expr) == "zip" and [src(a) for a in iter_expr.args] == ["cpp_ast_node.args", "call_node.args"] \
                    and ((isinstance(tgt, ast.Tuple) and len(tgt.elts) == 2) or isinstance(tgt, ast.Name)):
                # (a for statement reads the zipped pair by position - E-NORM N14; a comprehension keeps its unpacked names)
                formal, actual = (src(tgt.elts[0]), src(tgt.elts[1])) if isinstance(tgt, ast.Tuple) else (f"{tgt.id}[0]", f"{tgt.id}[1]")
                val = v
                if isinstance(val, ast.Call) and call_name(val) == "as_cpp":
                    recv = val.func.value
                    scope_node = it if isinstance(it, ast.For) else fn
                    if isinstance(recv, ast.Name):
                        ds = [st.value for st in ast.walk(scope_node) if isinstance(st, ast.Assign) and src(st.targets[0]) == recv.id]
                        recv = ds[0] if len(ds) == 1 else recv
                    if src(k) == formal and isinstance(recv, ast.Call) and call_name(recv) in ("get_rep", "get_rep_value") and src(recv.args[0]) == actual:
                        ok_args = True
        else:
            kk, vv = resolve_name(fn, k), v
            guarded = any((not tr_) and src(t).endswith("replacement_instance_obj is None") for t, tr_ in gs)
            if guarded and src(kk) == "cpp_ast_node.replacement_instance_obj[0]" and isinstance(vv, ast.Call) and call_name(vv) == "as_cpp":
                inner = vv.func.value
                # the receiver is an expression of the query: translated like an argument (in place), its C++ takes the placeholder's place
                if isinstance(inner, ast.Call) and call_name(inner) in ("get_rep", "get_rep_value") and inner.args and not any(
                        k.arg == "retain_scope" for k in inner.keywords):
                    a0 = resolve_name(fn, inner.args[0])
                    ok_obj = src(a0) == "cpp_ast_node.replacement_instance_obj[1]"
    col.add("C11.R9", pan.short, "method-object-bound-to-the-receiver", ok_obj,
            "under `replacement_instance_obj is not None` the method object's placeholder (element [0]) must be mapped to the C++ of the receiver "
            "name (element [1]) resolved through the visitor", pan.loc)
    col.add("C11.R1", pan.short, "formal-k-mapped-to-translated-actual-k", ok_args,
            "each formal name must be paired with the translated actual argument at the same position: (formal, get_rep(actual).as_cpp()) over "
            f"zip(cpp_ast_node.args, call_node.args); pairs found: {[(src(k), src(v)[:30]) for k, v, _, _ in pairs]}", pan.loc)
    bc = repo.function("build_CPPCodeValue")
    ro = [n for n in walk_no_nested(bc.node) if isinstance(n, ast.Assign) and src(n.targets[0]).endswith(".replacement_instance_obj")]
    ok = len(ro) == 1 and src(ro[0].value).replace(" ", "") == "(spec.method_object,call_node.func.value)"
    col.add("C11.R9", bc.short, "receiver-recorded-with-the-method-object", ok, "(spec.method_object, <receiver expression>)", bc.loc)

    # ------------------------------------------------------------ R2 isolation protocol
    col.floor("C11.R2", 4)
    si = ScopeInterp(repo)
    okp = True
    okd = True
    n = 0
    for recs, end, st in si.run(pan):
        if st == "raise":
            continue
        n += 1
        acts = [r for r in recs if r.kind in ("declare-here", "push", "pop", "nested", "restore", "set-derived")]
        kinds = [r.kind for r in acts]
        if kinds.count("push") != 1 or kinds.count("pop") != 1:
            okp = False
            continue
        ip, iq = kinds.index("push"), kinds.index("pop")
        decl = [i for i, r in enumerate(acts) if r.kind == "declare-here" and r.what == "result_rep"]
        nested_after_push = [i for i, k in enumerate(kinds) if k == "nested" and ip < i < iq]
        okp = okp and len(decl) == 1 and decl[0] < ip and not nested_after_push and iq == len(acts) - 1
        # the variable carries the scope that was current on entry; an argument translated in place may move the cursor (First(), a loop),
        # so the declaration has to be made before the first argument is translated - otherwise it lands in a block the result outlives
        first_nested = [i for i, k in enumerate(kinds) if k == "nested"]
        okd = okd and (not decl or not first_nested or decl[0] < first_nested[0])
    retained = sorted({f"line {r.ev.node.lineno}" for recs, _, _ in si.run(pan) for r in recs if r.kind == "nested-retained"})
    col.add("C11.R2", pan.short, "arguments-translated-in-place", not retained,
            f"arguments translated with retain_scope=True at {retained}: the block that uses the argument's C++ would be emitted at the scope "
            "that was current before the argument opened its loop/if (e.g. First()), i.e. outside the loop whose variable it mentions", pan.loc)
    col.add("C11.R2", pan.short, "result-declared-where-its-scope-was-taken", okd and n > 0,
            "the result variable is created with the scope current on entry; it must be declared before any argument is translated (an argument "
            "such as x.First().pt() leaves the cursor inside its loop and if-block)", pan.loc)
    col.add("C11.R2", pan.short, "declare-result,translate-arguments,open,close", okp and n > 0,
            "order on every path: result declared at the calling scope, all arguments translated, block opened, block closed last", pan.loc)
    blk = [n_ for n_ in walk_no_nested(fn) if isinstance(n_, ast.Assign) and isinstance(n_.value, ast.Call) and call_name(n_.value) == "block"]
    ok = len(blk) == 1
    bname = src(blk[0].targets[0]) if ok else "?"
    adds = [c for c in walk_no_nested(fn) if isinstance(c, ast.Call) and call_name(c) == "add_statement" and src(c.func.value) == bname]
    code_add = [c for c in adds if isinstance(c.args[0], ast.Call) and call_name(c.args[0]) == "arbitrary_statement"]
    res_add = [c for c in adds if isinstance(c.args[0], ast.Call) and call_name(c.args[0]) == "set_var"]
    ok = ok and len(code_add) == 1 and len(res_add) == 1 and ordk(code_add[0]) < ordk(res_add[0])
    col.add("C11.R2", pan.short, "code-lines-then-result-assignment-inside-the-block", ok,
            "the block must receive every running-code line and then, last, the assignment of the result", pan.loc)
    if res_add:
        sv = res_add[0].args[0]
        ok = src(sv.args[0]) == "result_rep" and isinstance(sv.args[1], ast.Call) and call_name(sv.args[1]) == "cpp_value" and \
            src(sv.args[1].args[0]) == "cpp_ast_node.result" and "result_rep.cpp_type()" in src(sv.args[1])
        col.add("C11.R2", pan.short, "result-delivered-from-the-specification's-result-name", ok, f"{src(sv)[:80]}", pan.loc)
    loops = [l for l in walk_no_nested(fn) if isinstance(l, ast.For) and src(l.iter).endswith(".running_code")]
    ok = len(loops) == 1 and code_add and any(c is code_add[0] for c in ast.walk(loops[0]))
    col.add("C11.R2", pan.short, "every-code-line-emitted", bool(ok), "for s in running_code: block.add_statement(arbitrary_statement(substituted s))", pan.loc)
    rr = defs_of(fn, "result_rep")
    ok = len(rr) == 1 and src(rr[0]).replace(" ", "") == "cpp_ast_node.result_rep(gc.current_scope())"
    col.add("C11.R8", pan.short, "result-variable-created-per-call-at-the-calling-scope", ok, f"result_rep = {[src(r) for r in rr]}", pan.loc)
    rets = [r for r in walk_no_nested(fn) if isinstance(r, ast.Return)]
    col.add("C11.R8", pan.short, "returns-the-result-variable", len(rets) == 1 and src(rets[0].value) == "result_rep", "", pan.loc)

    # ------------------------------------------------------------ R3 checks
    col.floor("C11.R3", 5)
    pmb = parent_map(bc.node)
    raises = [r for r in walk_no_nested(bc.node) if isinstance(r, ast.Raise)]
    # tests are compared in positive form with their outcome (guards() folds `not`, `!=`, `is not`, guard clauses and if/else alike)
    # each refusal as a set of atoms (positive test, outcome) that the raise stands under - `A and B`, nested ifs, an if/elif grouped by the
    # second test and guard clauses all give the same closed guard set
    ARITY = {("len(call_node.args) == len(spec.arguments)", False)}
    FUNC_AS_METHOD = {("isinstance(call_node.func, ast.Attribute)", True), ("spec.method_object is None", True)}
    METHOD_AS_FUNC = {("isinstance(call_node.func, ast.Name)", True), ("spec.method_object is None", False)}
    gsets = [{(src(t), tr_) for t, tr_ in guards(bc.node, r, pmb)} for r in raises]
    gtxt = [sorted(g) for g in gsets]
    inst = [n_ for n_ in walk_no_nested(bc.node) if isinstance(n_, ast.Assign) and src(n_.targets[0]) == "call_node.func"]
    # the node is rewritten only after the checks: on every path that reaches the rewriting statement, tests on the argument count, on the
    # specification's method object and on the call style have been evaluated before it (a failed one ends the path in its raise)
    from sa.core.paths import enumerate_paths as _ep
    before = len(inst) == 1
    n_reach = 0
    for p_ in _ep(bc.node):
        idx = next((i for i, e in enumerate(p_.events) if e.kind == "assign" and e.node is inst[0]), None) if inst else None
        if idx is None:
            continue
        n_reach += 1
        tests = " ; ".join(src(e.node) for e in p_.events[:idx] if e.kind in ("cond", "assert") and isinstance(e.node, ast.expr))
        before = before and "len(call_node.args)" in tests and "spec.method_object" in tests and "isinstance(call_node.func" in tests
    before = before and n_reach > 0
    col.add("C11.R3", bc.short, "arity-mismatch-raises", any(ARITY <= g for g in gsets) and before, f"guards {gtxt}", bc.loc)
    col.add("C11.R3", bc.short, "method-style-call-of-a-function-raises", any(FUNC_AS_METHOD <= g for g in gsets) and before, f"guards {gtxt}", bc.loc)
    col.add("C11.R3", bc.short, "function-style-call-of-a-method-raises", any(METHOD_AS_FUNC <= g for g in gsets) and before, f"guards {gtxt}", bc.loc)
    col.add("C11.R3", bc.short, "node-rewritten-only-after-the-checks", before and len(raises) == 3,
            "the call node may be rewritten only where all three checks passed", bc.loc)
    for f in repo.functions_named("isNonnullAst"):
        pmf = parent_map(f.node)
        ok = any(isinstance(r, ast.Raise) and any((not tr_) and src(t) == "len(call_node.args) == 1" for t, tr_ in guards(f.node, r, pmf)) for r in walk_no_nested(f.node))
        col.add("C11.R3", f"{f.module.name.split('.')[-2]}.isNonnullAst", "arity-checked", ok, "", f.loc)
        # isNonnull is a function: invoked like a method (e.isNonnull(x)) it must be refused like a metadata function is (the receiver would
        # be dropped silently)
        inst_ = [n_ for n_ in walk_no_nested(f.node) if isinstance(n_, ast.Assign) and src(n_.targets[0]) == "call_node.func"]
        style = any(isinstance(r, ast.Raise) and any(tr_ and src(t) == "isinstance(call_node.func, ast.Attribute)" for t, tr_ in guards(f.node, r, pmf))
                    for r in walk_no_nested(f.node)) and len(inst_) == 1 and \
            ("isinstance(call_node.func, ast.Attribute)", False) in {(src(t), tr_) for t, tr_ in guards(f.node, inst_[0], pmf)}
        col.add("C11.R3", f"{f.module.name.split('.')[-2]}.isNonnullAst", "method-style-call-refused", style,
                "a raise under isinstance(call_node.func, ast.Attribute), before the node is rewritten", f.loc)

    # ------------------------------------------------------------ R4 includes / libraries
    col.floor("C11.R4", 3)
    for attr, meth in (("include_files", "add_include"), ("link_libraries", "add_link_library")):
        ok = any(isinstance(n_, ast.For) and src(n_.iter) == f"cpp_ast_node.{attr}" and any(
            isinstance(c, ast.Call) and call_name(c) == meth and src(c.args[0]) == src(n_.target) for c in ast.walk(n_)) for n_ in walk_no_nested(fn))
        col.add("C11.R4", pan.short, f"forwards-every:{attr}", ok, "", pan.loc)
    ok = any(isinstance(n_, ast.AugAssign) and src(n_.target).endswith(".include_files") and src(n_.value) == "spec.include_files" for n_ in walk_no_nested(bc.node))
    col.add("C11.R4", bc.short, "specification-includes-copied", ok, "", bc.loc)

    # ------------------------------------------------------------ R5 built-in specifications
    col.floor("C11.R5", 10)
    specs = []
    for f in list(repo.all_functions()):
        for c in walk_no_nested(f.node):
            if isinstance(c, ast.Call) and call_name(c) == "CPPCodeSpecification":
                specs.append((f.short, f.module, c))
    # ... and the ones bound at module level (DeltaRSpec; a specification moved out of its function is the same specification)
    for mu in repo.modules.values():
        for n_ in mu.tree.body:
            if isinstance(n_, (ast.Assign, ast.AnnAssign)) and isinstance(n_.value, ast.Call) and call_name(n_.value) == "CPPCodeSpecification":
                tg_ = n_.targets[0] if isinstance(n_, ast.Assign) else n_.target
                specs.append((src(tg_), mu, n_.value))
    if len(specs) < 3:
        raise AnalysisError(f"only {len(specs)} built-in CPPCodeSpecification found")
    fields = ["name", "include_files", "arguments", "code", "result", "cpp_return_type", "cpp_return_is_collection", "method_object", "instance_object"]
    for where, mod, c in specs:
        vals = {}
        for i, a in enumerate(c.args):
            vals[fields[i]] = a
        for k in c.keywords:
            vals[k.arg] = k.value
        nm = const_str(vals.get("name"))
        code = [const_str(e) for e in vals["code"].elts] if isinstance(vals.get("code"), ast.List) else None
        args_ = [const_str(e) for e in vals["arguments"].elts] if isinstance(vals.get("arguments"), ast.List) else None
        res = const_str(vals.get("result"))
        mo = const_str(vals.get("method_object")) if vals.get("method_object") is not None else None
        if where.startswith("process_metadata"):
            continue   # built from user metadata at run time, not a built-in
        if code is None or args_ is None or None in code:
            col.add("C11.R5", f"{where}:{nm}", "literal-specification", False, "code/arguments are not literals", f"{mod.rel}:{c.lineno}")
            continue
        text = "\n".join(code)
        ww = lambda w: re.search(r"(?<![A-Za-z0-9_])" + re.escape(w) + r"(?![A-Za-z0-9_])", text) is not None
        for a in args_:
            col.add("C11.R5", f"{where}:{nm}", f"parameter-used:{a}", ww(a), f"formal parameter `{a}` does not occur as a whole word in the code {code}", f"{mod.rel}:{c.lineno}")
        if mo:
            col.add("C11.R5", f"{where}:{nm}", f"method-object-used:{mo}", ww(mo), f"method object `{mo}` does not occur in the code", f"{mod.rel}:{c.lineno}")
        decl = re.search(r"(auto|[A-Za-z_:<>]+)\s+" + re.escape(res or "\0") + r"\s*(=|;)", text) is not None
        col.add("C11.R5", f"{where}:{nm}", f"result-declared:{res}", decl, f"the code must declare the result name `{res}`", f"{mod.rel}:{c.lineno}")
        # the declared return type is the type the code computes where the code names it: `auto result = x->getAttribute<T>(..)` yields a T,
        # a collection return declares std::vector<cpp_return_type>
        rt = const_str(vals.get("cpp_return_type"))
        is_coll = isinstance(vals.get("cpp_return_is_collection"), ast.Constant) and vals["cpp_return_is_collection"].value is True
        mm = re.search(re.escape(res or "\0") + r"\s*=\s*[^;]*?(?:getAttribute|static_cast|dynamic_cast|get)\s*<\s*(.+?)\s*>\s*\(", text)
        if mm and rt:
            want_t = f"std::vector<{rt}>" if is_coll else rt
            got_t = mm.group(1).replace(" ", "")
            col.add("C11.R5", f"{where}:{nm}", "declared-return-type-is-the-type-the-code-computes", got_t == want_t.replace(" ", ""),
                    f"the code assigns `{res}` a {got_t}; the result variable is declared from cpp_return_type={rt!r}"
                    f"{' (collection)' if is_coll else ''}, i.e. {want_t}", f"{mod.rel}:{c.lineno}")
        clash = [a for a in args_ if a == res or (mo and a == mo)]
        col.add("C11.R5", f"{where}:{nm}", "names-distinct", not clash and len(set(args_)) == len(args_), f"arguments {args_}, result {res}, method object {mo}", f"{mod.rel}:{c.lineno}")
    # every backend registers the built-in plug-ins it documents: the common math ones everywhere, the backend's own on top (frozen table)
    PLUGINS = {"atlas_xaod_executor": ("get_jet_methods", "get_math_methods"), "cms_aod_executor": ("get_math_methods", "get_cms_functions"),
               "cms_miniaod_executor": ("get_math_methods", "get_cms_functions")}
    for ename, providers in PLUGINS.items():
        ini = repo.find_class(ename).methods["__init__"]
        pmi = parent_map(ini.node)
        sup = [c for c in walk_no_nested(ini.node) if isinstance(c, ast.Call) and src(c.func) == "super().__init__"]
        tbl = src(sup[0].args[3]) if sup and len(sup[0].args) > 3 else None
        for prov in providers:
            ups = [c for c in walk_no_nested(ini.node) if isinstance(c, ast.Call) and call_name(c) == "update" and tbl and src(c.func.value) == tbl
                   and c.args and isinstance(c.args[0], ast.Call) and call_name(c.args[0]) == prov and not guards(ini.node, c, pmi)
                   and sup and ordk(c) < ordk(sup[0])]
            col.add("C11.R5", f"{ename}.__init__", f"registers-built-ins:{prov}", len(ups) == 1,
                    f"the method table handed to the base class ({tbl}) must be updated with {prov}() unconditionally before it is handed over "
                    "(otherwise DeltaR / isNonnull / getAttributeFloat calls are left as unknown calls on this backend)", ini.loc)
    # the two jet specs are registered under the names they implement
    jm = repo.function("get_jet_methods")
    rets = [r for r in walk_no_nested(jm.node) if isinstance(r, ast.Return) and isinstance(r.value, ast.Dict)]
    reg = {}
    if rets:
        for k, v in zip(rets[0].value.keys, rets[0].value.values):
            used = [x.id for x in ast.walk(v) if isinstance(x, ast.Name)]
            reg[const_str(k)] = used
    # which specification stands behind a name (a local of the function or a module-level constant, whatever it is called): the scalar accessor
    # must deliver a value, the vector accessor a collection
    def spec_behind(names):
        for nm_ in names:
            ds_ = [d for d in defs_of(jm.node, nm_)] + [n_.value for n_ in jm.module.tree.body if isinstance(n_, (ast.Assign, ast.AnnAssign))
                                                         and src(n_.targets[0] if isinstance(n_, ast.Assign) else n_.target) == nm_]
            for d in ds_:
                if isinstance(d, ast.Call) and call_name(d) == "CPPCodeSpecification":
                    return d
        return None

    def is_coll(c):
        v = kwarg(c, "cpp_return_is_collection") if c is not None else None
        if v is None and c is not None and len(c.args) > 6:
            v = c.args[6]
        return isinstance(v, ast.Constant) and v.value is True
    sf, sv = spec_behind(reg.get("getAttributeFloat", [])), spec_behind(reg.get("getAttributeVectorFloat", []))
    ok = sf is not None and sv is not None and sf is not sv and not is_coll(sf) and is_coll(sv) and "getAttribute" in reg
    col.add("C11.R5", jm.short, "specifications-registered-under-their-names", ok, f"registrations {reg}", jm.loc)

    # ------------------------------------------------------------ R6 discovery
    col.floor("C11.R6", 4)
    check_finder(col, "C11.R6", repo)
    from sa.props._tr import check_finder_receivers
    check_finder_receivers(col, "C11.R6", repo)

    # ------------------------------------------------------------ R7 metadata -> specification
    col.floor("C11.R7", 8)
    pmf = repo.function("process_metadata")
    br = None
    for n_ in ast.walk(pmf.node):
        if isinstance(n_, ast.If) and isinstance(n_.test, ast.Compare) and const_str(n_.test.comparators[0]) == "add_cpp_function":
            br = n_
    if br is None:
        raise AnalysisError("process_metadata has no add_cpp_function branch")
    cs = [c for c in ast.walk(ast.Module(body=br.body, type_ignores=[])) if isinstance(c, ast.Call) and call_name(c) == "CPPCodeSpecification"]
    # (optional keys read in the normal form of E-NORM N13: `md[k] if k in md else v` is md.get(k, v))
    want = ["md['name']", "md['include_files']", "md['arguments']", "md['code']", "md.get('result_name', 'result')",
            "parse_type(md['return_type'])", "bool(md.get('return_is_collection', False))",
            "md.get('method_object')", "md.get('instance_object')"]
    if len(cs) == 1:
        got = [src(a) for a in cs[0].args]
        for i, (w, fld) in enumerate(zip(want, fields)):
            g_ = got[i] if i < len(got) else src(kwarg(cs[0], fld)) if kwarg(cs[0], fld) is not None else None
            col.add("C11.R7", "process_metadata.add_cpp_function", f"field:{fld}", g_ == w, f"specification field {fld} is built from {g_!r}; expected {w!r}", pmf.loc)
    else:
        col.add("C11.R7", "process_metadata.add_cpp_function", "builds-one-specification", False, f"{len(cs)} constructions", pmf.loc)
    dc = repo.find_class("CPPCodeSpecification")
    order = [st.target.id for st in dc.node.body if isinstance(st, ast.AnnAssign)]
    col.add("C11.R7", "CPPCodeSpecification", "field-order", order == fields, f"dataclass field order {order}", dc.module.rel)
    app = any(isinstance(c, ast.Call) and call_name(c) == "append" and src(c.func.value) == "cpp_funcs" for c in ast.walk(ast.Module(body=br.body, type_ignores=[])))
    col.add("C11.R7", "process_metadata.add_cpp_function", "specification-appended", app, "", pmf.loc)

    # ------------------------------------------------------------ R8 result variable
    lams = [n_ for n_ in ast.walk(bc.node) if isinstance(n_, ast.Lambda)]
    pmb2 = parent_map(bc.node)
    ok = len(lams) == 2
    if ok:
        coll = [l for l in lams if "cpp_collection" in src(l.body)]
        val = [l for l in lams if "cpp_variable" in src(l.body)]
        ok = len(coll) == 1 and len(val) == 1 and \
            any(tr_ and src(t) == "spec.cpp_return_is_collection" for t, tr_ in guards(bc.node, coll[0], pmb2)) and \
            any((not tr_) and src(t) == "spec.cpp_return_is_collection" for t, tr_ in guards(bc.node, val[0], pmb2))
        for l in lams:
            s = src(l.body)
            made = l.body if isinstance(l.body, ast.Call) else None
            ok = ok and "unique_name(spec.name)" in s and made is not None and src(arg(made, 1, "scope")) == "scope" and "spec.cpp_return_type" in s
        ok = ok and "ctyp.collection(ctyp.terminal(spec.cpp_return_type))" in src(coll[0].body) if coll else False
    col.add("C11.R8", bc.short, "per-use-result-variable-of-the-declared-type", bool(ok),
            "result_rep must be a lambda creating, per use, unique_name(spec.name) typed terminal(return type) - wrapped in a collection iff cpp_return_is_collection", bc.loc)
    from sa.props.c10 import check_default_vector_type, check_parse_type
    check_default_vector_type(col, "C11.R8", repo)
    from sa.props._tr import check_code_value_per_call_site, check_unique_names_per_use
    check_code_value_per_call_site(col, "C11.R8", repo)
    check_unique_names_per_use(col, "C11.R8", repo)      # "a fresh variable" for every call
    # "its include files added": what the call site requested must reach the rendered source, each entry, unfiltered
    from sa.props._tr import import_obligations
    import_obligations(col, "C11.R10", "c14", lambda o: o.detail == "info-key:body_include_files",
                       "the include list handed to the templates must be the query's includes plus the injected ones, nothing removed")
    import_obligations(col, "C11.R10", "c14", lambda o: o.detail == "bare-unfiltered-slot" and "include_files" in o.construct,
                       "a function's include files are added to body_include_files: the template must render each one")
    # the declared return type text is decomposed by parse_type before it types the result variable
    check_parse_type(col, "C11.R8", repo)
    st_ = {src(n_.targets[0]).split(".")[-1]: src(n_.value) for n_ in walk_no_nested(bc.node) if isinstance(n_, (ast.Assign,)) and src(n_.targets[0]).startswith("r.")}
    aug = {src(n_.target).split(".")[-1]: src(n_.value) for n_ in walk_no_nested(bc.node) if isinstance(n_, ast.AugAssign) and src(n_.target).startswith("r.")}
    ok = st_.get("args") == "spec.arguments" and st_.get("result") == "spec.result" and aug.get("running_code") == "spec.code"
    col.add("C11.R8", bc.short, "code-arguments-result-taken-from-the-specification", ok, f"assignments {st_} {aug}", bc.loc)
