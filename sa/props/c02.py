"""C02 - every accepted query yields a complete, well-formed package.

Decided: file set and mode per executor, template variables vs provided keys,
no un-interpolated braces in emitted C++ lines, declarations before statements
inside braces, per-use unique names, identifier hygiene, conversions on type
mismatch, whole-word substitution, templates loaded from the executor's own
directory.  Not decided: that the C++ compiles against the experiment headers;
that a particular composition puts a use inside the declaring block.
"""
from __future__ import annotations

import ast
import re

from sa.core.common import AnalysisError, Collector, REPO
from sa.core.paths import enumerate_paths, guards, parent_map
from sa.core.pyfacts import Repo, arg, call_name, const_str, kwarg, src, walk_no_nested
from sa.core.templates import parts, shape
from sa.core import jinja_facts as J
from sa.props._tr import defs_of, resolve_name, visitor_methods
from sa.props.c18 import check_substitution, string_sinks

EXPLANATION = (
    "R1 per executor: every name in the file_names literal exists in its template directory, the runner is in the list, "
    "the copy loop iterates the whole list from an Environment built per call on the executor's own template directory, the "
    "runner is chmod'ed executable and ExecutionInfo reports the same names; R2 every variable a template uses is provided "
    "by write_cpp_files/add_to_replacement_dict for that backend (jinja renders an undefined name as nothing), and files that "
    "must not contain jinja constructs contain none; R3 no plain (non-f) string literal containing {identifier...} reaches a "
    "C++ sink; R4 block.emit writes '{', all declarations, all statements, '}' and the block subclasses write their header and "
    "delegate; R5 every generated identifier comes from a unique_name() call evaluated per use (never at module/class level or "
    "in a default), and unique_name increments its counter on every call; R6 user text entering an identifier is sanitised; R7 "
    "set_var and push_back cast on a type mismatch; R8 Fill is placed at the mainline scope; R9 injected-code arguments are "
    "substituted as whole words; R10 shared mechanisms: conditional/boolean results declared before their blocks, injected lines concatenated verbatim, declared method types registered argument by argument."
)
ASSUMPTIONS = ["jinja2 renders undefined variables as empty text (default Undefined)", "C++ requires a declaration before use within a block"]

EXECUTORS = {"atlas_xaod_executor": "atlas", "cms_aod_executor": "cms", "cms_miniaod_executor": "cms"}
NO_JINJA = ("runner.sh", "BuildFile.xml", "copy_root_tree.C", "analyzer_cfg.py")


def executor_config(repo: Repo, name: str):
    c = repo.find_class(name)
    ini = c.methods["__init__"]
    files = None
    runner = None
    tdir = None
    for n in walk_no_nested(ini.node):
        if isinstance(n, ast.Assign) and isinstance(n.targets[0], ast.Name):
            t = n.targets[0].id
            if t == "file_names" and isinstance(n.value, ast.List):
                files = [const_str(e) for e in n.value.elts]
            elif t == "runner_name":
                runner = const_str(n.value)
            elif t == "template_dir_name":
                tdir = const_str(n.value)
    if tdir is None:
        for a, d in zip(reversed(ini.node.args.args), reversed(ini.node.args.defaults)):
            if a.arg == "template_dir_name":
                tdir = const_str(d)
    sup = [x for x in ast.walk(ini.node) if isinstance(x, ast.Call) and src(x.func) == "super().__init__"]
    # what the base executor is handed (E-NORM N15 reads a local that only names a literal as the literal): files, runner, template dir
    if len(sup) == 1 and len(sup[0].args) >= 3:
        from sa.props._tr import resolve_name
        a0, a1, a2 = (resolve_name(ini.node, a) for a in sup[0].args[:3])
        if isinstance(a0, ast.Call) and call_name(a0) == "list" and a0.args:
            a0 = resolve_name(ini.node, a0.args[0])
        if files is None and isinstance(a0, (ast.List, ast.Tuple)):
            files = [const_str(e) for e in a0.elts]
        runner = runner or const_str(a1)
        if const_str(a2):
            tdir = tdir or const_str(a2)
        elif isinstance(a2, ast.Name) and tdir is None:
            for a, d in zip(reversed(ini.node.args.args), reversed(ini.node.args.defaults)):
                if a.arg == a2.id:
                    tdir = const_str(d)
    return c, ini, files, runner, tdir, sup


def check(col: Collector, tier: str):
    repo = Repo()
    tpls = J.load_all()
    ex = repo.find_class("executor", hint="common.executor")
    wf = ex.methods["write_cpp_files"]
    m = visitor_methods(repo)

    # ------------------------------------------------------------ R1 file set
    col.floor("C02.R1", 12)
    provided_common = set()
    for st in walk_no_nested(wf.node):
        if isinstance(st, ast.Assign) and isinstance(st.targets[0], ast.Subscript) and src(st.targets[0].value) == "info" and const_str(st.targets[0].slice):
            provided_common.add(const_str(st.targets[0].slice))
    for ename in EXECUTORS:
        c, ini, files, runner, tdir, sup = executor_config(repo, ename)
        if not files or not runner or not tdir:
            raise AnalysisError(f"{ename}: file_names / runner_name / template_dir_name literals not found")
        d = REPO / tdir
        missing = [f for f in files if not (d / f).is_file()]
        col.add("C02.R1", f"{ename}.__init__", "listed-files-exist-in-template-dir", not missing and d.is_dir(),
                f"files {missing} named in file_names do not exist in {tdir}", ini.loc)
        col.add("C02.R1", f"{ename}.__init__", "runner-is-in-the-file-list", runner in files, f"runner {runner!r} not in {files}", ini.loc)
        # positions 0..2 of the base constructor are (file list, runner name, template directory): the values found there must be a list,
        # the runner that is in it, and the directory the files were found in (checked above) - names of locals do not matter
        ok = len(sup) == 1 and len(sup[0].args) >= 3 and not any(isinstance(a, ast.Starred) for a in sup[0].args[:3]) \
            and files is not None and runner is not None and tdir is not None
        col.add("C02.R1", f"{ename}.__init__", "configuration-forwarded-in-order", ok,
                f"super().__init__({', '.join(src(a) for a in sup[0].args) if sup else ''}) must pass (file_names, runner_name, template_dir_name, ...)", ini.loc)
        # every template file of the directory that the runner copies is in the list
        from sa.core.shell_alpha import runner_source
        rtxt = runner_source(d / runner) if (d / runner).is_file() else ""
        rtxt = "\n".join(ln for ln in rtxt.splitlines() if not ln.lstrip().startswith("#"))     # commented-out commands copy nothing
        needed = set(re.findall(r"\$DIR/([A-Za-z0-9_.]+)", rtxt)) - {"filelist.txt"}
        col.add("C02.R1", f"{ename}.__init__", "files-the-runner-needs-are-written", needed <= set(files),
                f"the runner copies {sorted(needed)} from its own directory; file_names is {files}", ini.loc)
        unused = sorted(set(files) - needed - {runner})
        col.add("C02.R1", f"{ename}.__init__", "written-files-are-used-by-the-runner", not unused,
                f"{unused} are rendered into the package but the runner never takes them from $DIR: the build then runs without the generated source "
                "or configuration", f"{tdir}/{runner}")
    ei = repo.method("executor", "__init__", hint="common.executor")
    st = {src(n.targets[0]): src(n.value) for n in walk_no_nested(ei.node) if isinstance(n, ast.Assign)}
    col.add("C02.R1", "executor.__init__", "stores-configuration", st.get("self._file_names") == "file_names" and st.get("self._runner_name") == "runner_name"
            and st.get("self._template_dir_name") == "template_dir_name", f"{st}", ei.loc)
    loops = [n for n in walk_no_nested(wf.node) if isinstance(n, ast.For) and src(n.iter) == "self._file_names"]
    # (the rendering itself - which template, into which file - is the copy-template contract below; here: it happens once per listed file)
    ok = len(loops) == 1 and (
        any(isinstance(c, ast.Call) and call_name(c) == "_copy_template_file" and src(c.args[2]) == src(loops[0].target)
            and src(c.args[3]) == "output_path" for c in ast.walk(loops[0]))
        or any(isinstance(c, ast.Call) and call_name(c) == "get_template" and len(c.args) == 1 and src(c.args[0]) == src(loops[0].target) for c in ast.walk(loops[0])))
    ok = ok and not any(isinstance(x, (ast.Break, ast.Continue, ast.If)) for x in ast.walk(loops[0])) if loops else False
    col.add("C02.R1", wf.short, "every-listed-file-is-written", ok, "for file_name in self._file_names: self._copy_template_file(env, info, file_name, output_path)", wf.loc)
    ch = [c for c in ast.walk(wf.node) if isinstance(c, ast.Call) and call_name(c) == "chmod"]
    ok = len(ch) == 1 and "self._runner_name" in src(ch[0].func.value) and "output_path" in src(ch[0].func.value)
    mode = None
    if ok:
        try:
            mode = ast.literal_eval(ch[0].args[0])
        except Exception:
            mode = None
        ok = isinstance(mode, int) and (mode & 0o111) == 0o111 and (mode & 0o444) == 0o444
    col.add("C02.R1", wf.short, "entry-script-made-executable", ok, f"chmod mode {oct(mode) if isinstance(mode, int) else mode} on output_path / self._runner_name", wf.loc)
    rets = [r for r in walk_no_nested(wf.node) if isinstance(r, ast.Return)]
    ok = len(rets) == 1 and isinstance(rets[0].value, ast.Call) and call_name(rets[0].value) == "ExecutionInfo" and \
        [src(a) for a in rets[0].value.args] == ["result_rep", "output_path", "self._runner_name", "self._file_names"]
    col.add("C02.R1", wf.short, "returned-info-names-what-was-written", ok, "ExecutionInfo(result_rep, output_path, self._runner_name, self._file_names)", wf.loc)
    envs = [n for n in walk_no_nested(wf.node) if isinstance(n, ast.Assign) and isinstance(n.value, ast.Call) and call_name(n.value) == "Environment"]
    ok = len(envs) == 1
    if ok:
        ld = kwarg(envs[0].value, "loader")
        ok = isinstance(ld, ast.Call) and call_name(ld) == "FileSystemLoader" and isinstance(ld.args[0], ast.Name)
        td = defs_of(wf.node, ld.args[0].id) if ok else []
        ok = ok and len(td) == 1 and src(td[0]) == "_find_dir(self._template_dir_name)"
    col.add("C02.R1", wf.short, "templates-loaded-from-own-directory-per-call", ok,
            "the jinja Environment must be built in this call on _find_dir(self._template_dir_name)", wf.loc)
    from sa.props._tr import check_copy_template
    check_copy_template(col, "C02.R1", repo)

    # ------------------------------------------------------------ R2 template variables provided
    col.floor("C02.R2", 25)
    for ename, kind in EXECUTORS.items():
        c, ini, files, runner, tdir, sup = executor_config(repo, ename)
        extra = set()
        ad = c.methods.get("add_to_replacement_dict")
        if ad is not None:
            from sa.props._tr import const_key_entries
            extra |= {k for k, _, _ in const_key_entries(ad.node)}
        provided = provided_common | extra
        upd = any(isinstance(cc, ast.Call) and call_name(cc) == "update" and src(cc.func.value) == "info" and "add_to_replacement_dict" in src(cc.args[0])
                  for cc in ast.walk(wf.node))
        for fn_ in files:
            rel = f"{tdir}/{fn_}"
            t = tpls.get(rel)
            if t is None:
                continue
            if fn_ in NO_JINJA:
                col.add("C02.R2", f"template:{rel.split('template/')[-1]}", "contains-no-jinja-construct", not t.has_jinja,
                        "this file is passed through jinja2 but is plain text: a '{{', '{%' or '{#' in it would be consumed by the renderer", rel)
                continue
            for v in sorted(t.undeclared):
                col.add("C02.R2", f"template:{rel.split('template/')[-1]}", f"variable-provided:{v}", v in provided and upd,
                        f"the template uses `{v}`; {ename} provides {sorted(provided)}: an unprovided name renders as nothing (e.g. an empty execute())", rel)
    # ------------------------------------------------------------ R3 un-interpolated braces
    col.floor("C02.R3", 40)
    sinks = [(f, c, a) for f, c, a in string_sinks(repo)]
    for f, c, a in sinks:
        bad = []
        # (a string that is the receiver of .format(..) / the left operand of % is interpolated by that call: its braces are holes, not text)
        formatted = {id(x.func.value) for x in ast.walk(a) if isinstance(x, ast.Call) and isinstance(x.func, ast.Attribute) and x.func.attr in ("format", "format_map")}
        for n in ast.walk(a):
            if id(n) in formatted:
                continue
            if isinstance(n, ast.Constant) and isinstance(n.value, str) and re.search(r"\{[A-Za-z_][A-Za-z0-9_.\[\]()]*\}", n.value):
                # a literal part of an f-string cannot contain single braces, so this is a plain string
                bad.append(n.value)
        # resolve a Name argument defined by a plain string
        if isinstance(a, ast.Name):
            for d in defs_of(f.node, a.id):
                if isinstance(d, ast.Constant) and isinstance(d.value, str) and re.search(r"\{[A-Za-z_][A-Za-z0-9_.\[\]()]*\}", d.value):
                    bad.append(d.value)
        col.add("C02.R3", f.short, f"sink:{call_name(c)}@{''.join(shape(parts(f.node, a)))[:30]}", not bad,
                f"the plain string {bad[:1]} contains a {{placeholder}} but is not an f-string: the braces reach the C++ file verbatim", f"{f.module.rel}:{c.lineno}")
    # ------------------------------------------------------------ R4 block.emit order
    col.floor("C02.R4", 4)
    stm = repo.mod("common.statement")
    be = stm.classes["block"].methods["emit"]
    evs = []
    for st in be.node.body:
        if isinstance(st, ast.Expr) and isinstance(st.value, ast.Call) and call_name(st.value) == "add_line":
            evs.append(("line", const_str(st.value.args[0])))
        elif isinstance(st, ast.For):
            evs.append(("loop", src(st.iter)))
    ok = evs == [("line", "{"), ("loop", "self._variables"), ("loop", "self._statements"), ("line", "}")]
    col.add("C02.R4", "block.emit", "brace-declarations-statements-brace", ok, f"emission order {evs}", be.loc)
    # declaration line: type name (init);
    dl = [c for c in ast.walk(be.node) if isinstance(c, ast.Call) and call_name(c) == "add_line" and isinstance(c.args[0], ast.JoinedStr)]
    sh = shape(parts(be.node, dl[0].args[0])) if dl else []
    col.add("C02.R4", "block.emit", "declaration-line-form", sh[:3] == ["{v.cpp_type()}", " ", "{v.as_cpp()}"] and sh[-1] == ";", f"declaration template {sh}", be.loc)
    for k in ("loop", "iftest", "elsephrase"):
        e = stm.classes[k].methods["emit"]
        body = [s for s in e.node.body if not (isinstance(s, ast.Expr) and isinstance(s.value, ast.Constant))]
        ok = len(body) == 2 and isinstance(body[0].value, ast.Call) and call_name(body[0].value) == "add_line" and src(body[1].value) == "block.emit(self, e)"
        col.add("C02.R4", f"{k}.emit", "header-then-block", ok, "the block subclasses must write their header line and then delegate to block.emit", e.loc)
    sm = repo.find_class("_cpp_source_emitter").methods["add_line"]
    col.add("C02.R4", "_cpp_source_emitter.add_line", "records-every-line", "self._lines_of_query_code +=" in src(sm.node) or ".append(" in src(sm.node), "", sm.loc)

    # ------------------------------------------------------------ R5 unique names
    col.floor("C02.R5", 10)
    un = repo.function("unique_name")
    prm0 = un.node.args.args[0].arg
    paths = [p for p in enumerate_paths(un.node) if p.status == "return"]
    rets = [r for r in walk_no_nested(un.node) if isinstance(r, ast.Return)]
    rv = rets[0].value if len(rets) == 1 else None
    if isinstance(rv, ast.Name):
        dd = defs_of(un.node, rv.id)
        rv = dd[0] if len(dd) == 1 else rv
    ps_ = parts(un.node, rv) if rv is not None else []
    # the counter: a module-level cell (one number, or one per base name) whose value before the increment goes into the name and which is
    # advanced on every returning path
    mod_cells = {n.targets[0].id for n in un.module.tree.body if isinstance(n, ast.Assign) and isinstance(n.targets[0], ast.Name)} | \
        {n.target.id for n in un.module.tree.body if isinstance(n, ast.AnnAssign) and isinstance(n.target, ast.Name)}

    def counter_of(e, depth=0):
        """module cell an expression reads its number from (through one local)"""
        if isinstance(e, ast.Call) and call_name(e) == "str" and e.args:
            e = e.args[0]
        if isinstance(e, ast.Name) and e.id in mod_cells:
            return e.id, "scalar"
        if isinstance(e, ast.Subscript) and isinstance(e.value, ast.Name) and e.value.id in mod_cells and src(e.slice) == prm0:
            return e.value.id, "per-name"
        if isinstance(e, ast.Name) and depth < 2:
            dd_ = defs_of(un.node, e.id)
            if len(dd_) == 1:
                return counter_of(dd_[0], depth + 1)
        return None
    idx_name = [i for i, (k, v) in enumerate(ps_) if k == "hole" and src(v) == prm0]
    ctrs = [(i, counter_of(v)) for i, (k, v) in enumerate(ps_) if k == "hole" and counter_of(v) is not None]
    adv = False
    if len(ctrs) == 1:
        cell, kind_ = ctrs[0][1]
        def advances(e):
            n = e.node
            if isinstance(n, ast.AugAssign) and isinstance(n.op, ast.Add) and src(n.value) == "1":
                return src(n.target) in (cell, f"{cell}[{prm0}]")
            if isinstance(n, ast.Assign) and src(n.targets[0]) in (cell, f"{cell}[{prm0}]") and isinstance(n.value, ast.BinOp) and isinstance(n.value.op, ast.Add) \
                    and src(n.value.right) == "1":
                return True
            return False
        adv = bool(paths) and all(any(e.kind == "assign" and advances(e) for e in p.events) for p in paths)
    col.add("C02.R5", un.short, "counter-incremented-on-every-call-and-embedded", adv and len(idx_name) == 1 and len(ctrs) == 1,
            f"unique_name must build the name from the base name and a counter that is advanced on every call (template {shape(ps_)}, "
            f"counter {ctrs[0][1] if ctrs else None})", un.loc)
    # base name and counter must not run together: "x1"+"1" and "x"+"11" are the same identifier (two columns x1 and x, eleven apart)
    sep_ok = False
    if len(idx_name) == 1 and len(ctrs) == 1 and ctrs[0][0] > idx_name[0]:
        between = ps_[idx_name[0] + 1:ctrs[0][0]]
        for k, v in between:
            if k == "lit" and v and not v[-1].isdigit():
                sep_ok = True
            if k == "hole":
                # the separator chosen under "the base name ends in a digit" (if/else, conditional expression alike) is a non-digit text
                from sa.props._tr import conditional_defs
                arms = conditional_defs(un.node, v)
                digit_arms = [const_str(val) for val, gs in arms if any("isdigit()" in t_ and tr_ for t_, tr_ in gs)]
                if digit_arms and all(a_ and not a_[-1].isdigit() for a_ in digit_arms):
                    sep_ok = True
    col.add("C02.R5", un.short, "name-and-counter-cannot-run-together", sep_ok,
            f"the generated name is {shape(ps_)}: a base name ending in a digit needs a separator before the counter, otherwise two different "
            "(name, counter) pairs give one C++ identifier and it is declared twice", un.loc)
    # no unique_name() at module/class level or in a default argument
    from sa.props._tr import check_unique_names_per_use
    check_unique_names_per_use(col, "C02.R5", repo)
    # every declared variable / loop variable gets its name from unique_name
    decl_sites = 0
    for f in repo.all_functions():
        for c in walk_no_nested(f.node):
            if isinstance(c, ast.Call) and call_name(c) in ("cpp_variable",) and c.args:
                a0 = c.args[0]
                if isinstance(a0, ast.Constant):
                    ok = const_str(a0) == "bogus-do-not-use"     # the dataset placeholder, never declared
                else:
                    r = a0
                    if isinstance(r, ast.Name):
                        ds = defs_of(f.node, r.id)
                        r = ds[0] if len(ds) == 1 else r
                    ok = (isinstance(r, ast.Call) and call_name(r) == "unique_name") or (isinstance(r, ast.Call) and call_name(r) == "as_cpp")
                decl_sites += 1
                col.add("C02.R5", f.short, f"variable-name-from-unique_name:{src(a0)[:30]}", ok,
                        f"cpp_variable({src(a0)[:40]}, ...) - a declarable variable must be named by unique_name(...)", f"{f.module.rel}:{c.lineno}")
    it = m["make_sequence_from_collection"]
    ok = any(isinstance(c, ast.Call) and call_name(c) == "cpp_value" and isinstance(c.args[0], ast.Call) and call_name(c.args[0]) == "unique_name" for c in ast.walk(it.node))
    col.add("C02.R5", it.short, "loop-variable-from-unique_name", ok, "", it.loc)

    # ------------------------------------------------------------ R6 identifier hygiene
    col.floor("C02.R6", 1)
    f = m["call_ResultTTree"]
    uns = [c for c in ast.walk(f.node) if isinstance(c, ast.Call) and call_name(c) == "unique_name"]
    ok = len(uns) == 1
    if ok:
        a = uns[0].args[0]
        ok = isinstance(a, ast.Call) and src(a.func) in ("re.sub",) and const_str(a.args[0]) in (r"\W", r"[^A-Za-z0-9_]", r"[^a-zA-Z0-9_]", r"[^\w]") and const_str(a.args[1]) == "_"
    col.add("C02.R6", f.short, "column-name-sanitised-before-entering-an-identifier", ok,
            "the column name is arbitrary text; before it becomes part of a C++ variable name every non-word character must be replaced", f.loc)

    # ------------------------------------------------------------ R7 conversions on mismatch
    col.floor("C02.R7", 2)
    for cname in ("set_var", "push_back"):
        e = stm.classes[cname].methods["emit"]
        from sa.props._tr import cast_exactly_on_type_mismatch
        ok, why7 = cast_exactly_on_type_mismatch(e.node)
        col.add("C02.R7", f"{cname}.emit", "static_cast-when-types-differ", ok,
                "the value must be cast to the target's type exactly when both types are known and differ: " + why7, e.loc)

    # ------------------------------------------------------------ R8 Fill at mainline (shared with C01)
    ds = defs_of(f.node, "scope_fill")
    col.add("C02.R8", f.short, "fill-at-the-mainline-scope", len(ds) == 1 and src(ds[0]).replace(" ", "") == "self.as_sequence(find_fill_scope(source)).scope()",
            f"scope_fill definitions {[src(d)[:50] for d in ds]}: a fill scope that follows the last scalar column emits uses of a loop variable before/outside its loop", f.loc)
    # ------------------------------------------------------------ R9 whole-word substitution
    check_substitution(col, repo, "C02.R9")
    # ------------------------------------------------------------ R13 templates are well-formed once their tags are blanked
    from sa.props._tr import check_template_balance
    check_template_balance(col, "C02.R13")
    # ------------------------------------------------------------ R12 what was collected reaches the templates
    from sa.props._tr import check_emission_pipeline
    col.floor("C02.R12", 10)
    check_emission_pipeline(col, "C02.R12", repo)
    # ------------------------------------------------------------ R11 introduced identifiers are declared
    from sa.props._tr import check_created_variables_declared
    check_created_variables_declared(col, "C02.R11", repo)
    # ------------------------------------------------------------ R10 mechanisms shared with other properties
    from sa.props._tr import import_obligations
    import_obligations(col, "C02.R10", "c04", lambda o: o.detail in ("result-declared-before-the-blocks", "result-is-bool-variable"),
                       "a result variable declared after the test was translated lands in whatever block the test left open, while it is read outside")
    import_obligations(col, "C02.R10", "c14", lambda o: o.construct == "executor._ib_fetch",
                       "a dropped or de-duplicated injected line (a second `}` or #endif) leaves the generated file unbalanced")
    import_obligations(col, "C02.R10", "c14", lambda o: o.detail == "one-item-per-line",
                       "two directives or statements glued into one line are malformed C++ (the second #include is never read)")
    import_obligations(col, "C02.R10", "c14", lambda o: o.construct == "template.atlas:link_libraries",
                       "library names run together name a library that does not exist: the package no longer links what its code includes")
    import_obligations(col, "C02.R10", "c18", lambda o: o.rule == "C18.R2" and o.detail == "non-finite-float-rejected",
                       "inf and nan print as identifiers that nothing declares")
    import_obligations(col, "C02.R10", "c11", lambda o: o.detail == "declared-return-type-is-the-type-the-code-computes",
                       "a result variable declared with another type than the one the injected code assigns to it does not compile")
    import_obligations(col, "C02.R10", "c16", lambda o: o.rule == "C16.R4",
                       "the entry script must work in each of its documented modes (build only, run only, both): a path that is only set in one "
                       "branch is undefined in the other")
    import_obligations(col, "C02.R10", "c06", lambda o: o.detail == "finder-built-from-a-copy-of-the-method-table",
                       "declarations of one query written into the executor's own table give a later query code that uses members, headers and "
                       "container types its own package never declares")
    import_obligations(col, "C02.R10", "c10", lambda o: o.rule == "C10.R3",
                       "a wrong deref count or pointer depth makes every use of the method's result ill-typed")
