"""Shared facts about the translator (query_ast_visitor and friends) used by several properties."""
from __future__ import annotations

import ast
from typing import Dict, List, Optional, Tuple

from sa.core.common import AnalysisError
from sa.core.pyfacts import Func, Repo, call_name, kwarg, src, walk_no_nested
from sa.core.scope_typestate import Rec, ScopeInterp, St

# Frozen classification of the handlers of query_ast_visitor by what they do to the emission cursor
# (DESIGN 3/C01.R2).  One reason per line.
ACTIVE_HANDLERS = {
    "get_rep": "restores the entry scope when retain_scope is given",
    "make_sequence_from_collection": "opens the for loop over a collection and leaves it open",
    "visit_call_Aggregate_initial": "moves to the sequence-value scope for the update, ends at the accumulator scope",
    "visit_IfExp": "if/else blocks around the two arms, restored",
    "visit_BoolOp": "nested if per later operand, restored",
    "code_fill_ttree": "moves to where each column value is computed",
    "call_ResultTTree": "terminal: fills at the fill scope, then closes the source's loop",
    "call_Where": "opens the filter's if and leaves it open",
    "call_Range": "opens a block and the loop over the generated range",
    "call_First": "opens the first-element if at the sequence-value scope and leaves it open",
}


def visitor_methods(repo: Repo) -> Dict[str, Func]:
    c = repo.find_class("query_ast_visitor")
    return dict(c.methods)


def cursor_actions(recs: List[Rec]) -> List[Rec]:
    return [r for r in recs if r.kind in ("push", "pop", "restore", "set-derived")]


def defs_of(fn: ast.AST, name: str) -> List[ast.AST]:
    out = []
    for st in walk_no_nested(fn):
        if isinstance(st, ast.Assign):
            for t in st.targets:
                if isinstance(t, ast.Name) and t.id == name:
                    out.append(st.value)
                elif isinstance(t, (ast.Tuple, ast.List)):
                    for i, e in enumerate(t.elts):
                        if isinstance(e, ast.Name) and e.id == name:
                            out.append(ast.Subscript(value=st.value, slice=ast.Constant(value=i), ctx=ast.Load()))
        elif isinstance(st, ast.AnnAssign) and isinstance(st.target, ast.Name) and st.target.id == name and st.value is not None:
            out.append(st.value)
    return out


def strip_cast(e: ast.AST) -> ast.AST:
    """cast(T, x) -> x"""
    while isinstance(e, ast.Call) and call_name(e) == "cast" and len(e.args) == 2:
        e = e.args[1]
    return e


def resolve_name(fn: ast.AST, e: ast.AST, depth: int = 0) -> ast.AST:
    e = strip_cast(e)
    while isinstance(e, ast.Name) and depth < 6:
        ds = defs_of(fn, e.id)
        if len(ds) != 1:
            return e
        e = strip_cast(ds[0])
        depth += 1
    return e


def rep_ctor_calls(fn: ast.AST, names=("cpp_value", "cpp_variable", "cpp_collection", "cpp_sequence", "cpp_tuple", "cpp_dict", "cpp_ttree_rep")):
    return [c for c in walk_no_nested(fn) if isinstance(c, ast.Call) and call_name(c) in names]


def check_container_elements(col, rule: str, methods):
    """visit_Tuple / visit_List / visit_Dict: every element translated with retain_scope=True (directly, or through a helper
    of the visitor that forwards its own retain_scope parameter)."""
    def is_true(e):
        return isinstance(e, ast.Constant) and e.value is True

    for name in ("visit_Tuple", "visit_List", "visit_Dict"):
        f = methods.get(name)
        if f is None:
            raise AnalysisError(f"handler {name} not found")
        verdicts = []
        for c in ast.walk(f.node):
            if not isinstance(c, ast.Call):
                continue
            if call_name(c) in ("get_rep", "get_rep_value", "as_sequence", "visit"):
                verdicts.append(is_true(kwarg(c, "retain_scope")))
            elif isinstance(c.func, ast.Attribute) and isinstance(c.func.value, ast.Name) and c.func.value.id == "self" and call_name(c) in methods:
                h = methods[call_name(c)]
                params = [a.arg for a in h.node.args.args]
                inner = [x for x in ast.walk(h.node) if isinstance(x, ast.Call) and call_name(x) in ("get_rep", "get_rep_value", "as_sequence", "visit")]
                for x in inner:
                    rs = kwarg(x, "retain_scope")
                    if is_true(rs):
                        verdicts.append(True)
                    elif isinstance(rs, ast.Name) and rs.id in params:
                        # value at this call site: keyword, positional, or the helper's default
                        v = kwarg(c, rs.id)
                        idx = params.index(rs.id) - 1
                        if v is None and 0 <= idx < len(c.args):
                            v = c.args[idx]
                        if v is None:
                            dflt = h.node.args.defaults
                            off = len(params) - len(dflt)
                            v = dflt[params.index(rs.id) - off] if params.index(rs.id) >= off else None
                        verdicts.append(is_true(v))
                    else:
                        verdicts.append(False)
        ok = bool(verdicts) and all(verdicts)
        col.add(rule, f.short, "elements-translated-with-retain_scope", ok,
                "every element must be translated with retain_scope=True, otherwise the loop/if (and the First() emptiness throw) opened by one "
                "element encloses the code of the next; the sibling handlers visit_Tuple/visit_List/visit_Dict must agree", f.loc)


def check_finder(col, rule: str, repo: Repo):
    """cpp_ast_finder.visit_Call: children first, match by name for Name and Attribute callees, every call visited."""
    c = repo.find_class("cpp_ast_finder")
    v = c.methods.get("visit_Call")
    if v is None:
        raise AnalysisError("cpp_ast_finder.visit_Call not found")
    from sa.core.paths import enumerate_paths
    paths = enumerate_paths(v.node)
    ok = bool(paths)
    for p in paths:
        if p.status == "raise":
            continue
        idx_gv = [i for i, e in enumerate(p.events) if e.kind == "call" and call_name(e.node) == "generic_visit"]
        idx_try = [i for i, e in enumerate(p.events) if e.kind == "call" and call_name(e.node) == "try_call"]
        # children visited on every path, and before any attempt to rewrite this call
        if not idx_gv or (idx_try and idx_gv[0] > idx_try[0]):
            ok = False
    col.add(rule, "cpp_ast_finder.visit_Call", "children-visited-first-on-every-path", ok,
            "self.generic_visit(node) must run on every path and before the call itself is matched: otherwise plug-in calls nested in the "
            "arguments of a rewritten call (a collection inside DeltaR(...), a helper inside a helper) are never rewritten", v.loc)
    s = src(v.node)
    by_name = "func.attr" in s and "func.id" in s
    col.add(rule, "cpp_ast_finder.visit_Call", "matches-method-and-function-style-calls-by-name", by_name,
            "both obj.name(...) and name(...) callees must be looked up by their name", v.loc)
    tc = c.methods.get("try_call")
    okt = tc is not None and any(isinstance(n, ast.Compare) and isinstance(n.ops[0], ast.In) and src(n.comparators[0]) == "self._method_names"
                                 for n in ast.walk(tc.node)) and any(
        isinstance(n, ast.Call) and isinstance(n.func, ast.Subscript) and src(n.func.value) == "self._method_names" and src(n.args[0]) == "node"
        for n in ast.walk(tc.node))
    col.add(rule, "cpp_ast_finder.try_call", "callback-of-that-name-applied-to-the-node", bool(okt),
            "try_call must invoke self._method_names[name](node)", tc.loc if tc else c.module.rel)
    # the executor builds the finder from its own table plus this query's metadata, on a copy
    aat = repo.method("executor", "apply_ast_transformations", hint="common.executor")
    fin = [c2 for c2 in ast.walk(aat.node) if isinstance(c2, ast.Call) and call_name(c2) == "cpp_ast_finder"]
    okc = len(fin) == 1 and isinstance(fin[0].args[0], ast.Name)
    if okc:
        ds = defs_of(aat.node, fin[0].args[0].id)
        okc = bool(ds) and not any(src(d) == "self._method_names" for d in ds) and any("self._method_names" in src(d) for d in ds)
    col.add(rule, "executor.apply_ast_transformations", "finder-built-from-a-copy-of-the-method-table", okc,
            "the rewriter must receive dict(self._method_names) updated with this query's metadata (the executor's own table must not be mutated)", aat.loc)
    # metadata callbacks bind their own specification (no late-binding closure over a loop variable)
    bad = late_binding_closures(aat.node)
    col.add(rule, "executor.apply_ast_transformations", "callbacks-bind-their-own-specification", not bad,
            f"closures capturing a loop variable by reference: {bad} - every callback would use the last specification processed", aat.loc)


def late_binding_closures(fn: ast.AST) -> List[str]:
    """Lambdas / nested defs created inside a for loop or comprehension that read the loop variable without binding it
    as a default argument (classic late binding: all closures see the last value)."""
    out = []
    for n in ast.walk(fn):
        scopes = []
        if isinstance(n, (ast.For, ast.AsyncFor)):
            loopvars = {x.id for x in ast.walk(n.target) if isinstance(x, ast.Name)}
            # variables assigned in the loop body from the loop variable also late-bind
            derived = set()
            for st in ast.walk(n):
                if isinstance(st, ast.Assign) and isinstance(st.targets[0], ast.Name) and any(
                        isinstance(x, ast.Name) and x.id in loopvars for x in ast.walk(st.value)):
                    derived.add(st.targets[0].id)
            scopes.append((loopvars | derived, n.body))
        for vars_, body in scopes:
            for st in body:
                for lam in ast.walk(st):
                    if isinstance(lam, (ast.Lambda, ast.FunctionDef)):
                        params = {a.arg for a in lam.args.args + lam.args.kwonlyargs}
                        used = {x.id for x in ast.walk(lam.body if isinstance(lam, ast.Lambda) else ast.Module(body=lam.body, type_ignores=[]))
                                if isinstance(x, ast.Name)}
                        captured = (used & vars_) - params
                        if captured:
                            out.append(f"line {lam.lineno}: {sorted(captured)}")
    return out


_SUB_CACHE = {}


def import_obligations(col, new_rule: str, module: str, pred, why: str = ""):
    """Re-state obligations established by another property's checker under this property (one mechanism often
    carries several properties).  `pred(ob)` selects them; the sub-run is cached per process."""
    import importlib
    from sa.core.common import Collector
    if _SUB_CACHE.get(module) == "in-progress":
        raise AnalysisError(f"circular cross-reference between property checkers through {module}")
    if module not in _SUB_CACHE:
        _SUB_CACHE[module] = "in-progress"
        sub = Collector(module)
        try:
            importlib.import_module(f"sa.props.{module}").check(sub, "quick")
        except AnalysisError as e:
            sub.broken = str(e)
        _SUB_CACHE[module] = sub
    if getattr(_SUB_CACHE[module], "broken", None):
        # the other checker cannot analyse this tree (it reports that itself): this property is decided without the shared rule
        col.info.setdefault("cross_references_unavailable", []).append(f"{new_rule}<-{module}: {_SUB_CACHE[module].broken[:80]}")
        return
    n = 0
    for o in _SUB_CACHE[module].obs:
        if pred(o):
            col.add(new_rule, o.construct, o.detail, o.ok, o.msg + (f" ({why})" if why else ""), o.loc)
            n += 1
    if n == 0:
        failed = [o for o in _SUB_CACHE[module].obs if not o.ok]
        if failed:
            # the other checker stopped early on a broken anchor: its failures are the verdict on the shared mechanism
            for o in failed[:3]:
                col.add(new_rule, o.construct, o.detail, False, o.msg + (f" ({why})" if why else ""), o.loc)
            return
        raise AnalysisError(f"cross-referenced obligations of {module} for {new_rule} not found")


def check_prefix_test(col, rule: str, repo: Repo):
    """gc_scope.starts_with: the cached-representation test must compare EVERY frame of the prefix by identity."""
    f = repo.method("gc_scope", "starts_with")
    alls = [c for c in ast.walk(f.node) if isinstance(c, ast.Call) and call_name(c) == "all"]
    ok = len(alls) == 1
    why = ""
    if ok:
        gens = [n for n in ast.walk(alls[0]) if isinstance(n, ast.comprehension)]
        ok = len(gens) == 1 and isinstance(gens[0].iter, ast.Call) and call_name(gens[0].iter) == "zip" and len(gens[0].iter.args) == 2
        if ok:
            for a in gens[0].iter.args:
                base = a
                if isinstance(a, ast.Subscript):
                    sl = a.slice
                    if not (isinstance(sl, ast.Slice) and (sl.lower is None or src(sl.lower) == "0") and sl.step is None):
                        ok = False
                        why = f"operand {src(a)} skips frames"
                    base = a.value
                if not src(base).endswith("._scope_stack"):
                    ok = False
            comp = [n for n in ast.walk(alls[0]) if isinstance(n, ast.Compare)]
            ok = ok and len(comp) == 1 and isinstance(comp[0].ops[0], ast.Is)
    col.add(rule, "gc_scope.starts_with", "every-frame-compared-by-identity", ok,
            "starts_with must compare all frames, from the outermost one, by identity (`a is b` over zip of the two stacks): two translations "
            "have different outermost blocks, and a representation left on a shared AST node by an earlier translation must not look valid; " + why, f.loc)
    lg = any(isinstance(n, ast.If) and isinstance(n.test, ast.Compare) and isinstance(n.test.ops[0], ast.Gt) and "len(c._scope_stack)" in src(n.test.left)
             and any(isinstance(r, ast.Return) and src(r.value) == "False" for r in n.body) for n in ast.walk(f.node))
    col.add(rule, "gc_scope.starts_with", "longer-scope-is-never-a-prefix", lg, "a scope with more frames than ours cannot be our prefix", f.loc)


def check_rescope(col, rule: str, repo: Repo):
    """copy_with_new_scope (used by Where/First to re-home a value inside the block they open) must return a copy that
    carries the new scope - in cpp_value and in every override."""
    base = repo.find_class("cpp_value")
    defs = []
    for c in [base] + repo.subclasses(base):
        f = c.methods.get("copy_with_new_scope")
        if f is not None:
            defs.append((c, f))
    if not defs:
        raise AnalysisError("copy_with_new_scope not found")
    for c, f in defs:
        p = [a.arg for a in f.node.args.args]
        rets = [r for r in walk_no_nested(f.node) if isinstance(r, ast.Return)]
        ok = len(rets) == 1 and isinstance(rets[0].value, ast.Name)
        if ok:
            v = rets[0].value.id
            copied = any(isinstance(n, ast.Assign) and src(n.targets[0]) == v and isinstance(n.value, ast.Call) and call_name(n.value) in ("copy", "deepcopy")
                         and src(n.value.args[0]) == "self" for n in ast.walk(f.node))
            scoped = any(isinstance(n, ast.Assign) and src(n.targets[0]) == f"{v}._scope" and src(n.value) == p[1] for n in ast.walk(f.node))
            ok = copied and scoped
        col.add(rule, f"{c.name}.copy_with_new_scope", "returns-a-copy-at-the-new-scope", ok,
                "must return copy(self) with _scope set to the given scope: returning self leaves the value valid at its old scope, so First()/Where "
                "cannot move its use inside the if they open (the assignment then runs on every iteration)", f.loc)


def check_fill_scope(col, rule: str, repo: Repo):
    """call_ResultTTree: Fill goes to the mainline scope, decided once - not to wherever the last column was computed."""
    f = repo.method("query_ast_visitor", "call_ResultTTree")
    ds = defs_of(f.node, "scope_fill")
    sets = [c for c in ast.walk(f.node) if isinstance(c, ast.Call) and call_name(c) == "set_scope" and c.args and src(c.args[0]) == "scope_fill"]
    ok = len(ds) == 1 and src(ds[0]).replace(" ", "") == "self.as_sequence(find_fill_scope(source)).scope()" and bool(sets)
    col.add(rule, f.short, "fill-at-the-mainline-scope", ok,
            "the scope restored before emitting Fill must be as_sequence(find_fill_scope(source)).scope(), defined once "
            f"(definitions: {[src(d)[:60] for d in ds]}): a fill scope that follows the last scalar column puts Fill and the "
            "other columns inside that column's if/loop", f.loc)


def check_core_scope_semantics(col, rule: str, repo: Repo):
    """The small data-structure operations every placement decision rests on (scope tokens, the cursor, blocks).
    Each obligation states what the operation must do; the oracle is the operation's contract, not its current text."""
    def one_return(f):
        rets = [r for r in walk_no_nested(f.node) if isinstance(r, ast.Return)]
        return rets[0].value if len(rets) == 1 else None

    gs = repo.find_class("gc_scope")
    gi = gs.methods["__getitem__"]
    rets = [r for r in walk_no_nested(gi.node) if isinstance(r, ast.Return)]
    ok = len(rets) == 1 and src(rets[0].value) == "gc_scope(self._scope_stack[:key])" and any(isinstance(r, ast.Raise) for r in walk_no_nested(gi.node))
    col.add(rule, "gc_scope.__getitem__", "scope[k]-is-the-prefix-up-to-k", ok,
            "scope[-1] must be the same stack without its last frame (self._scope_stack[:key]); an empty result must raise", gi.loc)
    dv = gs.methods["declare_variable"]
    ok = any(isinstance(c, ast.Call) and src(c) == f"self._scope_stack[-1].declare_variable({dv.node.args.args[1].arg})" for c in ast.walk(dv.node))
    col.add(rule, "gc_scope.declare_variable", "declares-on-the-innermost-frame-of-the-token", ok, "", dv.loc)
    fs = gs.methods["frame_statements"]
    v = one_return(fs)
    col.add(rule, "gc_scope.frame_statements", "returns-the-frame-at-key", v is not None and src(v) == f"self._scope_stack[{fs.node.args.args[1].arg}]", "", fs.loc)
    ci = gs.methods["__init__"]
    ok = any(isinstance(n, ast.Assign) and src(n.targets[0]) == "self._scope_stack" and "copy" in src(n.value) for n in ast.walk(ci.node))
    col.add(rule, "gc_scope.__init__", "token-snapshots-the-stack", ok, "a scope token must hold its own copy of the stack (later pushes must not change it)", ci.loc)
    ds = repo.function("deepest_scope")
    rr = [r for r in walk_no_nested(ds.node) if isinstance(r, ast.Return)]
    from sa.core.paths import guards, parent_map
    pm = parent_map(ds.node)
    sig = [(src(r.value), [(src(t), tr) for t, tr in guards(ds.node, r, pm)]) for r in rr]
    p0, p1 = ds.node.args.args[0].arg, ds.node.args.args[1].arg
    ok = sig == [(p0, [("not s2.starts_with(s1)", True)]), (p0, [("s1.starts_with(s2)", True), ("not s2.starts_with(s1)", False)]),
                 (p1, [("not s2.starts_with(s1)", False), ("s1.starts_with(s2)", False)])]
    s1d = {src(n.targets[0]): src(n.value) for n in walk_no_nested(ds.node) if isinstance(n, ast.Assign)}
    ok = ok and s1d == {"s1": f"{p0}.scope()", "s2": f"{p1}.scope()"}
    col.add(rule, "deepest_scope", "second-wins-only-if-strictly-deeper", ok,
            f"must return the second value only when its scope strictly extends the first's, otherwise the first (returns/guards found: {sig})", ds.loc)
    tl = repo.find_class("gc_scope_top_level")
    sw = tl.methods["starts_with"]
    v = one_return(sw)
    col.add(rule, "gc_scope_top_level.starts_with", "top-level-only-starts-with-top-level", v is not None and src(v) == "type(c) is gc_scope_top_level", "", sw.loc)
    sws = gs.methods["starts_with"]
    s = src(sws.node)
    col.add(rule, "gc_scope.starts_with", "everything-starts-with-top-level", "if c.is_top_level():\n        return True" in s, "", sws.loc)

    gc = repo.find_class("generated_code")
    ad = gc.methods["add_statement"]
    s = src(ad.node)
    ok = "self._scope_stack[-1].add_statement(st)" in s and "if isinstance(st, block):\n            self._scope_stack = self._scope_stack + (st,)" in s
    col.add(rule, "generated_code.add_statement", "appends-to-innermost-and-enters-blocks-only", ok,
            "a statement goes to the innermost open block; the cursor descends only into block statements", ad.loc)
    pp = gc.methods["pop_scope"]
    ok = any(isinstance(n, ast.Assign) and src(n) == "self._scope_stack = self._scope_stack[:-1]" for n in ast.walk(pp.node))
    col.add(rule, "generated_code.pop_scope", "leaves-exactly-one-block", ok, "", pp.loc)
    cs = gc.methods["current_scope"]
    v = one_return(cs)
    col.add(rule, "generated_code.current_scope", "token-of-the-whole-stack", v is not None and src(v) == "gc_scope(self._scope_stack)", "", cs.loc)
    ss = gc.methods["set_scope"]
    s = src(ss.node)
    ok = "self._scope_stack = scope_info._scope_stack" in s and "if scope_info.is_top_level():\n        self._scope_stack = self._scope_stack[:1]\n        return" in s
    col.add(rule, "generated_code.set_scope", "restores-the-token's-stack", ok,
            "set_scope must restore exactly the token's stack (top level = the outermost block only)", ss.loc)
    dvc = gc.methods["declare_variable"]
    ok = f"self._scope_stack[-1].declare_variable({dvc.node.args.args[1].arg})" in src(dvc.node)
    col.add(rule, "generated_code.declare_variable", "declares-on-the-innermost-open-block", ok, "", dvc.loc)
    gr = gc.methods["get_rep"]
    s = src(gr.node)
    ok = "reversed(self._scope_stack)" in s and "next(items, None)" in s
    col.add(rule, "generated_code.get_rep", "innermost-definition-wins", ok, "the lookup must walk the open blocks from the innermost outwards", gr.loc)
    sr = gc.methods["set_rep"]
    col.add(rule, "generated_code.set_rep", "defined-on-the-innermost-open-block", "self._scope_stack[-1].set_rep(name, value)" in src(sr.node), "", sr.loc)
    gci = gc.methods["__init__"]
    col.add(rule, "generated_code.__init__", "starts-inside-the-outermost-block", "self._scope_stack = (self._block,)" in src(gci.node), "", gci.loc)
    bk = repo.find_class("block", hint="common.statement")
    s = src(bk.methods["add_statement"].node)
    col.add(rule, "block.add_statement", "appends-in-order", "self._statements += [s]" in s or "self._statements.append(s)" in s, "", bk.methods["add_statement"].loc)
    s = src(bk.methods["declare_variable"].node)
    col.add(rule, "block.declare_variable", "appends-in-order", "self._variables += [n]" in s or "self._variables.append(n)" in s, "", bk.methods["declare_variable"].loc)
    s = src(bk.methods["set_rep"].node)
    col.add(rule, "block.set_rep", "refuses-a-second-definition", "raise BlockException" in s and "self._rep_dict[name] = value" in s, "", bk.methods["set_rep"].loc)
    s = src(bk.methods["get_rep"].node)
    col.add(rule, "block.get_rep", "own-definitions-only", "return self._rep_dict[name]" in s and "return None" in s, "", bk.methods["get_rep"].loc)

    # as_sequence: an existing sequence is reused; a collection is looped over once per block chain (remembered on the cursor)
    qs = repo.method("query_ast_visitor", "as_sequence")
    from sa.core.paths import enumerate_paths
    ok = True
    n_make = 0
    for p in enumerate_paths(qs.node):
        names = [call_name(e.node) for e in p.events if e.kind == "call"]
        if "make_sequence_from_collection" in names:
            n_make += 1
            ok = ok and "set_rep" in names and names.index("make_sequence_from_collection") < names.index("set_rep") and "get_rep" in names
    col.add(rule, "query_ast_visitor.as_sequence", "loop-over-a-collection-remembered-on-the-cursor", ok and n_make >= 1,
            "when a collection is turned into a loop the (collection -> sequence) pair must be recorded with _gc.set_rep so that a second use "
            "in the same block chain reuses the loop, after _gc.get_rep was consulted", qs.loc)
    # code_fill_ttree's local set_scope: stay where the value was computed only if that is inside the fill scope
    cf = repo.method("query_ast_visitor", "code_fill_ttree")
    hs = [n for n in ast.walk(cf.node) if isinstance(n, ast.FunctionDef) and n.name == "set_scope"]
    ok = len(hs) == 1
    if ok:
        h = hs[0]
        a, b = h.args.args[0].arg, h.args.args[1].arg
        ifs = [n for n in h.body if isinstance(n, ast.If)]
        ok = len(ifs) == 1 and src(ifs[0].test) == f"{a}.starts_with({b})" and src(ifs[0].body[0].value) == f"self._gc.set_scope({a})" \
            and src(ifs[0].orelse[0].value) == f"self._gc.set_scope({b})"
    col.add(rule, "query_ast_visitor.code_fill_ttree", "column-set-where-computed-if-inside-the-fill-scope-else-at-it", ok,
            "a column is assigned at the scope of its value when that scope lies inside the fill scope, otherwise at the fill scope", cf.loc)
    calls = [c for c in ast.walk(cf.node) if isinstance(c, ast.Call) and isinstance(c.func, ast.Name) and c.func.id == "set_scope"]
    ok = sorted(src(c).replace(" ", "") for c in calls) == ["set_scope(e_rep.scope(),scope_fill)", "set_scope(scope,scope_fill)"]
    col.add(rule, "query_ast_visitor.code_fill_ttree", "placement-uses-the-value's-own-scope", ok,
            f"placements found: {[src(c) for c in calls]}", cf.loc)
