"""Shared facts about the translator (query_ast_visitor and friends) used by several properties."""
from __future__ import annotations

import ast
from typing import Dict, List, Optional, Tuple

from sa.core.common import AnalysisError
from sa.core.pyfacts import Func, Repo, call_name, kwarg, src, walk_no_nested
from sa.core.scope_typestate import Rec, ScopeInterp, St

# Frozen classification of the handlers of query_ast_visitor by what they do to the emission cursor
# (DESIGN 3/C01.R2).  One reason per line.
ACTIVE_HANDLERS = {
    "get_rep": "restores the entry scope when retain_scope is given",
    "make_sequence_from_collection": "opens the for loop over a collection and leaves it open",
    "visit_call_Aggregate_initial": "moves to the sequence-value scope for the update, ends at the accumulator scope",
    "visit_IfExp": "if/else blocks around the two arms, restored",
    "visit_BoolOp": "nested if per later operand, restored",
    "code_fill_ttree": "moves to where each column value is computed",
    "call_ResultTTree": "terminal: fills at the fill scope, then closes the source's loop",
    "call_Where": "opens the filter's if and leaves it open",
    "call_Range": "opens a block and the loop over the generated range",
    "call_First": "opens the first-element if at the sequence-value scope and leaves it open",
}


def visitor_methods(repo: Repo) -> Dict[str, Func]:
    c = repo.find_class("query_ast_visitor")
    return dict(c.methods)


def cursor_actions(recs: List[Rec]) -> List[Rec]:
    return [r for r in recs if r.kind in ("push", "pop", "restore", "set-derived")]


def defs_of(fn: ast.AST, name: str) -> List[ast.AST]:
    out = []
    for st in walk_no_nested(fn):
        if isinstance(st, ast.Assign):
            for t in st.targets:
                if isinstance(t, ast.Name) and t.id == name:
                    out.append(st.value)
                elif isinstance(t, (ast.Tuple, ast.List)):
                    for i, e in enumerate(t.elts):
                        if isinstance(e, ast.Name) and e.id == name:
                            out.append(ast.Subscript(value=st.value, slice=ast.Constant(value=i), ctx=ast.Load()))
        elif isinstance(st, ast.AnnAssign) and isinstance(st.target, ast.Name) and st.target.id == name and st.value is not None:
            out.append(st.value)
    return out


def strip_cast(e: ast.AST) -> ast.AST:
    """cast(T, x) -> x"""
    while isinstance(e, ast.Call) and call_name(e) == "cast" and len(e.args) == 2:
        e = e.args[1]
    return e


def resolve_name(fn: ast.AST, e: ast.AST, depth: int = 0) -> ast.AST:
    e = strip_cast(e)
    while isinstance(e, ast.Name) and depth < 6:
        ds = defs_of(fn, e.id)
        if len(ds) != 1:
            return e
        e = strip_cast(ds[0])
        depth += 1
    return e


def rep_ctor_calls(fn: ast.AST, names=("cpp_value", "cpp_variable", "cpp_collection", "cpp_sequence", "cpp_tuple", "cpp_dict", "cpp_ttree_rep")):
    return [c for c in walk_no_nested(fn) if isinstance(c, ast.Call) and call_name(c) in names]


def check_container_elements(col, rule: str, methods):
    """visit_Tuple / visit_List / visit_Dict: every element translated with retain_scope=True."""
    for name in ("visit_Tuple", "visit_List", "visit_Dict"):
        f = methods.get(name)
        if f is None:
            raise AnalysisError(f"handler {name} not found")
        calls = [c for c in ast.walk(f.node) if isinstance(c, ast.Call) and call_name(c) in ("get_rep", "get_rep_value", "as_sequence", "visit")]
        ok = bool(calls) and all(isinstance(kwarg(c, "retain_scope"), ast.Constant) and kwarg(c, "retain_scope").value is True for c in calls)
        col.add(rule, f.short, "elements-translated-with-retain_scope", ok,
                "every element must be translated with retain_scope=True, otherwise the loop/if (and the First() emptiness throw) opened by one "
                "element encloses the code of the next; the sibling handlers visit_Tuple/visit_List/visit_Dict must agree", f.loc)
