"""Shared facts about the translator (query_ast_visitor and friends) used by several properties."""
from __future__ import annotations

import ast
import re
from typing import Dict, List, Optional, Tuple

from sa.core.common import AnalysisError
from sa.core.pyfacts import Func, Repo, arg, call_name, const_str, kwarg, src, walk_no_nested, ordk, ordk_end
from sa.core.scope_typestate import Rec, ScopeInterp, St

# Frozen classification of the handlers of query_ast_visitor by what they do to the emission cursor
# (DESIGN 3/C01.R2).  One reason per line.
ACTIVE_HANDLERS = {
    "get_rep": "restores the entry scope when retain_scope is given",
    "make_sequence_from_collection": "opens the for loop over a collection and leaves it open",
    "visit_call_Aggregate_initial": "moves to the sequence-value scope for the update, ends at the accumulator scope",
    "visit_IfExp": "if/else blocks around the two arms, restored",
    "visit_BoolOp": "nested if per later operand, restored",
    "code_fill_ttree": "moves to where each column value is computed",
    "call_ResultTTree": "terminal: fills at the fill scope, then closes the source's loop",
    "call_Where": "opens the filter's if and leaves it open",
    "call_Range": "opens a block and the loop over the generated range",
    "call_First": "opens the first-element if at the sequence-value scope and leaves it open",
}


def visitor_methods(repo: Repo) -> Dict[str, Func]:
    c = repo.find_class("query_ast_visitor")
    return dict(c.methods)


def cursor_actions(recs: List[Rec]) -> List[Rec]:
    return [r for r in recs if r.kind in ("push", "pop", "restore", "set-derived")]


def defs_of(fn: ast.AST, name: str) -> List[ast.AST]:
    out = []
    for st in walk_no_nested(fn):
        if isinstance(st, ast.Assign):
            for t in st.targets:
                if isinstance(t, ast.Name) and t.id == name:
                    out.append(st.value)
                elif isinstance(t, (ast.Tuple, ast.List)):
                    for i, e in enumerate(t.elts):
                        if isinstance(e, ast.Name) and e.id == name:
                            out.append(ast.Subscript(value=st.value, slice=ast.Constant(value=i), ctx=ast.Load()))
        elif isinstance(st, ast.AnnAssign) and isinstance(st.target, ast.Name) and st.target.id == name and st.value is not None:
            out.append(st.value)
    return out


def strip_cast(e: ast.AST) -> ast.AST:
    """cast(T, x) -> x"""
    while isinstance(e, ast.Call) and call_name(e) == "cast" and len(e.args) == 2:
        e = e.args[1]
    return e


def resolve_name(fn: ast.AST, e: ast.AST, depth: int = 0) -> ast.AST:
    e = strip_cast(e)
    while isinstance(e, ast.Name) and depth < 6:
        ds = defs_of(fn, e.id)
        if len(ds) != 1:
            return e
        e = strip_cast(ds[0])
        depth += 1
    return e


def deep(fn: ast.AST, e: ast.AST, depth: int = 3) -> ast.AST:
    """e with every local that is bound exactly once in fn (by a plain assignment) replaced by its value, repeatedly: the expression in
    terms of the function's inputs, whatever explaining variables were introduced"""
    from sa.core.paths import _subst
    env = {}
    count = {}
    for st in walk_no_nested(fn):
        if isinstance(st, ast.Assign):
            for t in st.targets:
                for n in ast.walk(t):
                    if isinstance(n, ast.Name) and isinstance(n.ctx, (ast.Store, ast.Del)):      # d[k] = v binds neither d nor k
                        count[n.id] = count.get(n.id, 0) + 1
            if len(st.targets) == 1 and isinstance(st.targets[0], ast.Name):
                env[st.targets[0].id] = st.value
        elif isinstance(st, (ast.AugAssign, ast.AnnAssign)) and isinstance(st.target, ast.Name):
            count[st.target.id] = count.get(st.target.id, 0) + 2
        elif isinstance(st, (ast.For, ast.comprehension)):
            for n in ast.walk(st.target):
                if isinstance(n, ast.Name):
                    count[n.id] = count.get(n.id, 0) + 2
    env = {k: v for k, v in env.items() if count.get(k) == 1}
    for _ in range(depth):
        e2 = _subst(e, env)
        if ast.dump(e2) == ast.dump(e):
            break
        e = e2
    return e


def const_membership(e: ast.AST):
    """(subject text, set of constants) when e says "<subject> is one of these constants": an or-chain of `S == c`, `S in (c, ...)`
    (tuple / list / set literal) or a mix; None otherwise."""
    alts = e.values if isinstance(e, ast.BoolOp) and isinstance(e.op, ast.Or) else [e]
    subj, consts = None, set()
    for a in alts:
        if not (isinstance(a, ast.Compare) and len(a.ops) == 1):
            return None
        l, r = a.left, a.comparators[0]
        if isinstance(a.ops[0], ast.Eq):
            if isinstance(l, ast.Constant) and not isinstance(r, ast.Constant):
                l, r = r, l
            if not isinstance(r, ast.Constant):
                return None
            s_, cs = src(l), {r.value}
        elif isinstance(a.ops[0], ast.In) and isinstance(r, (ast.Tuple, ast.List, ast.Set)) and all(isinstance(x, ast.Constant) for x in r.elts):
            s_, cs = src(l), {x.value for x in r.elts}
        else:
            return None
        if subj not in (None, s_):
            return None
        subj = s_
        consts |= cs
    return subj, consts


def const_key_entries(fn: ast.AST) -> List[Tuple[str, ast.AST, str]]:
    """(key, value, container text) for every dict entry with a constant string key made in the function: entries of dict literals,
    `d["k"] = v` item assignments and dict(k=v) keywords - a table is the same table however it is filled"""
    out = []
    for n in walk_no_nested(fn):
        if isinstance(n, ast.Dict):
            for k, v in zip(n.keys, n.values):
                if k is not None and const_str(k) is not None:
                    out.append((const_str(k), v, "{}"))
        elif isinstance(n, ast.Assign):
            for t in n.targets:
                if isinstance(t, ast.Subscript) and const_str(t.slice) is not None:
                    out.append((const_str(t.slice), n.value, src(t.value)))
        elif isinstance(n, ast.Call) and isinstance(n.func, ast.Name) and n.func.id == "dict":
            for kw in n.keywords:
                if kw.arg:
                    out.append((kw.arg, kw.value, "dict()"))
    return out


def dict_path(fn: ast.AST, e: ast.AST, depth: int = 0) -> Optional[Tuple[str, ...]]:
    """The key path an expression denotes inside a nested dict: g[a][b], g.get(a, {}).get(b), g.setdefault(a, {})[b] and a local bound to
    any of those all give (g, a, b).  None when the expression is not such an access."""
    if isinstance(e, ast.Subscript):
        base = dict_path(fn, e.value, depth)
        return None if base is None else base + (src(e.slice),)
    if isinstance(e, ast.Call) and isinstance(e.func, ast.Attribute) and e.func.attr in ("get", "setdefault") and e.args:
        base = dict_path(fn, e.func.value, depth)
        return None if base is None else base + (src(e.args[0]),)
    if isinstance(e, ast.Name):
        ds = defs_of(fn, e.id) if depth < 3 else []
        if len(ds) == 1:
            p = dict_path(fn, ds[0], depth + 1)
            if p is not None and len(p) > 1:
                return p
        return (e.id,)
    if isinstance(e, ast.Attribute):
        return (src(e),)
    return None


def unguarded_index(fn: ast.AST, e: ast.AST, gs) -> List[str]:
    """the `base[key]` steps of a nested-dict read that are not protected by `key in base` among the guards gs (a .get step protects itself)"""
    bad = []
    cur = e
    while True:
        if isinstance(cur, ast.Subscript):
            if (f"{src(cur.slice)} in {src(cur.value)}", True) not in gs:
                bad.append(src(cur))
            cur = cur.value
        elif isinstance(cur, ast.Call) and isinstance(cur.func, ast.Attribute) and cur.func.attr in ("get", "setdefault"):
            cur = cur.func.value
        else:
            return bad


def conditional_defs(fn: ast.AST, e: ast.AST, depth: int = 0, follow: bool = True):
    """[(value, {(positive test, truth)})]: the values an expression can have with the closed guard set each one stands under.  A name is
    followed to its assignments (each with the guards of the assignment); a conditional expression contributes one entry per arm."""
    from sa.core.paths import guards, parent_map, positive
    pm = parent_map(fn)
    out = []

    def arms(v, gs):
        if isinstance(v, ast.IfExp):
            t, tr = positive(v.test, True)
            arms(v.body, gs | {(src(t), tr)})
            arms(v.orelse, gs | {(src(t), not tr)})
        elif follow and isinstance(v, ast.Name) and depth < 3 and defs_of(fn, v.id):
            for v2, g2 in conditional_defs(fn, v, depth + 1):
                out.append((v2, gs | g2))
        else:
            out.append((v, gs))

    if isinstance(e, ast.Name):
        ds = [st for st in walk_no_nested(fn) if isinstance(st, ast.Assign) and any(isinstance(t, ast.Name) and t.id == e.id for t in st.targets)]
        if not ds:
            return [(e, frozenset())]
        for d in ds:
            arms(d.value, frozenset((src(t), tr) for t, tr in guards(fn, d, pm)))
    else:
        arms(e, frozenset())
    return out


def rep_ctor_calls(fn: ast.AST, names=("cpp_value", "cpp_variable", "cpp_collection", "cpp_sequence", "cpp_tuple", "cpp_dict", "cpp_ttree_rep")):
    return [c for c in walk_no_nested(fn) if isinstance(c, ast.Call) and call_name(c) in names]


def check_container_elements(col, rule: str, methods):
    """visit_Tuple / visit_List / visit_Dict: every element translated with retain_scope=True (directly, or through a helper
    of the visitor that forwards its own retain_scope parameter)."""
    def is_true(e):
        return isinstance(e, ast.Constant) and e.value is True

    for name in ("visit_Tuple", "visit_List", "visit_Dict"):
        f = methods.get(name)
        if f is None:
            raise AnalysisError(f"handler {name} not found")
        verdicts = []
        for c in ast.walk(f.node):
            if not isinstance(c, ast.Call):
                continue
            if call_name(c) in ("get_rep", "get_rep_value", "as_sequence", "visit"):
                verdicts.append(is_true(kwarg(c, "retain_scope")))
            elif isinstance(c.func, ast.Attribute) and isinstance(c.func.value, ast.Name) and c.func.value.id == "self" and call_name(c) in methods:
                h = methods[call_name(c)]
                params = [a.arg for a in h.node.args.args]
                inner = [x for x in ast.walk(h.node) if isinstance(x, ast.Call) and call_name(x) in ("get_rep", "get_rep_value", "as_sequence", "visit")]
                for x in inner:
                    rs = kwarg(x, "retain_scope")
                    if is_true(rs):
                        verdicts.append(True)
                    elif isinstance(rs, ast.Name) and rs.id in params:
                        # value at this call site: keyword, positional, or the helper's default
                        v = kwarg(c, rs.id)
                        idx = params.index(rs.id) - 1
                        if v is None and 0 <= idx < len(c.args):
                            v = c.args[idx]
                        if v is None:
                            dflt = h.node.args.defaults
                            off = len(params) - len(dflt)
                            v = dflt[params.index(rs.id) - off] if params.index(rs.id) >= off else None
                        verdicts.append(is_true(v))
                    else:
                        verdicts.append(False)
        ok = bool(verdicts) and all(verdicts)
        col.add(rule, f.short, "elements-translated-with-retain_scope", ok,
                "every element must be translated with retain_scope=True, otherwise the loop/if (and the First() emptiness throw) opened by one "
                "element encloses the code of the next; the sibling handlers visit_Tuple/visit_List/visit_Dict must agree", f.loc)


def check_finder(col, rule: str, repo: Repo):
    """cpp_ast_finder.visit_Call: children first, match by name for Name and Attribute callees, every call visited."""
    c = repo.find_class("cpp_ast_finder")
    v = c.methods.get("visit_Call")
    if v is None:
        raise AnalysisError("cpp_ast_finder.visit_Call not found")
    from sa.core.paths import enumerate_paths
    paths = enumerate_paths(v.node)
    ok = bool(paths)
    for p in paths:
        if p.status == "raise":
            continue
        idx_gv = [i for i, e in enumerate(p.events) if e.kind == "call" and call_name(e.node) == "generic_visit"]
        idx_try = [i for i, e in enumerate(p.events) if e.kind == "call" and call_name(e.node) == "try_call"]
        # children visited on every path, and before any attempt to rewrite this call
        if not idx_gv or (idx_try and idx_gv[0] > idx_try[0]):
            ok = False
    col.add(rule, "cpp_ast_finder.visit_Call", "children-visited-first-on-every-path", ok,
            "self.generic_visit(node) must run on every path and before the call itself is matched: otherwise plug-in calls nested in the "
            "arguments of a rewritten call (a collection inside DeltaR(...), a helper inside a helper) are never rewritten", v.loc)
    s = src(v.node)
    by_name = "func.attr" in s and "func.id" in s
    col.add(rule, "cpp_ast_finder.visit_Call", "matches-method-and-function-style-calls-by-name", by_name,
            "both obj.name(...) and name(...) callees must be looked up by their name", v.loc)
    # the lookup site - in try_call, or written in line in visit_Call: self._method_names[<name>](<node>) under `<name> in self._method_names`
    from sa.core.paths import guards as _gd, parent_map as _pmap
    okt = False
    tc = c.methods.get("try_call")
    for mf in c.methods.values():
        pm_ = _pmap(mf.node)
        for n in ast.walk(mf.node):
            if isinstance(n, ast.Call) and isinstance(n.func, ast.Subscript) and src(n.func.value) == "self._method_names" and len(n.args) == 1 \
                    and src(n.args[0]) in [a.arg for a in mf.node.args.args]:
                key = src(n.func.slice)
                if (f"{key} in self._method_names", True) in {(src(t), tr) for t, tr in _gd(mf.node, n, pm_)}:
                    okt = True
    col.add(rule, "cpp_ast_finder.try_call", "callback-of-that-name-applied-to-the-node", bool(okt),
            "the callback registered under the call's name must be invoked with the call node: self._method_names[name](node), under `name in self._method_names`",
            tc.loc if tc else c.module.rel)
    # the rewriter decides by the call's own name only: it keeps no traversal state (a set of "currently bound" names is wrong as soon
    # as an inner lambda re-uses an outer parameter's name) and defines no handler besides visit_Call
    writes = []
    for mn, mf in c.methods.items():
        if mn == "__init__":
            continue
        for n in ast.walk(mf.node):
            if isinstance(n, ast.Attribute) and isinstance(n.ctx, (ast.Store, ast.Del)) and isinstance(n.value, ast.Name) and n.value.id == "self":
                writes.append(f"{mn}:{src(n)}")
            if isinstance(n, ast.Call) and isinstance(n.func, ast.Attribute) and n.func.attr in ("add", "append", "remove", "discard", "pop", "update", "clear", "extend") \
                    and src(n.func.value).startswith("self."):
                writes.append(f"{mn}:{src(n)[:40]}")
    handlers = sorted(mn for mn in c.methods if mn.startswith("visit_") and mn != "visit_Call")
    col.add(rule, "cpp_ast_finder", "stateless-single-handler", not writes and not handlers,
            f"the plug-in rewriter must not keep traversal state (writes: {writes}) nor treat other node kinds specially (handlers: {handlers}): "
            "whether a call is rewritten may depend only on its own name", c.module.rel)
    # the executor builds the finder from its own table plus this query's metadata, on a copy
    aat = repo.method("executor", "apply_ast_transformations", hint="common.executor")
    # ... from EVERY specification the metadata produced: the comprehension that registers functions and collections runs over the
    # list returned by process_metadata itself (an index by name in between drops one of two declarations sharing a name)
    pmv = [n.targets[0].id for n in walk_no_nested(aat.node) if isinstance(n, ast.Assign) and isinstance(n.value, ast.Call)
           and call_name(n.value) == "process_metadata" and isinstance(n.targets[0], ast.Name)]
    comps = [x for x in ast.walk(aat.node) if isinstance(x, (ast.DictComp, ast.ListComp)) and ("build_CPPCodeValue" in src(x) or "build_collection_callback" in src(x))]
    loops_ = [x for x in walk_no_nested(aat.node) if isinstance(x, ast.For) and ("build_CPPCodeValue" in src(x) or "build_collection_callback" in src(x))]
    srcs = [src(g.iter) for x in comps for g in x.generators] + [src(x.iter) for x in loops_]
    col.add(rule, "executor.apply_ast_transformations", "every-specification-of-the-query-registered", len(pmv) == 1 and bool(srcs) and all(s_ == pmv[0] for s_ in srcs),
            f"functions and collections must be registered from the list process_metadata returned ({pmv}); found iteration over {srcs}", aat.loc)
    fin = [c2 for c2 in ast.walk(aat.node) if isinstance(c2, ast.Call) and call_name(c2) == "cpp_ast_finder"]
    okc = len(fin) == 1 and isinstance(fin[0].args[0], ast.Name)
    if okc:
        ds = defs_of(aat.node, fin[0].args[0].id)
        okc = bool(ds) and all(fresh_mapping_from(d, "self._method_names") for d in ds)
    col.add(rule, "executor.apply_ast_transformations", "finder-built-from-a-copy-of-the-method-table", okc,
            "the rewriter must receive dict(self._method_names) updated with this query's metadata (the executor's own table must not be mutated)", aat.loc)
    # metadata callbacks bind their own specification (no late-binding closure over a loop variable)
    bad = late_binding_closures(aat.node)
    col.add(rule, "executor.apply_ast_transformations", "callbacks-bind-their-own-specification", not bad,
            f"closures capturing a loop variable by reference: {bad} - every callback would use the last specification processed", aat.loc)


def fresh_mapping_from(e: ast.AST, source: str) -> bool:
    """e builds a NEW dict that starts from the entries of <source> (writes to the result cannot reach <source>): dict(S), dict(S, **x),
    S.copy(), copy.copy/deepcopy(S), {**S, ...}, {k: v for k, v in S.items()}, S | {...}, ChainMap({}, S) (writes go to the first map).
    S itself, ChainMap(S, ..) and read-only views of S are not."""
    e = strip_cast(e)
    if isinstance(e, ast.Call):
        nm = call_name(e)
        if nm == "dict" and isinstance(e.func, ast.Name) and e.args and src(e.args[0]) == source:
            return True
        if nm in ("copy", "deepcopy") and isinstance(e.func, ast.Attribute) and src(e.func.value) == source and not e.args:
            return True
        if nm in ("copy", "deepcopy") and e.args and src(e.args[0]) == source:
            return True
        if nm == "ChainMap" and len(e.args) >= 2 and isinstance(e.args[0], ast.Dict) and not e.args[0].keys and any(src(a) == source for a in e.args[1:]):
            return True
        return False
    if isinstance(e, ast.Dict):
        return any(k is None and src(v) == source for k, v in zip(e.keys, e.values))
    if isinstance(e, ast.DictComp):
        return len(e.generators) == 1 and src(e.generators[0].iter) in (f"{source}.items()", source)
    if isinstance(e, ast.BinOp) and isinstance(e.op, ast.BitOr):
        return src(e.left) == source or src(e.right) == source
    return False


def late_binding_closures(fn: ast.AST) -> List[str]:
    """Lambdas / nested defs created inside a for loop or comprehension that read the loop variable without binding it
    as a default argument (classic late binding: all closures see the last value)."""
    out = []
    for n in ast.walk(fn):
        scopes = []
        if isinstance(n, (ast.For, ast.AsyncFor)):
            loopvars = {x.id for x in ast.walk(n.target) if isinstance(x, ast.Name)}
            # variables assigned in the loop body from the loop variable also late-bind
            derived = set()
            for st in ast.walk(n):
                if isinstance(st, ast.Assign) and isinstance(st.targets[0], ast.Name) and any(
                        isinstance(x, ast.Name) and x.id in loopvars for x in ast.walk(st.value)):
                    derived.add(st.targets[0].id)
            scopes.append((loopvars | derived, n.body))
        for vars_, body in scopes:
            for st in body:
                for lam in ast.walk(st):
                    if isinstance(lam, (ast.Lambda, ast.FunctionDef)):
                        params = {a.arg for a in lam.args.args + lam.args.kwonlyargs}
                        used = {x.id for x in ast.walk(lam.body if isinstance(lam, ast.Lambda) else ast.Module(body=lam.body, type_ignores=[]))
                                if isinstance(x, ast.Name)}
                        captured = (used & vars_) - params
                        if captured:
                            out.append(f"line {lam.lineno}: {sorted(captured)}")
    return out


_SUB_CACHE = {}


_DEPTH = 0


def import_obligations(col, new_rule: str, module: str, pred, why: str = ""):
    """Re-state obligations established by another property's checker under this property (one mechanism often
    carries several properties).  `pred(ob)` selects them; the sub-run is cached per process.  Only obligations that are
    NATIVE to the other checker can be imported: inside a sub-run, cross-references are not followed (no cycles, no
    transitive cost) - a rule that is needed by three properties is imported by each of them from where it is defined."""
    import importlib
    from sa.core.common import Collector
    global _DEPTH
    if _DEPTH > 0:
        return
    if module not in _SUB_CACHE:
        sub = Collector(module)
        _DEPTH += 1
        try:
            importlib.import_module(f"sa.props.{module}").check(sub, "quick")
        except AnalysisError as e:
            sub.broken = str(e)
        finally:
            _DEPTH -= 1
        _SUB_CACHE[module] = sub
    if getattr(_SUB_CACHE[module], "broken", None):
        # the other checker cannot analyse this tree (it reports that itself): this property is decided without the shared rule
        col.info.setdefault("cross_references_unavailable", []).append(f"{new_rule}<-{module}: {_SUB_CACHE[module].broken[:80]}")
        return
    n = 0
    for o in _SUB_CACHE[module].obs:
        if pred(o):
            col.add(new_rule, o.construct, o.detail, o.ok, o.msg + (f" ({why})" if why else ""), o.loc)
            n += 1
    if n == 0:
        failed = [o for o in _SUB_CACHE[module].obs if not o.ok]
        if failed:
            # the other checker stopped early on a broken anchor: its failures are the verdict on the shared mechanism
            for o in failed[:3]:
                col.add(new_rule, o.construct, o.detail, False, o.msg + (f" ({why})" if why else ""), o.loc)
            return
        raise AnalysisError(f"cross-referenced obligations of {module} for {new_rule} not found")


def check_prefix_test(col, rule: str, repo: Repo):
    """gc_scope.starts_with: the cached-representation test must compare EVERY frame of the prefix by identity."""
    f = repo.method("gc_scope", "starts_with")
    alls = [c for c in ast.walk(f.node) if isinstance(c, ast.Call) and call_name(c) == "all"]
    ok = len(alls) == 1
    why = ""
    if ok:
        gens = [n for n in ast.walk(alls[0]) if isinstance(n, ast.comprehension)]
        ok = len(gens) == 1 and isinstance(gens[0].iter, ast.Call) and call_name(gens[0].iter) == "zip" and len(gens[0].iter.args) == 2
        if ok:
            for a in gens[0].iter.args:
                base = a
                if isinstance(a, ast.Subscript):
                    sl = a.slice
                    if not (isinstance(sl, ast.Slice) and (sl.lower is None or src(sl.lower) == "0") and sl.step is None):
                        ok = False
                        why = f"operand {src(a)} skips frames"
                    base = a.value
                if not src(base).endswith("._scope_stack"):
                    ok = False
            comp = [n for n in ast.walk(alls[0]) if isinstance(n, ast.Compare)]
            ok = ok and len(comp) == 1 and isinstance(comp[0].ops[0], ast.Is)
    col.add(rule, "gc_scope.starts_with", "every-frame-compared-by-identity", ok,
            "starts_with must compare all frames, from the outermost one, by identity (`a is b` over zip of the two stacks): two translations "
            "have different outermost blocks, and a representation left on a shared AST node by an earlier translation must not look valid; " + why, f.loc)
    verdicts = prefix_test_table(f)
    col.add(rule, "gc_scope.starts_with", "longer-scope-is-never-a-prefix", verdicts["longer"],
            "a scope with more frames than ours cannot be our prefix: whenever the other scope is not the top level and has more frames the answer "
            "must be False, and otherwise (neither is the top level) the answer is the frame-by-frame comparison", f.loc)


def prefix_test_table(f) -> Dict[str, bool]:
    """gc_scope.starts_with as a truth table over its four tests: C other-is-top-level, S self-is-top-level, L other-has-more-frames,
    A all-frames-identical.  Spec: C or (not S and not L and A), however the cases are spelled."""
    from sa.core.paths import predicate_table
    other = f.node.args.args[1].arg
    atoms, table = predicate_table(f.node)
    C, S = f"{other}.is_top_level()", "self.is_top_level()"
    L = f"len(self._scope_stack) < len({other}._scope_stack)"
    A = [a for a in atoms if a.startswith("all(")]
    extra = [a for a in atoms if a not in (C, S, L) and a not in A]
    if extra or len(A) != 1 or C not in atoms:
        return {"top": False, "longer": False, "why": f"tests {atoms}"}
    top = longer = True
    for bits, r in table.items():
        env = dict(zip(atoms, bits))
        c, s_, l_, a_ = env[C], env.get(S, False), env.get(L, False), env[A[0]]
        if c:
            top = top and r is True
        elif l_ and L in atoms:
            longer = longer and r is False
        elif not s_:
            longer = longer and L in atoms and r == a_
    return {"top": top, "longer": longer}


def check_rescope(col, rule: str, repo: Repo):
    """copy_with_new_scope (used by Where/First to re-home a value inside the block they open) must return a copy that
    carries the new scope - in cpp_value and in every override."""
    base = repo.find_class("cpp_value")
    defs = []
    for c in [base] + repo.subclasses(base):
        f = c.methods.get("copy_with_new_scope")
        if f is not None:
            defs.append((c, f))
    if not defs:
        raise AnalysisError("copy_with_new_scope not found")
    for c, f in defs:
        p = [a.arg for a in f.node.args.args]
        rets = [r for r in walk_no_nested(f.node) if isinstance(r, ast.Return)]
        ok = len(rets) == 1 and isinstance(rets[0].value, ast.Name)
        if ok:
            v = rets[0].value.id
            copied = any(isinstance(n, ast.Assign) and src(n.targets[0]) == v and isinstance(n.value, ast.Call) and call_name(n.value) in ("copy", "deepcopy")
                         and src(n.value.args[0]) == "self" for n in ast.walk(f.node))
            scoped = any(isinstance(n, ast.Assign) and src(n.targets[0]) == f"{v}._scope" and src(n.value) == p[1] for n in ast.walk(f.node))
            ok = copied and scoped
        col.add(rule, f"{c.name}.copy_with_new_scope", "returns-a-copy-at-the-new-scope", ok,
                "must return copy(self) with _scope set to the given scope: returning self leaves the value valid at its old scope, so First()/Where "
                "cannot move its use inside the if they open (the assignment then runs on every iteration)", f.loc)


def check_fill_scope(col, rule: str, repo: Repo):
    """call_ResultTTree: Fill goes to the mainline scope, decided once - not to wherever the last column was computed."""
    f = repo.method("query_ast_visitor", "call_ResultTTree")
    ds = defs_of(f.node, "scope_fill")
    sets = [c for c in ast.walk(f.node) if isinstance(c, ast.Call) and call_name(c) == "set_scope" and c.args and src(c.args[0]) == "scope_fill"]
    ok = len(ds) == 1 and src(ds[0]).replace(" ", "") == "self.as_sequence(find_fill_scope(source)).scope()" and bool(sets)
    col.add(rule, f.short, "fill-at-the-mainline-scope", ok,
            "the scope restored before emitting Fill must be as_sequence(find_fill_scope(source)).scope(), defined once "
            f"(definitions: {[src(d)[:60] for d in ds]}): a fill scope that follows the last scalar column puts Fill and the "
            "other columns inside that column's if/loop", f.loc)


def first_hit_innermost_first(gr) -> bool:
    """generated_code.get_rep: the open blocks are asked from the innermost outwards and the first answer that is not None is returned
    (None when no block knows the name).  Two spellings are understood: a generator over reversed(stack) consumed by next(.., None), and
    a for loop over reversed(stack) that returns the first non-None answer; anything else is not decided here (AnalysisError)."""
    from sa.core.paths import guards, parent_map
    fn = gr.node
    key = fn.args.args[1].arg
    its = [n for n in ast.walk(fn) if isinstance(n, (ast.For, ast.comprehension)) and src(n.iter).replace(" ", "") in
           ("reversed(self._scope_stack)", "self._scope_stack[::-1]")]
    any_iter = [n for n in ast.walk(fn) if isinstance(n, (ast.For, ast.comprehension)) and "_scope_stack" in src(n.iter)]
    if not its:
        if any_iter:
            return False                      # iterates the stack in another order
        raise AnalysisError("generated_code.get_rep does not iterate over the scope stack: innermost-definition-wins not decided on this shape")
    it = its[0]
    var = src(it.target)
    asks = [c for c in ast.walk(fn) if isinstance(c, ast.Call) and call_name(c) == "get_rep" and src(c.func.value) == var and [src(a) for a in c.args] == [key]]
    if len(asks) != 1:
        return False
    if isinstance(it, ast.For):
        pm = parent_map(fn)
        rets = [r for r in ast.walk(it) if isinstance(r, ast.Return) and r.value is not None]
        if len(rets) != 1:
            return False
        v = resolve_name(fn, rets[0].value)
        gs = {(src(t), tr) for t, tr in guards(fn, rets[0], pm)}
        tail_ok = all(isinstance(st, ast.Return) and (st.value is None or src(st.value) == "None") for st in fn.body[fn.body.index(it) + 1:]) if it in fn.body else False
        return v is asks[0] and any(t.endswith(" is None") and not tr for t, tr in gs) and tail_ok
    nxt = [c for c in ast.walk(fn) if isinstance(c, ast.Call) and call_name(c) == "next" and len(c.args) == 2 and src(c.args[1]) == "None"]
    flt = [g for g in ast.walk(fn) if isinstance(g, ast.comprehension) and any(src(i).endswith(" is not None") for i in g.ifs)]
    return len(nxt) == 1 and len(flt) == 1


def check_core_scope_semantics(col, rule: str, repo: Repo):
    """The small data-structure operations every placement decision rests on (scope tokens, the cursor, blocks).
    Each obligation states what the operation must do; the oracle is the operation's contract, not its current text."""
    def one_return(f):
        rets = [r for r in walk_no_nested(f.node) if isinstance(r, ast.Return)]
        return rets[0].value if len(rets) == 1 else None

    gs = repo.find_class("gc_scope")
    gi = gs.methods["__getitem__"]
    rets = [r for r in walk_no_nested(gi.node) if isinstance(r, ast.Return)]
    ok = len(rets) == 1 and src(rets[0].value) == "gc_scope(self._scope_stack[:key])" and any(isinstance(r, ast.Raise) for r in walk_no_nested(gi.node))
    col.add(rule, "gc_scope.__getitem__", "scope[k]-is-the-prefix-up-to-k", ok,
            "scope[-1] must be the same stack without its last frame (self._scope_stack[:key]); an empty result must raise", gi.loc)
    dv = gs.methods["declare_variable"]
    ok = any(isinstance(c, ast.Call) and src(c) == f"self._scope_stack[-1].declare_variable({dv.node.args.args[1].arg})" for c in ast.walk(dv.node))
    col.add(rule, "gc_scope.declare_variable", "declares-on-the-innermost-frame-of-the-token", ok, "", dv.loc)
    fs = gs.methods["frame_statements"]
    v = one_return(fs)
    col.add(rule, "gc_scope.frame_statements", "returns-the-frame-at-key", v is not None and src(v) == f"self._scope_stack[{fs.node.args.args[1].arg}]", "", fs.loc)
    ci = gs.methods["__init__"]
    ok = any(isinstance(n, ast.Assign) and src(n.targets[0]) == "self._scope_stack" and "copy" in src(n.value) for n in ast.walk(ci.node))
    col.add(rule, "gc_scope.__init__", "token-snapshots-the-stack", ok, "a scope token must hold its own copy of the stack (later pushes must not change it)", ci.loc)
    ds = repo.function("deepest_scope")
    # as a decision table over its two tests (locals substituted): the second value exactly when its scope starts with the first's and
    # not the other way round, the first value in the other three cases - however the cases are merged or ordered
    from sa.core.paths import predicate_table
    p0, p1 = ds.node.args.args[0].arg, ds.node.args.args[1].arg
    atoms, table = predicate_table(ds.node)
    a21, a12 = f"{p1}.scope().starts_with({p0}.scope())", f"{p0}.scope().starts_with({p1}.scope())"
    sig = sorted((bits, r) for bits, r in table.items())
    ok = set(atoms) == {a21, a12}
    if ok:
        for bits, r in table.items():
            e_ = dict(zip(atoms, bits))
            ok = ok and r == ("value", p1 if (e_[a21] and not e_[a12]) else p0)
    col.add(rule, "deepest_scope", "second-wins-only-if-strictly-deeper", ok,
            f"must return the second value only when its scope strictly extends the first's, otherwise the first (returns/guards found: {sig})", ds.loc)
    tl = repo.find_class("gc_scope_top_level")
    sw = tl.methods["starts_with"]
    v = one_return(sw)
    col.add(rule, "gc_scope_top_level.starts_with", "top-level-only-starts-with-top-level", v is not None and src(v) == "type(c) is gc_scope_top_level", "", sw.loc)
    sws = gs.methods["starts_with"]
    col.add(rule, "gc_scope.starts_with", "everything-starts-with-top-level", prefix_test_table(sws)["top"],
            "whenever the other scope is the top level the answer is True", sws.loc)

    gc = repo.find_class("generated_code")
    ad = gc.methods["add_statement"]
    s = src(ad.node)
    ok = "self._scope_stack[-1].add_statement(st)" in s and "if isinstance(st, block):\n            self._scope_stack = self._scope_stack + (st,)" in s
    col.add(rule, "generated_code.add_statement", "appends-to-innermost-and-enters-blocks-only", ok,
            "a statement goes to the innermost open block; the cursor descends only into block statements", ad.loc)
    pp = gc.methods["pop_scope"]
    ok = any(isinstance(n, ast.Assign) and src(n) == "self._scope_stack = self._scope_stack[:-1]" for n in ast.walk(pp.node))
    col.add(rule, "generated_code.pop_scope", "leaves-exactly-one-block", ok, "", pp.loc)
    cs = gc.methods["current_scope"]
    v = one_return(cs)
    col.add(rule, "generated_code.current_scope", "token-of-the-whole-stack", v is not None and src(v) == "gc_scope(self._scope_stack)", "", cs.loc)
    ss = gc.methods["set_scope"]
    from sa.core.paths import assigns
    asg = assigns(ss.node, "self._scope_stack")
    arg0 = ss.node.args.args[1].arg
    top = [(src(v), g) for v, g, _ in asg if (f"{arg0}.is_top_level()", True) in g]
    deep = [(src(v), g) for v, g, _ in asg if (f"{arg0}.is_top_level()", False) in g]
    ok = len(asg) == 2 and [v for v, _ in top] == ["self._scope_stack[:1]"] and [v for v, _ in deep] == [f"{arg0}._scope_stack"]
    col.add(rule, "generated_code.set_scope", "restores-the-token's-stack", ok,
            "set_scope must restore exactly the token's stack (top level = the outermost block only)", ss.loc)
    dvc = gc.methods["declare_variable"]
    ok = f"self._scope_stack[-1].declare_variable({dvc.node.args.args[1].arg})" in src(dvc.node)
    col.add(rule, "generated_code.declare_variable", "declares-on-the-innermost-open-block", ok, "", dvc.loc)
    gr = gc.methods["get_rep"]
    ok = first_hit_innermost_first(gr)
    col.add(rule, "generated_code.get_rep", "innermost-definition-wins", ok, "the lookup must walk the open blocks from the innermost outwards", gr.loc)
    sr = gc.methods["set_rep"]
    col.add(rule, "generated_code.set_rep", "defined-on-the-innermost-open-block", "self._scope_stack[-1].set_rep(name, value)" in src(sr.node), "", sr.loc)
    gci = gc.methods["__init__"]
    col.add(rule, "generated_code.__init__", "starts-inside-the-outermost-block", "self._scope_stack = (self._block,)" in src(gci.node), "", gci.loc)
    bk = repo.find_class("block", hint="common.statement")
    s = src(bk.methods["add_statement"].node)
    col.add(rule, "block.add_statement", "appends-in-order", "self._statements += [s]" in s or "self._statements.append(s)" in s, "", bk.methods["add_statement"].loc)
    s = src(bk.methods["declare_variable"].node)
    col.add(rule, "block.declare_variable", "appends-in-order", "self._variables += [n]" in s or "self._variables.append(n)" in s, "", bk.methods["declare_variable"].loc)
    s = src(bk.methods["set_rep"].node)
    col.add(rule, "block.set_rep", "refuses-a-second-definition", "raise BlockException" in s and "self._rep_dict[name] = value" in s, "", bk.methods["set_rep"].loc)
    from sa.core.paths import outcomes
    bgr = bk.methods["get_rep"]
    key = bgr.node.args.args[1].arg
    outs = outcomes(bgr.node)
    # (normal form of "the value when known, else None": E-NORM N13)
    ok = len(outs) == 1 and outs[0].kind == "return" and outs[0].text == f"self._rep_dict.get({key})"
    col.add(rule, "block.get_rep", "own-definitions-only", ok, "a known key returns this block's own value, an unknown one None", bgr.loc)

    # as_sequence: an existing sequence is reused; a collection is looped over once per block chain (remembered on the cursor)
    qs = repo.method("query_ast_visitor", "as_sequence")
    from sa.core.paths import enumerate_paths
    ok = True
    n_make = 0
    for p in enumerate_paths(qs.node):
        names = [call_name(e.node) for e in p.events if e.kind == "call"]
        if "make_sequence_from_collection" in names:
            n_make += 1
            ok = ok and "set_rep" in names and names.index("make_sequence_from_collection") < names.index("set_rep") and "get_rep" in names
    col.add(rule, "query_ast_visitor.as_sequence", "loop-over-a-collection-remembered-on-the-cursor", ok and n_make >= 1,
            "when a collection is turned into a loop the (collection -> sequence) pair must be recorded with _gc.set_rep so that a second use "
            "in the same block chain reuses the loop, after _gc.get_rep was consulted", qs.loc)
    # code_fill_ttree's local set_scope: stay where the value was computed only if that is inside the fill scope
    cf = repo.method("query_ast_visitor", "code_fill_ttree")
    # (the nested two-parameter helper whose body chooses between two self._gc.set_scope(..) calls - whatever it is called)
    hs = [n for n in ast.walk(cf.node) if isinstance(n, ast.FunctionDef) and n is not cf.node and len(n.args.args) == 2
          and sum(1 for c in ast.walk(n) if isinstance(c, ast.Call) and src(c.func) == "self._gc.set_scope") == 2]
    hname = hs[0].name if len(hs) == 1 else "set_scope"
    ok = len(hs) == 1
    if ok:
        h = hs[0]
        a, b = h.args.args[0].arg, h.args.args[1].arg
        ifs = [n for n in h.body if isinstance(n, ast.If)]
        ok = len(ifs) == 1 and src(ifs[0].test) == f"{a}.starts_with({b})" and src(ifs[0].body[0].value) == f"self._gc.set_scope({a})" \
            and src(ifs[0].orelse[0].value) == f"self._gc.set_scope({b})"
    col.add(rule, "query_ast_visitor.code_fill_ttree", "column-set-where-computed-if-inside-the-fill-scope-else-at-it", ok,
            "a column is assigned at the scope of its value when that scope lies inside the fill scope, otherwise at the fill scope", cf.loc)
    calls = [c for c in ast.walk(cf.node) if isinstance(c, ast.Call) and isinstance(c.func, ast.Name) and c.func.id == hname]
    ok = sorted(",".join(src(a_).replace(" ", "") for a_ in c.args) for c in calls) == ["e_rep.scope(),scope_fill", "scope,scope_fill"]
    col.add(rule, "query_ast_visitor.code_fill_ttree", "placement-uses-the-value's-own-scope", ok,
            f"placements found: {[src(c) for c in calls]}", cf.loc)


# ---------------------------------------------------------------------------------------------------------------
# executor._copy_template_file: <env>.get_template(<file>) rendered with <info>, written to <dir>/<file>, replacing
# whatever is there.  Accepted write forms (each truncates):  .stream(info).dump(<path>) (jinja2 opens "wb"),
# .dump(fp) / fp.write(.render(info)) with fp from open(<path>, "w..."), Path.open("w..."), or os.fdopen(os.open(<path>,
# flags incl. O_TRUNC)); <path>.write_text(.render(info)).
def check_copy_template(col, rule: str, repo, details=("renders-that-template-into-that-file", "output-file-replaced-not-overlaid", None)):
    ex = repo.find_class("executor", hint="common.executor")
    sites = 0
    # the base method and every override a backend executor may add are held to the same contract
    for k in [ex] + list(repo.subclasses(ex)):
        cp = k.methods.get("_copy_template_file")
        if cp is not None:
            prm = [a.arg for a in cp.node.args.args]
            if len(prm) != 5:
                raise AnalysisError(f"_copy_template_file parameters are {prm}: expected (self, env, info, template_file, final_dir)")
            _check_one_copy_template(col, rule, repo, cp, details, tuple(prm[1:]))
            sites += 1
    if ex.methods.get("_copy_template_file") is None:
        # the rendering may be written in line where the base method was called ("inline method"): the same contract, with the roles read off
        # the site: <env>.get_template(<file>) .stream/.render(<info>) written to <dir>/<file>, inside the loop over the file names
        wf = ex.methods.get("write_cpp_files")
        gets = [c for c in ast.walk(wf.node) if isinstance(c, ast.Call) and call_name(c) == "get_template"] if wf is not None else []
        rend = [c for c in ast.walk(wf.node) if isinstance(c, ast.Call) and call_name(c) in ("stream", "render", "generate")] if wf is not None else []
        if len(gets) != 1 or len(rend) != 1 or len(gets[0].args) != 1 or len(rend[0].args) != 1:
            raise AnalysisError("executor._copy_template_file not found (and no single in-line rendering site in write_cpp_files)")
        tf = src(gets[0].args[0])
        paths = [n for n in ast.walk(wf.node) if isinstance(n, ast.BinOp) and isinstance(n.op, ast.Div) and src(n.right) == tf]
        fdir = src(paths[0].left) if len(paths) == 1 else "?"
        _check_one_copy_template(col, rule, repo, wf, details, (src(gets[0].func.value), src(rend[0].args[0]), tf, fdir), construct="executor._copy_template_file")
        sites += 1
    return sites


def _check_one_copy_template(col, rule: str, repo, cp, details, roles, construct=None):
    env, info, tf, fdir = roles
    fn = cp.node
    if construct is not None:
        class _Short:              # reported under the name of the contract, located at the site
            short = construct
            loc = cp.loc
            node = cp.node
        cp = _Short()
    sp = lambda n: src(n).replace(" ", "").replace("\n", "")

    def is_path(e, depth=0):
        e = strip_cast(e) if isinstance(e, ast.Call) and call_name(e) == "str" else e
        if isinstance(e, ast.Call) and call_name(e) == "str" and e.args:
            e = e.args[0]
        if isinstance(e, ast.Name) and depth < 4:
            d = defs_of(fn, e.id)
            return len(d) == 1 and is_path(d[0], depth + 1)
        return sp(e) in (f"{fdir}/{tf}", f"({fdir}/{tf})", f"os.path.join({fdir},{tf})", f"os.path.join(str({fdir}),{tf})", f"Path({fdir})/{tf}")

    gets = [c for c in ast.walk(fn) if isinstance(c, ast.Call) and call_name(c) == "get_template"]
    tmpl_ok = len(gets) == 1 and src(gets[0].func.value) == env and len(gets[0].args) == 1 and src(gets[0].args[0]) == tf
    rend = [c for c in ast.walk(fn) if isinstance(c, ast.Call) and call_name(c) in ("stream", "render", "generate")]
    rend_ok = len(rend) == 1 and [src(a) for a in rend[0].args] == [info] and not rend[0].keywords
    if construct is None:
        caches = [n for n in ast.walk(fn) if isinstance(n, ast.Subscript)] + [c for c in ast.walk(fn) if isinstance(c, ast.Call) and call_name(c) in ("get", "setdefault", "lru_cache", "cache")]
    else:
        # in-line site: the template object must come straight from get_template (no table between the environment and the rendering)
        caches = [] if (isinstance(rend[0].func, ast.Attribute) and strip_cast(resolve_name(fn, rend[0].func.value)) is gets[0]) or not rend else [rend[0]]

    def enc_of(call, pos_enc, default):
        """(encoding, errors) of an open/dump call; default encoding None = locale dependent"""
        e = arg(call, pos_enc, "encoding")
        r = kwarg(call, "errors")
        enc = default if e is None or (isinstance(e, ast.Constant) and e.value is None) else (const_str(e) or src(e))
        err = "strict" if r is None or (isinstance(r, ast.Constant) and r.value is None) else (const_str(r) or src(r))
        return (enc.lower().replace("_", "-") if isinstance(enc, str) else enc, err)

    encs = []

    def trunc_handle(e, depth=0):
        """does expression e denote a file object opened on the path with truncation?  returns (is_handle, truncates, on_path)"""
        if isinstance(e, ast.Name) and depth < 4:
            for w in ast.walk(fn):
                if isinstance(w, (ast.With, ast.AsyncWith)):
                    for it in w.items:
                        if it.optional_vars is not None and src(it.optional_vars) == e.id:
                            return trunc_handle(it.context_expr, depth + 1)
            d = defs_of(fn, e.id)
            if len(d) == 1:
                return trunc_handle(d[0], depth + 1)
            return (False, False, False)
        if isinstance(e, ast.Call):
            cn = call_name(e)
            if cn == "open" and isinstance(e.func, ast.Name):
                mode = arg(e, 1, "mode")
                m = const_str(mode) if mode is not None else "r"
                encs.append(enc_of(e, 3, None) if "b" not in (m or "") else ("bytes", "strict"))
                return (True, bool(m) and m[0] in "wx", bool(e.args) and is_path(e.args[0]))
            if cn == "open" and isinstance(e.func, ast.Attribute) and src(e.func.value) not in ("os", "io", "codecs"):
                mode = arg(e, 0, "mode")
                m = const_str(mode) if mode is not None else "r"
                encs.append(enc_of(e, 2, None) if "b" not in (m or "") else ("bytes", "strict"))
                return (True, bool(m) and m[0] in "wx", is_path(e.func.value))
            if cn == "fdopen" and e.args:
                inner = e.args[0]
                if isinstance(inner, ast.Name):
                    d = defs_of(fn, inner.id)
                    inner = d[0] if len(d) == 1 else inner
                if isinstance(inner, ast.Call) and src(inner.func) == "os.open" and len(inner.args) >= 2:
                    flags = {src(x) for x in ast.walk(inner.args[1]) if isinstance(x, ast.Attribute)}
                    mode = arg(e, 1, "mode")
                    m = const_str(mode) if mode is not None else "r"
                    encs.append(enc_of(e, 3, None) if "b" not in (m or "") else ("bytes", "strict"))
                    return (True, "os.O_TRUNC" in flags and bool(m) and m[0] == "w", is_path(inner.args[0]))
                return (True, False, False)
        return (False, False, False)

    writes = []      # (form, on_path, truncates)
    for c in ast.walk(fn):
        if not isinstance(c, ast.Call):
            continue
        cn = call_name(c)
        if cn == "dump" and c.args:
            a = c.args[0]
            if is_path(a):
                writes.append(("dump(path)", True, True))
                encs.append(enc_of(c, 1, "utf-8"))
            else:
                h, t, p = trunc_handle(a)
                writes.append(("dump(handle)", p, t) if h else ("dump(?)", False, False))
                if h and arg(c, 1, "encoding") is not None:
                    encs.append(enc_of(c, 1, None))
        elif cn in ("write", "writelines") and isinstance(c.func, ast.Attribute):
            h, t, p = trunc_handle(c.func.value)
            if h:
                writes.append((f"{cn}(handle)", p, t))
        elif cn in ("write_text", "write_bytes") and isinstance(c.func, ast.Attribute):
            writes.append((cn, is_path(c.func.value), True))
            encs.append(enc_of(c, 1, None) if cn == "write_text" else ("bytes", "strict"))
    one = len(writes) == 1
    col.add(rule, cp.short, details[0], tmpl_ok and rend_ok and one and writes[0][1] and not caches,
            f"must render {env}.get_template({tf}) with {info} into {fdir}/{tf} - one write, no template cache keyed by file name (r5, r7 and r21 share names); "
            f"found get_template ok={tmpl_ok}, render ok={rend_ok}, writes={writes}, lookups={len(caches)}", cp.loc)
    col.add(rule, cp.short, details[1], one and writes[0][2],
            f"the output file must be opened truncating: a shorter file written over a longer one from an earlier query into the same directory keeps the old tail (writes={writes})",
            cp.loc)
    if len(details) > 2 and details[2]:
        # text is encoded explicitly by .encode(...) when a bytes sink is used
        for c in ast.walk(fn):
            if isinstance(c, ast.Call) and call_name(c) == "encode":
                encs.append(enc_of(c, 0, "utf-8"))
        good = [e for e in encs if e[0] in ("utf-8", "utf8") and e[1] == "strict"]
        other = [e for e in encs if e not in good and e[0] != "bytes"]
        col.add(rule, cp.short, details[2], bool(good) and not other,
                "string literals pass characters above U+007F through unescaped, so the file must be written as UTF-8 (explicitly: the default of open() "
                f"depends on the locale) with errors='strict' - another codec or error handler changes the bytes the compiler sees (found {encs})", cp.loc)


# ---------------------------------------------------------------------------------------------------------------
# one-level inlining of helper calls (same-package module functions) into a statement list, with parameters
# replaced by the argument expressions - so that rules written for the in-line form also decide the factored form
def inline_helper_calls(repo, func, stmts, depth: int = 2):
    import copy as _copy
    out = []
    for st in stmts:
        call = st.value if isinstance(st, (ast.Expr, ast.Assign)) and isinstance(getattr(st, "value", None), ast.Call) else None
        tgt = None
        if call is not None and isinstance(call.func, ast.Name) and depth > 0:
            cands = [g for g in repo.resolve_call(func, call) if g.module.name.startswith("func_adl_xAOD") and g.cls is None and g.parent is None]
            if len(cands) == 1:
                tgt = cands[0]
        if tgt is None or tgt.node.args.vararg or tgt.node.args.kwarg:
            out.append(st)
            continue
        params = [a.arg for a in tgt.node.args.args]
        binding = {}
        for i, a in enumerate(call.args):
            if i < len(params):
                binding[params[i]] = a
        for k in call.keywords:
            if k.arg in params:
                binding[k.arg] = k.value
        dflt = tgt.node.args.defaults
        for p, d in zip(params[len(params) - len(dflt):], dflt):
            binding.setdefault(p, d)
        if set(params) - set(binding):
            out.append(st)
            continue
        # parameters that are re-assigned in the helper cannot be substituted
        stored = {n.id for n in ast.walk(tgt.node) if isinstance(n, ast.Name) and isinstance(n.ctx, ast.Store)}
        if stored & set(params):
            out.append(st)
            continue

        class Sub(ast.NodeTransformer):
            def visit_Name(self, n):
                if n.id in binding and isinstance(n.ctx, ast.Load):
                    return ast.copy_location(_copy.deepcopy(binding[n.id]), n)
                return n
        body = [s for s in tgt.node.body if not (isinstance(s, ast.Expr) and isinstance(s.value, ast.Constant))]
        new = [ast.fix_missing_locations(Sub().visit(_copy.deepcopy(s))) for s in body]
        for s in new:
            for x in ast.walk(s):
                x._inlined_from = tgt
        out.extend(inline_helper_calls(repo, tgt, new, depth - 1))
    return out


def literal_str_collection(repo, module, scope_stmts, e, notes: List[str], depth: int = 0):
    """set of string constants a membership-test operand denotes: literals, names bound (locally in scope_stmts or at module
    level) to such, concatenations/unions, copies; in-place growth of a module-level list through an alias is noted."""
    if depth > 6:
        raise AnalysisError("key list expression too deep")
    if isinstance(e, (ast.List, ast.Tuple, ast.Set)):
        if not all(isinstance(x, ast.Constant) and isinstance(x.value, str) for x in e.elts):
            raise AnalysisError(f"key list has non-literal entries: {src(e)[:80]}")
        return {x.value for x in e.elts}
    if isinstance(e, ast.BinOp) and isinstance(e.op, (ast.Add, ast.BitOr)):
        return literal_str_collection(repo, module, scope_stmts, e.left, notes, depth + 1) | literal_str_collection(repo, module, scope_stmts, e.right, notes, depth + 1)
    if isinstance(e, ast.Call) and call_name(e) in ("list", "set", "tuple", "frozenset", "sorted", "copy") and (e.args or isinstance(e.func, ast.Attribute)):
        inner = e.args[0] if e.args else e.func.value
        return literal_str_collection(repo, module, scope_stmts, inner, notes, depth + 1)
    if isinstance(e, ast.Subscript) and isinstance(e.slice, ast.Slice) and e.slice.lower is None and e.slice.upper is None:
        return literal_str_collection(repo, module, scope_stmts, e.value, notes, depth + 1)
    if isinstance(e, ast.Starred):
        return literal_str_collection(repo, module, scope_stmts, e.value, notes, depth + 1)
    if isinstance(e, ast.Name):
        local_defs, grows = [], []
        for st in scope_stmts:
            for n in ast.walk(st):
                if isinstance(n, ast.Assign) and any(isinstance(t, ast.Name) and t.id == e.id for t in n.targets):
                    local_defs.append(n.value)
                if isinstance(n, ast.AugAssign) and isinstance(n.target, ast.Name) and n.target.id == e.id:
                    grows.append(n.value)
                if isinstance(n, ast.Call) and call_name(n) in ("extend", "append", "update", "add") and isinstance(n.func, ast.Attribute) \
                        and isinstance(n.func.value, ast.Name) and n.func.value.id == e.id and n.args:
                    grows.append(n.args[0] if call_name(n) in ("extend", "update") else ast.List(elts=[n.args[0]], ctx=ast.Load()))
        out = set()
        if local_defs:
            for d in local_defs:
                if isinstance(d, ast.Name) and d.id != e.id:
                    # alias of another (module-level?) collection: in-place growth through the alias changes it for later calls
                    if grows and any(isinstance(n, ast.Assign) and any(isinstance(t, ast.Name) and t.id == d.id for t in n.targets) for n in module.tree.body):
                        notes.append(f"module-level `{d.id}` is grown in place through the alias `{e.id}`: the allowed keys then include whatever "
                                     "EARLIER declarations (of any backend) added")
                out |= literal_str_collection(repo, module, [s for s in scope_stmts], d, notes, depth + 1) if not (isinstance(d, ast.Name) and d.id == e.id) else set()
        else:
            mod_defs = [n.value for n in module.tree.body if isinstance(n, ast.Assign) and any(isinstance(t, ast.Name) and t.id == e.id for t in n.targets)]
            mod_defs += [n.value for n in module.tree.body if isinstance(n, ast.AnnAssign) and isinstance(n.target, ast.Name) and n.target.id == e.id and n.value is not None]
            if len(mod_defs) != 1:
                raise AnalysisError(f"key list name {e.id} has {len(mod_defs)} definitions")
            if grows:
                notes.append(f"module-level `{e.id}` is grown in place: the allowed keys then depend on earlier declarations")
            out |= literal_str_collection(repo, module, [], mod_defs[0], notes, depth + 1)
        for g in grows:
            out |= literal_str_collection(repo, module, scope_stmts, g, notes, depth + 1)
        return out
    raise AnalysisError(f"key list expression not understood: {src(e)[:80]}")


# ---------------------------------------------------------------------------------------------------------------
# translation-time code keeps no state on the nodes of the query: the only attributes it may set on an object it did
# not create itself are node.rep / node.scope in crep.set_rep (whose validity is re-tested on every use).  A flag left
# on a (user-owned, re-usable) AST node outlives the generated_code object it referred to.
NODE_MUTATORS = {"append", "extend", "insert", "pop", "remove", "clear", "update", "add", "discard", "setdefault", "sort", "reverse", "popitem"}


def check_no_state_on_query_nodes(col, rule: str, repo: Repo):
    tr = repo.mod("common.ast_to_cpp_translator")
    funcs = list(tr.all_funcs) + [repo.function("process_ast_node")]
    n_sites = 0
    bad = []
    for f in funcs:
        if isinstance(f.node, ast.Lambda):
            continue
        selfn = f.node.args.args[0].arg if f.cls is not None and f.node.args.args else None
        for n in walk_no_nested(f.node):
            base = None
            if isinstance(n, ast.Attribute) and isinstance(n.ctx, (ast.Store, ast.Del)):
                base = n.value
            elif isinstance(n, ast.Call) and call_name(n) in ("setattr", "delattr") and n.args:
                base = n.args[0]
            if base is None and isinstance(n, ast.Call) and isinstance(n.func, ast.Attribute) and n.func.attr in NODE_MUTATORS \
                    and isinstance(n.func.value, ast.Attribute):
                base = n.func.value.value          # <obj>.<field>.pop() changes <obj>
                if isinstance(base, ast.Name) and base.id == selfn or src(base).startswith(f"{selfn}."):
                    base = None
            if base is None:
                continue
            n_sites += 1
            root = base
            while isinstance(root, (ast.Attribute, ast.Subscript)):
                root = root.value
            if isinstance(root, ast.Name) and root.id == selfn:
                continue
            fresh = False
            if isinstance(base, ast.Name):
                ds = defs_of(f.node, base.id)
                fresh = bool(ds) and all(isinstance(d, ast.Call) and (repo.classes_named(call_name(d)) or call_name(d) in ("copy", "deepcopy")) for d in ds)
            if not fresh:
                bad.append(f"{f.short}:{src(n)[:50]} (line {n.lineno})")
    sr = repo.function("set_rep")
    stores = sorted(src(n) for n in ast.walk(sr.node) if isinstance(n, ast.Attribute) and isinstance(n.ctx, ast.Store))
    col.info["attribute_store_sites_in_translation_code"] = n_sites
    col.add(rule, "translation-code", "no-state-left-on-query-nodes", not bad,
            f"translation-time code sets attributes on objects it did not create: {bad}; such a flag survives on the query's nodes (which the caller may "
            "translate again, write again, or share between call sites) after the generated_code it referred to is gone", tr.rel)
    col.add(rule, "set_rep", "only-rep-and-scope-are-cached-on-nodes", stores == ["node.rep", "node.scope"],
            f"set_rep stores {stores}; the cached pair is validated against the live scope on every use", sr.loc)


SURGERY_CALLS = {"replace", "strip", "lstrip", "rstrip", "partition", "rpartition", "split", "rsplit", "splitlines", "sub", "subn", "translate",
                 "removeprefix", "removesuffix", "lower", "upper", "title", "casefold", "expandtabs", "zfill", "center", "ljust", "rjust", "encode", "decode"}


def string_surgery(node, allow=()) -> List[str]:
    """constructs that cut, trim or rewrite text (slices, replace/strip/split/partition/re.sub, ...) inside `node`"""
    out = []
    for n in ast.walk(node):
        if isinstance(n, ast.Subscript) and isinstance(n.slice, ast.Slice):
            out.append(src(n))
        elif isinstance(n, ast.Call) and isinstance(n.func, ast.Attribute) and n.func.attr in SURGERY_CALLS and n.func.attr not in allow:
            out.append(src(n)[:60])
    return out


# ---------------------------------------------------------------------------------------------------------------
# cpp_string_literal: which code points take the generic (octal) escape.  The branch test is a boolean combination of
# comparisons of ord(<char>) with integer constants; it is evaluated over the finite partition of the code-point line
# that those constants induce (an abstract domain of intervals with the test's own constants as end points).
def check_escaper_ranges(col, rule: str, repo: Repo):
    esc = repo.function("cpp_string_literal")
    fn = esc.node
    loops = [n for n in walk_no_nested(fn) if isinstance(n, ast.For)]
    if len(loops) != 1 or not isinstance(loops[0].target, ast.Name):
        col.defer("cpp_string_literal is not one loop over the characters: the escape-range rule cannot be decided on this shape")
        return
    ch = loops[0].target.id
    branch = None
    for n in ast.walk(loops[0]):
        if isinstance(n, ast.If) and any(isinstance(j, ast.JoinedStr) and any(isinstance(v, ast.FormattedValue) and v.format_spec is not None for v in j.values)
                                         for s in n.body for j in ast.walk(s)):
            branch = n
    if branch is None:
        col.defer("cpp_string_literal: branch producing the numeric escape not found: the escape-range rule cannot be decided on this shape")
        return
    consts = set()

    def ev(t, cp):
        if isinstance(t, ast.BoolOp):
            vals = [ev(v, cp) for v in t.values]
            return all(vals) if isinstance(t.op, ast.And) else any(vals)
        if isinstance(t, ast.UnaryOp) and isinstance(t.op, ast.Not):
            return not ev(t.operand, cp)
        if isinstance(t, ast.Compare):
            items = [t.left] + list(t.comparators)
            vals = []
            for it in items:
                if isinstance(it, ast.Name) and it.id != ch:
                    ds_ = defs_of(fn, it.id)          # a local that names the code point (code_point = ord(c))
                    if len(ds_) == 1:
                        it = ds_[0]
                if isinstance(it, ast.Call) and call_name(it) == "ord" and src(it.args[0]) == ch:
                    vals.append(cp)
                elif isinstance(it, ast.Constant) and isinstance(it.value, int):
                    vals.append(it.value)
                elif isinstance(it, ast.Constant) and isinstance(it.value, str) and len(it.value) == 1:
                    vals.append(("chr", ord(it.value)))
                elif isinstance(it, ast.Name) and it.id == ch:
                    vals.append(("chr", cp))
                else:
                    raise AnalysisError(f"cpp_string_literal: escape test operand {src(it)} not understood")
            vals = [v[1] if isinstance(v, tuple) else v for v in vals]
            res = True
            for a, op, b in zip(vals, t.ops, vals[1:]):
                res = res and {ast.Lt: a < b, ast.LtE: a <= b, ast.Gt: a > b, ast.GtE: a >= b, ast.Eq: a == b, ast.NotEq: a != b}[type(op)]
            return res
        raise AnalysisError(f"cpp_string_literal: escape test {src(t)} not understood")

    for c in ast.walk(branch.test):
        if isinstance(c, ast.Constant) and isinstance(c.value, int):
            consts.add(c.value)
        if isinstance(c, ast.Constant) and isinstance(c.value, str) and len(c.value) == 1:
            consts.add(ord(c.value))
    # representative points: every constant, its neighbours, and the ends of the code-point line
    pts = sorted({p for c in consts for p in (c - 1, c, c + 1) if 0 <= p <= 0x10FFFF} | {0, 0x1F, 0x20, 0x7E, 0x7F, 0x80, 0xFF, 0x100, 0x1FF, 0x200, 0xFFFF, 0x10FFFF})
    try:
        taken = [p for p in pts if ev(branch.test, p)]
    except AnalysisError as e:
        col.defer(str(e))
        return
    table_keys = set()
    for n in walk_no_nested(fn):
        if isinstance(n, ast.Assign) and isinstance(n.value, ast.Dict):
            for k in n.value.keys:
                try:
                    table_keys.add(ord(ast.literal_eval(k)))
                except Exception:
                    pass
    ctl_missing = [p for p in pts if (p < 0x20 or p == 0x7F) and p not in taken and p not in table_keys]
    beyond = [p for p in taken if p > 0x7F]
    col.info["escape_test_partition_points"] = len(pts)
    col.add(rule, esc.short, "numeric-escape-for-control-characters-only", not ctl_missing and not beyond,
            f"the three-digit octal escape is taken for code points {[hex(p) for p in taken]} of the partition {len(pts)} points; it must cover every control "
            f"character (missing {[hex(p) for p in ctl_missing]}) and nothing above U+007F (taken above: {[hex(p) for p in beyond][:6]}): an octal escape names "
            "ONE BYTE, so a character above U+007F escaped that way reaches C++ as a different string (columns and trees are then booked under another name)",
            f"{esc.module.rel}:{branch.lineno}")


# ---------------------------------------------------------------------------------------------------------------
# every call site gets its OWN code value: each function that installs `<call>.func = <value>` builds that value by
# calling the CPPCodeValue constructor in this very invocation (the value carries per-call-site facts: the receiver's
# name, the bank literal's position) - a value remembered on the specification or the coder is shared by all call sites.
def check_code_value_per_call_site(col, rule: str, repo: Repo, floor: int = 3):
    n_sites = 0
    for f in repo.all_functions():
        if isinstance(f.node, ast.Lambda):
            continue
        for n in walk_no_nested(f.node):
            if isinstance(n, ast.Assign) and len(n.targets) == 1 and isinstance(n.targets[0], ast.Attribute) and n.targets[0].attr == "func" \
                    and isinstance(n.targets[0].value, ast.Name) and n.targets[0].value.id in [a.arg for a in f.node.args.args]:
                v = n.value
                if isinstance(v, ast.Call) and call_name(v) == "cast" and len(v.args) == 2:
                    v = v.args[1]
                if not isinstance(v, ast.Name):
                    continue
                ds = defs_of(f.node, v.id)
                if not any(isinstance(d, ast.Call) and call_name(d) == "CPPCodeValue" for d in ds):
                    continue
                n_sites += 1
                fresh = all(isinstance(d, ast.Call) and call_name(d) == "CPPCodeValue" and not d.args for d in ds)
                col.add(rule, f.short, "code-value-constructed-for-this-call-site", fresh,
                        f"`{src(n)}`: {v.id} comes from {[src(d)[:40] for d in ds]}; every definition must be a new CPPCodeValue() - one kept on the "
                        "specification/coder is shared by every call site and the last call site visited decides its receiver name and arguments",
                        f"{f.module.rel}:{n.lineno}")
    if n_sites < floor:
        raise AnalysisError(f"{rule}: only {n_sites} functions installing a CPPCodeValue as a call's func were found (at least {floor} confirmed by hand)")


# ---------------------------------------------------------------------------------------------------------------
# every C++ variable a handler introduces is declared: a local bound to crep.cpp_variable(...)/cpp_collection(...) must
# be handed to declare_variable / declare_class_variable (directly, or re-wrapped as cpp_variable(<it>.as_cpp(), ...))
# under no more conditions than its creation.  The name is used by the statements the handler emits afterwards.
def check_created_variables_declared(col, rule: str, repo: Repo, floor: int = 8):
    from sa.core.paths import guards, parent_map
    tr = repo.mod("common.ast_to_cpp_translator")
    n = 0
    for f in tr.all_funcs:
        if isinstance(f.node, ast.Lambda):
            continue
        pm = None
        for a in walk_no_nested(f.node):
            if not (isinstance(a, ast.Assign) and len(a.targets) == 1 and isinstance(a.targets[0], ast.Name) and isinstance(a.value, ast.Call)
                    and call_name(a.value) in ("cpp_variable", "cpp_collection")):
                continue
            name = a.targets[0].id
            # only a fresh identifier needs a declaration: the first argument is (or resolves to) a unique_name(..) call; a value built
            # around an expression's text (a method call's result) names nothing new
            first = resolve_name(f.node, a.value.args[0]) if a.value.args else None
            if not (isinstance(first, ast.Call) and call_name(first) == "unique_name"):
                continue
            pm = pm or parent_map(f.node)
            n += 1
            decls = []
            for c in walk_no_nested(f.node):
                if isinstance(c, ast.Call) and call_name(c) in ("declare_variable", "declare_class_variable") and c.args:
                    x = c.args[0]
                    if isinstance(x, ast.Name) and x.id == name:
                        decls.append(c)
                    elif isinstance(x, ast.Call) and call_name(x) == "cpp_variable" and x.args and src(x.args[0]) == f"{name}.as_cpp()":
                        decls.append(c)
            from sa.core.paths import positive
            asserts = {src(positive(x.test)[0]) for x in ast.walk(f.node) if isinstance(x, ast.Assert)}
            g_create = {(src(t), tr_) for t, tr_ in guards(f.node, a, pm) if src(t) not in asserts}
            ok = any({(src(t), tr_) for t, tr_ in guards(f.node, c, pm) if src(t) not in asserts} <= g_create and ordk(c) > ordk(a) for c in decls)
            col.add(rule, f.short, f"created-variable-is-declared:{name}", ok,
                    f"`{name} = {call_name(a.value)}(...)` introduces a C++ identifier that the emitted statements use; it must be passed to declare_variable "
                    f"(found {len(decls)} declaration call(s) for it, conditions compared with its creation)", f"{f.module.rel}:{a.lineno}")
    if n < floor:
        raise AnalysisError(f"{rule}: only {n} created C++ variables found in the translator (at least {floor} confirmed by hand)")


# ---------------------------------------------------------------------------------------------------------------
# the emission pipeline: what the handlers put into generated_code reaches the template variables.
FORWARDERS = [
    # class, method, field, callee, returns-its-value
    ("query_ast_visitor", "emit_query", "_gc", "emit_query_code", False),
    ("query_ast_visitor", "emit_book", "_gc", "emit_book_code", False),
    ("query_ast_visitor", "class_declaration_code", "_gc", "class_declaration_code", True),
    ("query_ast_visitor", "include_files", "_gc", "include_files", True),
    ("query_ast_visitor", "link_libraries", "_gc", "link_libraries", True),
    ("generated_code", "emit_query_code", "_block", "emit", False),
    ("generated_code", "emit_book_code", "_book_block", "emit", False),
]


def check_emission_pipeline(col, rule: str, repo: Repo):
    for cname, mname, fld, callee, returns in FORWARDERS:
        f = repo.method(cname, mname)
        params = [a.arg for a in f.node.args.args[1:]]
        body = [s for s in f.node.body if not (isinstance(s, ast.Expr) and isinstance(s.value, ast.Constant))]
        calls = [c for c in walk_no_nested(f.node) if isinstance(c, ast.Call) and isinstance(c.func, ast.Attribute) and c.func.attr == callee
                 and src(c.func.value) == f"self.{fld}"]
        ok = len(calls) == 1 and [src(a) for a in calls[0].args] == params
        if ok:
            from sa.core.paths import guards, parent_map
            ok = not [t for t, _ in guards(f.node, calls[0], parent_map(f.node)) if not isinstance(t, ast.Constant)]
        if ok and returns:
            rets = [r for r in walk_no_nested(f.node) if isinstance(r, ast.Return)]
            ok = len(rets) == 1 and (rets[0].value is calls[0] or (isinstance(rets[0].value, ast.Name) and any(d is calls[0] for d in defs_of(f.node, rets[0].value.id))))
        col.add(rule, f.short, f"forwards-to:{fld}.{callee}", ok,
                f"{cname}.{mname} must hand {'back ' if returns else ''}self.{fld}.{callee}({', '.join(params)}) unconditionally: it is the only way the "
                "statements collected during translation reach the rendered files", f.loc)
    wf = repo.method("executor", "write_cpp_files", hint="common.executor")
    fn = wf.node
    items = {}
    for n in walk_no_nested(fn):
        if isinstance(n, ast.Assign) and isinstance(n.targets[0], ast.Subscript) and src(n.targets[0].value) == "info":
            from sa.core.pyfacts import const_str as _cs
            items[_cs(n.targets[0].slice)] = n.value
    vis = [n.targets[0].id for n in walk_no_nested(fn) if isinstance(n, ast.Assign) and isinstance(n.value, ast.Call) and call_name(n.value) == "get_visitor_obj"
           and isinstance(n.targets[0], ast.Name)]
    qv = vis[0] if len(vis) == 1 else None
    for key, via in (("query_code", "emit_query"), ("book_code", "emit_book")):
        v = items.get(key)
        ok = False
        if qv and isinstance(v, ast.Call) and call_name(v) == "lines_of_query_code" and isinstance(v.func.value, ast.Name):
            em = v.func.value.id
            fed = [c for c in walk_no_nested(fn) if isinstance(c, ast.Call) and isinstance(c.func, ast.Attribute) and src(c.func.value) == qv
                   and [src(a) for a in c.args] == [em]]
            made = defs_of(fn, em)
            ok = len(fed) == 1 and fed[0].func.attr == via and ordk(fed[0]) < ordk(v) and len(made) == 1 and isinstance(made[0], ast.Call) and not made[0].args
        col.add(rule, wf.short, f"info[{key}]<-{via}", ok,
                f"info['{key}'] must be the lines of a new emitter that was filled by {qv}.{via}(<that emitter>) (found {src(v) if v is not None else None})", wf.loc)
    v = items.get("class_decl")
    ok = qv is not None and v is not None and src(resolve_name(fn, v)) == f"{qv}.class_declaration_code()"
    col.add(rule, wf.short, "info[class_decl]<-class_declaration_code", ok,
            f"info['class_decl'] must be {qv}.class_declaration_code() (found {src(v) if v is not None else None})", wf.loc)


def is_plain_terminal(e, tname: str) -> bool:
    """ctyp.terminal("<tname>") with no indirection, constness or tree type: every further argument is a falsy constant"""
    if not (isinstance(e, ast.Call) and call_name(e) == "terminal" and e.args and isinstance(e.args[0], ast.Constant) and e.args[0].value == tname):
        return False
    rest = list(e.args[1:]) + [k.value for k in e.keywords]
    return all(isinstance(a, ast.Constant) and not a.value for a in rest)


# ---------------------------------------------------------------------------------------------------------------
# lambda-argument frames (shared by C08: bound names, and C09: a name that is not bound where it is used is refused)
def check_lambda_frames(col, rule: str, repo: Repo, m):
    from sa.core.paths import enclosing, parent_map
    col.floor(rule, 5)
    sites = []
    for f in repo.all_functions():
        for c in walk_no_nested(f.node):
            if isinstance(c, ast.Call) and call_name(c) == "define_name":
                sites.append((f, c))
    if not sites:
        raise AnalysisError("no define_name call found: lambda parameters are never bound")
    for f, c in sites:
        pm = parent_map(f.node)
        withs = [w for w in enclosing(f.node, c, (ast.With,), pm)
                 if any(isinstance(i.context_expr, ast.Call) and call_name(i.context_expr) == "stack_frame" and src(i.context_expr.args[0]) == src(c.func.value)
                        for i in w.items)]
        col.add(rule, f.short, "binding-inside-its-own-frame", len(withs) == 1,
                "define_name must be called lexically inside `with stack_frame(<the same stack>)`: a binding made in the enclosing frame outlives the "
                "lambda and captures later uses of an outer parameter of the same name", f"{f.module.rel}:{c.lineno}")
        if withs:
            w = withs[0]
            body_tr = [x for x in ast.walk(w) if isinstance(x, ast.Call) and call_name(x) in ("get_rep", "get_rep_value", "visit") and ".func.body" in src(x)]
            col.add(rule, f.short, "body-translated-inside-the-same-frame", len(body_tr) == 1,
                    "the lambda body must be translated while its frame is live (inside the same with block)", f"{f.module.rel}:{w.lineno}")
        # positional pairing and key-only use of the name
        loops = enclosing(f.node, c, (ast.For,), pm)
        ok = False
        if loops:
            lp = loops[0]
            it = lp.iter
            # (the zipped pair is read by position - E-NORM N14: element 0 the call's argument, element 1 the lambda's parameter)
            ok = isinstance(it, ast.Call) and call_name(it) == "zip" and [src(a) for a in it.args] == ["call_node.args", "call_node.func.args.args"] \
                and isinstance(lp.target, ast.Name) and [src(a) for a in c.args] == [f"{lp.target.id}[1].arg", f"{lp.target.id}[0]"]
        col.add(rule, f.short, "parameter-k-bound-to-argument-k", ok,
                "bindings must pair call arguments and lambda parameters by position: define_name(<param>.arg, <argument>) over zip(call.args, lambda.args.args)",
                f"{f.module.rel}:{c.lineno}")
        uses = [n for n in ast.walk(f.node) if isinstance(n, ast.Attribute) and n.attr == "arg" and isinstance(n.value, (ast.Name, ast.Subscript))]
        col.add(rule, f.short, "parameter-name-is-only-a-key", len(uses) == 1,
                f"the parameter's name text must not flow anywhere but the binding key ({len(uses)} uses of .arg)", f.loc)
    other = [f"{f.short}:{call_name(c)}" for f in repo.all_functions() for c in walk_no_nested(f.node)
             if isinstance(c, ast.Call) and call_name(c) in ("push_stack_frame", "pop_stack_frame")]
    col.add(rule, "func_adl_xAOD", "no-manual-frame-push-or-pop", not other, f"manual frame operations: {other}")
    vcl = m.get("visit_Call_Lambda")
    if vcl is None:
        raise AnalysisError("visit_Call_Lambda not found")
    col.add(rule, vcl.short, "single-binding-site", [f.short for f, _ in sites] == [vcl.short],
            f"define_name is called from {[f.short for f, _ in sites]}; only visit_Call_Lambda may bind names")



# ---------------------------------------------------------------------------------------------------------------
# CMS job configuration: every line of filelist.txt becomes an input file (no filter between the list and PoolSource)
def check_cfg_filelist(col, rule: str):
    from sa.core.common import REPO
    for r in ("r5", "r7"):
        rel = f"func_adl_xAOD/template/cms/{r}/analyzer_cfg.py"
        p = REPO / rel
        if not p.exists():
            raise AnalysisError(f"{rel} not found")
        tree = ast.parse(p.read_text())
        defs = {}
        for n in tree.body:
            if isinstance(n, ast.Assign) and len(n.targets) == 1 and isinstance(n.targets[0], ast.Name):
                defs.setdefault(n.targets[0].id, []).append(n.value)
        src_kw = [k for k in ast.walk(tree) if isinstance(k, ast.keyword) and k.arg == "fileNames"]
        seen, work, filters, reads = set(), [k.value for k in src_kw], [], False
        while work:
            e = work.pop()
            for x in ast.walk(e):
                if isinstance(x, ast.comprehension) and x.ifs:
                    filters += [src(i) for i in x.ifs]
                if isinstance(x, ast.Call) and call_name(x) in ("filter", "takewhile", "islice"):
                    filters.append(src(x)[:50])
                if isinstance(x, ast.Subscript) and isinstance(x.slice, ast.Slice) and not isinstance(x.value, ast.Constant):
                    filters.append(src(x)[:50])
                if isinstance(x, ast.Call) and call_name(x) in ("readlines", "read", "open") :
                    reads = True
                if isinstance(x, ast.Name) and x.id in defs and x.id not in seen:
                    seen.add(x.id)
                    work.extend(defs[x.id])
        col.add(rule, f"template:cms/{r}/analyzer_cfg.py", "every-listed-file-is-an-input", len(src_kw) == 1 and reads and not filters,
                f"PoolSource.fileNames must be built from every line of the file list; conditions/slices on the way: {filters}: a listed file that "
                "is silently left out gives a result made from a subset", rel)


# ---------------------------------------------------------------------------------------------------------------
# the three backends translate alike: a backend visitor overrides only what the base class leaves abstract
def check_backend_visitors_override_only_abstract(col, rule: str, repo: Repo):
    base = repo.find_class("query_ast_visitor", hint="common.ast_to_cpp_translator")
    abstract = {n for n, f in base.methods.items() if any("abstractmethod" in src(d) for d in f.node.decorator_list)}
    subs = repo.subclasses(base)
    if len(subs) < 3:
        raise AnalysisError(f"{rule}: {len(subs)} backend visitors found (3 confirmed by hand)")
    for k in subs:
        extra = sorted(n for n in k.methods if n not in abstract and n != "__init__")
        col.add(rule, k.name, "overrides-only-the-abstract-hooks", not extra,
                f"{k.name} overrides {extra} of the shared translator: the property is stated for all three backends alike, and a handler that one "
                f"backend re-defines (abstract hooks are {sorted(abstract)}) translates the same query differently there", k.module.rel)


# ---------------------------------------------------------------------------------------------------------------
# default method types are registered at construction and in reset() only - never between a query's metadata and its translation
def check_default_types_not_reapplied(col, rule: str, repo: Repo):
    n = 0
    for f in repo.all_functions():
        for c in walk_no_nested(f.node):
            if isinstance(c, ast.Call) and call_name(c).startswith("define_default") and call_name(c).endswith("types"):
                n += 1
                ok = f.name in ("__init__", "reset")
                col.add(rule, f.short, f"defaults-registered-only-at-construction-or-reset:{call_name(c)}", ok,
                        f"{f.short} calls {call_name(c)}(): write_cpp_files obtains its visitor AFTER the query's metadata was processed, so defaults "
                        "registered anywhere on that path overwrite the types the query declared for the same methods", f"{f.module.rel}:{c.lineno}")
    if n < 6:
        raise AnalysisError(f"{rule}: {n} default-type registrations found (6 confirmed by hand)")


# ---------------------------------------------------------------------------------------------------------------
# build configuration: no compiler option that relaxes IEEE arithmetic
def check_no_fast_math(col, rule: str):
    from sa.core.common import REPO
    import re as _re
    pat = _re.compile(r"-Ofast|-ffast-math|-funsafe-math-optimizations|-ffinite-math-only|-fassociative-math|-freciprocal-math|-fno-signed-zeros|-fno-trapping-math|/fp:fast")
    n = 0
    for p in sorted((REPO / "func_adl_xAOD/template").rglob("*")):
        if p.is_file() and p.name in ("package_CMakeLists.txt", "BuildFile.xml", "runner.sh", "ATestRun_eljob.py", "analyzer_cfg.py"):
            n += 1
            hits = pat.findall(p.read_text())
            col.add(rule, f"template:{p.relative_to(REPO / 'func_adl_xAOD/template')}", "no-value-changing-compiler-option", not hits,
                    f"{hits}: such options let the compiler re-associate sums, replace divisions by reciprocal multiplications and assume no NaN/inf - "
                    "the job then no longer computes what the emitted expressions say", str(p.relative_to(REPO)))
    if n < 8:
        raise AnalysisError(f"{rule}: {n} build/run configuration files found (8 confirmed by hand)")


# ---------------------------------------------------------------------------------------------------------------
# a comparison is rendered from its operands' own C++ text (shared by C13: operators, and C18: a constant operand keeps its value and kind)
def check_compare_operands_verbatim(col, rule: str, m):
    from sa.core.templates import parts, shape
    vc = m.get("visit_Compare")
    if vc is None:
        raise AnalysisError("visit_Compare not found")
    tpl = [c for c in ast.walk(vc.node) if isinstance(c, ast.Call) and call_name(c) == "cpp_value"]
    sh = shape(parts(vc.node, tpl[0].args[0])) if len(tpl) == 1 else []
    lr = {k: src(resolve_name(vc.node, ast.Name(id=k, ctx=ast.Load()))) for k in ("left", "right")}
    ok = sh == ["(", "{left.as_cpp()}", "{compare_operations[type(node.ops[0])]}", "{right.as_cpp()}", ")"] \
        and "node.left" in lr["left"] and "node.comparators[0]" in lr["right"]
    col.add(rule, vc.short, "comparison-operands-rendered-as-they-are", ok,
            f"both sides of a comparison must be the complete C++ text of their representations (template {sh}): re-rendering a constant operand "
            "(a float suffix, a cast, fewer digits) changes its value or kind", vc.loc)


# ---------------------------------------------------------------------------------------------------------------
# generated names are made where they are used: unique_name() never runs at import time (module/class level, default argument)
def check_unique_names_per_use(col, rule: str, repo: Repo):
    bad = []
    n_sites = 0
    for mod in repo.modules.values():
        for n in ast.walk(mod.tree):
            if isinstance(n, ast.Call) and call_name(n) == "unique_name":
                n_sites += 1
                f = repo.enclosing_func(mod, n)
                if f is None:
                    bad.append(f"{mod.rel}:{n.lineno} (module/class level)")
                else:
                    g = f
                    while g is not None:
                        if isinstance(g.node, ast.Lambda):
                            dflts = list(g.node.args.defaults) + [d for d in g.node.args.kw_defaults if d is not None]
                        else:
                            dflts = list(g.node.args.defaults) + [d for d in g.node.args.kw_defaults if d is not None]
                        if any(n is x for d in dflts for x in ast.walk(d)):
                            bad.append(f"{mod.rel}:{n.lineno} (default argument of {g.short}: evaluated once, at import)")
                        g = g.parent
    if n_sites < 10:
        raise AnalysisError(f"{rule}: {n_sites} unique_name call sites found (at least 10 confirmed by hand)")
    col.add(rule, "func_adl_xAOD", "names-generated-per-use", not bad,
            f"unique_name() evaluated once per process gives every use the same C++ name: {bad}", "func_adl_xAOD")


# ---------------------------------------------------------------------------------------------------------------
# static well-formedness of the non-Python templates: delimiters balance once jinja tags are blanked (C/C++, CMake),
# the XML fragments parse, the Python job files parse.  A template that is not balanced cannot render a compilable package.
def check_template_balance(col, rule: str):
    import re as _re
    from sa.core.common import REPO
    base = REPO / "func_adl_xAOD/template"
    n = 0
    for p in sorted(base.rglob("*")):
        if not p.is_file():
            continue
        rel = str(p.relative_to(REPO))
        txt = p.read_text()
        kind = None
        if p.suffix in (".cc", ".cxx", ".h", ".C"):
            kind = "c++"
        elif p.name.endswith("CMakeLists.txt"):
            kind = "cmake"
        elif p.suffix == ".xml":
            kind = "xml"
        elif p.suffix == ".py":
            kind = "python"
        if kind is None:
            continue
        n += 1
        body = _re.sub(r"\{#.*?#\}", " ", txt, flags=_re.S)          # jinja comments render to nothing
        body = _re.sub(r"\{%-?.*?-?%\}", " ", body, flags=_re.S)
        body = _re.sub(r"\{\{.*?\}\}", "x", body, flags=_re.S)
        ok, why = True, ""
        if kind == "python":
            try:
                ast.parse(body)
            except SyntaxError as e:
                ok, why = False, f"does not parse as Python: {e.msg} (line {e.lineno})"
        elif kind == "xml":
            import xml.etree.ElementTree as ET
            try:
                ET.fromstring("<root>" + body + "</root>")
            except ET.ParseError as e:
                ok, why = False, f"not well-formed XML: {e}"
        else:
            if kind == "c++":
                body = _re.sub(r"//[^\n]*", "", body)
                body = _re.sub(r"/\*.*?\*/", "", body, flags=_re.S)
                body = _re.sub(r'"(?:\\.|[^"\\\n])*"', '""', body)
                body = _re.sub(r"'(?:\\.|[^'\\\n])'", "''", body)
            else:
                body = _re.sub(r"#[^\n]*", "", body)
                body = _re.sub(r'"(?:\\.|[^"\\])*"', '""', body)
            pairs = {")": "(", "]": "[", "}": "{"}
            stack = []
            line = 1
            for ch in body:
                if ch == "\n":
                    line += 1
                elif ch in "([{":
                    stack.append((ch, line))
                elif ch in ")]}":
                    if not stack or stack[-1][0] != pairs[ch]:
                        ok, why = False, f"unmatched `{ch}` at line {line}"
                        break
                    stack.pop()
            if ok and stack:
                ok, why = False, f"`{stack[-1][0]}` opened at line {stack[-1][1]} is never closed"
        col.add(rule, f"template:{p.relative_to(base)}", "well-formed-with-tags-blanked", ok,
                f"{kind} template {why or 'balances'}: an unbalanced template renders a package that cannot be built", rel)
    if n < 12:
        raise AnalysisError(f"{rule}: only {n} structured templates found (12 confirmed by hand)")


def cast_exactly_on_type_mismatch(emit_fn: ast.AST) -> Tuple[bool, str]:
    """C02.R7 / C13.R6, stated on what `add_line` finally receives along each path (however the text is assembled: two calls in an if/else,
    a local extended or chosen first, a helper that E-INLINE put back): the emitted text contains `static_cast<T>(..)` exactly on the paths
    on which all of `<target type> is not None`, `<value>.has_cpp_type()` and `<target type>.type != <value>.cpp_type().type` are known to
    hold, and T is that same `<target type>.type`."""
    from sa.core.paths import substituted_paths
    seen_cast = seen_plain = 0
    for items in substituted_paths(emit_fn):
        lines = [c for k, c, *_ in items if k == "call" and call_name(c) == "add_line"]
        if any(k == "raise" for k, *_ in items):
            continue
        if len(lines) != 1:
            return False, f"a path emits {len(lines)} lines"
        text = src(lines[0].args[0]) if lines[0].args else ""
        atoms_true = set()
        atoms_false = []
        for it in items:
            if it[0] != "cond":
                continue
            t, tr = it[1], it[2]
            conj = t.values if isinstance(t, ast.BoolOp) and isinstance(t.op, ast.And) else [t]
            if tr:
                for a in conj:
                    atoms_true.add(src(a))
            else:
                atoms_false.append([src(a) for a in conj])
                # a single comparison known to be false is its complement known to be true (an if/elif ladder that rules the cases out one by one)
                if len(conj) == 1 and isinstance(conj[0], ast.Compare) and len(conj[0].ops) == 1:
                    comp = {ast.Eq: "!=", ast.NotEq: "==", ast.Is: "is not", ast.IsNot: "is"}.get(type(conj[0].ops[0]))
                    if comp:
                        atoms_true.add(f"{src(conj[0].left)} {comp} {src(conj[0].comparators[0])}")
                if len(conj) == 1 and isinstance(conj[0], ast.UnaryOp) and isinstance(conj[0].op, ast.Not):
                    atoms_true.add(src(conj[0].operand))
                # `A or B` known false: both false
                if len(conj) == 1 and isinstance(conj[0], ast.BoolOp) and isinstance(conj[0].op, ast.Or):
                    for a in conj[0].values:
                        if isinstance(a, ast.UnaryOp) and isinstance(a.op, ast.Not):
                            atoms_true.add(src(a.operand))
                        elif isinstance(a, ast.Compare) and len(a.ops) == 1:
                            comp = {ast.Eq: "!=", ast.NotEq: "==", ast.Is: "is not", ast.IsNot: "is"}.get(type(a.ops[0]))
                            if comp:
                                atoms_true.add(f"{src(a.left)} {comp} {src(a.comparators[0])}")
        mism = [a for a in atoms_true if re.fullmatch(r"(.+)\.type != (.+)\.cpp_type\(\)\.type", a)]
        full = False
        for a in mism:
            m = re.fullmatch(r"(.+)\.type != (.+)\.cpp_type\(\)\.type", a)
            tt, val = m.group(1), m.group(2)
            known = f"{tt} is not None" in atoms_true or (tt.endswith(".cpp_type()") and f"{tt[:-len('.cpp_type()')]}.has_cpp_type()" in atoms_true)
            if known and f"{val}.has_cpp_type()" in atoms_true:
                full = True
                if "static_cast<" in text and f"static_cast<{{{tt}.type}}>({{{val}.as_cpp()}})" not in text.replace(" ", ""):
                    return False, f"the cast is not static_cast<{tt}.type>({val}.as_cpp()): {text[:90]}"
        # `A is not None` may be spelled through positive(): accept `A is None` known false
        if not full:
            for a in atoms_true:
                m = re.fullmatch(r"(.+)\.type != (.+)\.cpp_type\(\)\.type", a)
                if m and f"{m.group(2)}.has_cpp_type()" in atoms_true and any(f == [f"{m.group(1)} is None"] for f in atoms_false):
                    full = True
        has_cast = "static_cast<" in text
        # a flag that carries the cast type (cast_to = <tt>.type ... if cast_to is not None) is None only on the arms that set it to None: the
        # path "type name assigned, then found to be None" does not exist (a type's name is a string)
        if full and not has_cast and any(re.fullmatch(r".+\.type is not None", " ".join(f)) for f in atoms_false if len(f) == 1):
            continue
        if full and not has_cast and any(re.fullmatch(r".+\.type is None", a) for a in atoms_true):
            continue
        if has_cast != full:
            return False, ("a cast is emitted on a path where the three conditions are not all established" if has_cast
                           else "no cast on the path where both types are known and differ") + f": {text[:80]}"
        seen_cast += has_cast
        seen_plain += (not has_cast)
    if not seen_cast or not seen_plain:
        return False, f"paths with a cast: {seen_cast}, without: {seen_plain}"
    return True, "cast exactly when both types are known and differ"


def range_count(e: ast.AST) -> Optional[Tuple[str, int]]:
    """(symbol, offset): the number of iterations of `for .. in <e>` when e is range(..) with unit step, as symbol + offset
    (`range(1, depth)`, `range(depth - 1)`, `range(0, depth - 1)` are all ('depth', -1); a constant count has symbol '')."""
    if not (isinstance(e, ast.Call) and isinstance(e.func, ast.Name) and e.func.id == "range" and not e.keywords and 1 <= len(e.args) <= 2):
        return None

    def lin(x) -> Optional[Tuple[str, int]]:
        if isinstance(x, ast.Constant) and isinstance(x.value, int) and not isinstance(x.value, bool):
            return ("", x.value)
        if isinstance(x, ast.BinOp) and isinstance(x.op, (ast.Add, ast.Sub)):
            a, b = lin(x.left), lin(x.right)
            if a is None or b is None:
                return None
            sign = 1 if isinstance(x.op, ast.Add) else -1
            if b[0] == "":
                return (a[0], a[1] + sign * b[1])
            if a[0] == "" and sign == 1:
                return (b[0], a[1] + b[1])
            return None
        if isinstance(x, (ast.Name, ast.Attribute)):
            return (src(x), 0)
        return None
    lo = ("", 0) if len(e.args) == 1 else lin(e.args[0])
    hi = lin(e.args[-1])
    if lo is None or hi is None or lo[0] != "":
        return None
    return (hi[0], hi[1] - lo[1])


def flat_concat(fn: ast.AST) -> Optional[Tuple[str, ast.AST, str]]:
    """(source, per-item expression, item variable) when fn returns, in order and complete, the concatenation of <expr(item)> for item in <source>:
       list(chain(*[E for x in S])) / chain.from_iterable(E for x in S) / [y for x in S for y in E] / sum((E for x in S), []) /
       acc = []; for x in S: acc.extend(E) (or acc += E); return acc.      None for anything else (conditions, sorting, sets, slices...)."""
    rets = [r for r in walk_no_nested(fn) if isinstance(r, ast.Return) and r.value is not None]
    if len(rets) != 1:
        return None
    v = rets[0].value

    def comp(c):
        if isinstance(c, (ast.ListComp, ast.GeneratorExp)) and len(c.generators) == 1 and not c.generators[0].ifs and isinstance(c.generators[0].target, ast.Name):
            return src(c.generators[0].iter), c.elt, c.generators[0].target.id
        return None
    e = v
    if isinstance(e, ast.Call) and isinstance(e.func, ast.Name) and e.func.id == "list" and len(e.args) == 1 and not e.keywords:
        e = e.args[0]
    if isinstance(e, ast.Call) and call_name(e) == "chain" and len(e.args) == 1 and isinstance(e.args[0], ast.Starred) and not e.keywords:
        return comp(e.args[0].value)
    if isinstance(e, ast.Call) and call_name(e) == "from_iterable" and len(e.args) == 1 and not e.keywords:
        return comp(e.args[0])
    if isinstance(e, ast.Call) and isinstance(e.func, ast.Name) and e.func.id == "sum" and len(e.args) == 2 and src(e.args[1]) in ("[]", "list()"):
        return comp(e.args[0])
    if isinstance(v, ast.ListComp) and len(v.generators) == 2 and not v.generators[0].ifs and not v.generators[1].ifs \
            and isinstance(v.generators[0].target, ast.Name) and src(v.elt) == src(v.generators[1].target):
        return src(v.generators[0].iter), v.generators[1].iter, v.generators[0].target.id
    if isinstance(v, ast.Name):
        acc = v.id
        body = [s for s in fn.body if not (isinstance(s, ast.Expr) and isinstance(s.value, ast.Constant))]
        if len(body) == 3 and isinstance(body[0], ast.Assign) and src(body[0].targets[0]) == acc and src(body[0].value) in ("[]", "list()") \
                and isinstance(body[1], ast.For) and not body[1].orelse and isinstance(body[1].target, ast.Name) and len(body[1].body) == 1 and body[2] is rets[0]:
            st = body[1].body[0]
            if isinstance(st, ast.Expr) and isinstance(st.value, ast.Call) and call_name(st.value) == "extend" and src(st.value.func.value) == acc and len(st.value.args) == 1:
                return src(body[1].iter), st.value.args[0], body[1].target.id
            if isinstance(st, ast.AugAssign) and isinstance(st.op, ast.Add) and src(st.target) == acc:
                return src(body[1].iter), st.value, body[1].target.id
    return None


def selected_by_type(fn: ast.AST, target_src: str, class_name: str) -> Optional[str]:
    """the source list when <target> ends up holding exactly the items of a list that are instances of <class_name>, in order:
         target = [x for x in S if isinstance(x, C)]
         tmp = []; for x in S: if isinstance(x, C): tmp.append(x) (other statements for other kinds may share the loop); target = tmp
       returns src(S), or None"""
    from sa.core.paths import guards, parent_map, enclosing
    pm = parent_map(fn)
    assigned = [st for st in walk_no_nested(fn) if isinstance(st, ast.Assign) and len(st.targets) == 1 and src(st.targets[0]) == target_src]
    if len(assigned) != 1:
        return None
    v = assigned[0].value
    if isinstance(v, ast.ListComp) and len(v.generators) == 1 and isinstance(v.generators[0].target, ast.Name) and src(v.elt) == v.generators[0].target.id \
            and len(v.generators[0].ifs) == 1:
        t = v.generators[0].ifs[0]
        if isinstance(t, ast.Call) and call_name(t) == "isinstance" and src(t.args[0]) == v.generators[0].target.id and src(t.args[1]).split(".")[-1] == class_name:
            return src(v.generators[0].iter)
        return None
    if isinstance(v, ast.Name) or src(v) in ("[]", "list()"):
        # collected in a local that is assigned to the target afterwards, or in the target itself after it was set to the empty list
        in_place = not isinstance(v, ast.Name)
        tmp = target_src if in_place else v.id
        inits = [st for st in walk_no_nested(fn) if isinstance(st, ast.Assign) and len(st.targets) == 1 and src(st.targets[0]) == tmp]
        apps = [c for c in walk_no_nested(fn) if isinstance(c, ast.Call) and call_name(c) in ("append", "extend", "insert", "remove", "pop", "clear", "sort", "reverse")
                and src(c.func.value) == tmp]
        if len(inits) == 1 and src(inits[0].value) in ("[]", "list()") and len(apps) == 1 and call_name(apps[0]) == "append" and ordk(inits[0]) < ordk(apps[0]) \
                and (in_place or ordk(apps[0]) < ordk(assigned[0])):
            lps = enclosing(fn, apps[0], (ast.For,), pm)
            if len(lps) == 1 and isinstance(lps[0].target, ast.Name) and src(apps[0].args[0]) == lps[0].target.id \
                    and not any(isinstance(x, (ast.Break, ast.Continue)) for x in ast.walk(lps[0])):
                gs = {(src(t), tr) for t, tr in guards(lps[0], apps[0], pm)}
                want = [g for g in gs if g[1] and re.fullmatch(rf"isinstance\({lps[0].target.id}, (\w+\.)*{class_name}\)", g[0])]
                if want and len(gs) == 1:
                    return src(lps[0].iter)
    return None


def mapped_list(fn: ast.AST, target_src: str) -> Optional[Tuple[str, ast.AST, str]]:
    """(source, per-item expression, item variable) when <target> is assigned, once, the list of E(x) for every x of <source>, in order:
         target = [E for x in S]      |     tmp = []; for x in S: tmp.append(E) (nothing else in the loop decides or leaves); target = tmp
         target = list(map(f, S))  (E is then the call f(x))"""
    from sa.core.paths import guards, parent_map, enclosing
    assigned = [st for st in walk_no_nested(fn) if isinstance(st, ast.Assign) and len(st.targets) == 1 and src(st.targets[0]) == target_src]
    if len(assigned) != 1:
        return None
    v = assigned[0].value
    if isinstance(v, ast.ListComp) and len(v.generators) == 1 and not v.generators[0].ifs and isinstance(v.generators[0].target, ast.Name):
        return src(v.generators[0].iter), v.elt, v.generators[0].target.id
    if isinstance(v, ast.Call) and isinstance(v.func, ast.Name) and v.func.id == "list" and len(v.args) == 1 and isinstance(v.args[0], ast.Call) \
            and isinstance(v.args[0].func, ast.Name) and v.args[0].func.id == "map" and len(v.args[0].args) == 2:
        f_, s_ = v.args[0].args
        x = ast.Name(id="_x", ctx=ast.Load())
        return src(s_), ast.Call(func=f_, args=[x], keywords=[]), "_x"
    if isinstance(v, ast.Name):
        tmp = v.id
        pm = parent_map(fn)
        inits = [st for st in walk_no_nested(fn) if isinstance(st, ast.Assign) and len(st.targets) == 1 and src(st.targets[0]) == tmp]
        muts = [c for c in walk_no_nested(fn) if isinstance(c, ast.Call) and isinstance(c.func, ast.Attribute) and src(c.func.value) == tmp
                and c.func.attr in ("append", "extend", "insert", "remove", "pop", "clear", "sort", "reverse")]
        if len(inits) == 1 and src(inits[0].value) in ("[]", "list()") and muts and all(m.func.attr == "append" and len(m.args) == 1 for m in muts) \
                and all(ordk(inits[0]) < ordk(m) < ordk(assigned[0]) for m in muts):
            lps = enclosing(fn, muts[0], (ast.For,), pm)
            if len(lps) == 1 and isinstance(lps[0].target, ast.Name) and all(enclosing(fn, m, (ast.For,), pm) == lps for m in muts) \
                    and not any(isinstance(x, (ast.Break, ast.Continue, ast.Return, ast.Raise)) for x in ast.walk(lps[0])):
                # exactly one append on every path through the loop body (an if/else with one append in each arm is one conditional value)
                from sa.core.paths import enumerate_paths
                fake = ast.FunctionDef(name="_", args=ast.arguments(posonlyargs=[], args=[], kwonlyargs=[], kw_defaults=[], defaults=[]),
                                       body=lps[0].body, decorator_list=[], lineno=lps[0].lineno)
                counts = [sum(1 for e in p.events if e.kind == "call" and any(e.node is m for m in muts)) for p in enumerate_paths(fake, unroll=1)]
                if counts and all(c == 1 for c in counts):
                    vals = [m.args[0] for m in muts]
                    val = vals[0]
                    for extra in vals[1:]:
                        val = ast.IfExp(test=ast.Constant(value=True), body=val, orelse=extra)    # alternatives, read with conditional_defs_expr
                    return src(lps[0].iter), val, lps[0].target.id
    return None


def check_finder_receivers(col, rule: str, repo: Repo):
    """Plug-in calls (e.Jets(..), j.getAttributeFloat(..), the refusal of the templated getAttribute, metadata methods) are recognised by name.
    A method-style call must be recognised whatever expression its receiver is: a test on the receiver's syntactic form lets
    `p.parent().getAttribute('x')` through as an ordinary method call where `p.getAttribute('x')` is refused / rewritten."""
    from sa.core.paths import guards, parent_map
    c = repo.find_class("cpp_ast_finder")
    v = c.methods.get("visit_Call")
    if v is None:
        raise AnalysisError("cpp_ast_finder.visit_Call not found")
    pm = parent_map(v.node)
    tries = [(x, x.args[0]) for x in walk_no_nested(v.node) if isinstance(x, ast.Call) and call_name(x) == "try_call" and x.args]
    tries += [(x, x.func.slice) for x in walk_no_nested(v.node) if isinstance(x, ast.Call) and isinstance(x.func, ast.Subscript)
              and src(x.func.value) == "self._method_names"]
    restricted = []
    n_method_style = 0
    for t, key_expr in tries:
        site_guards = {(src(g), tr) for g, tr in guards(v.node, t, pm)}
        # the name that is looked up, with the conditions under which it is the callee's attribute name (written at the call, or chosen first)
        for val, gs in conditional_defs(v.node, key_expr):
            if not src(val).endswith(".attr"):
                continue
            n_method_style += 1
            for s_, tr in set(gs) | site_guards:
                if tr and re.search(r"\.value\b", s_) and ("ast.Name" in s_ or "isinstance" in s_ or "type(" in s_):
                    restricted.append(s_)
    if not n_method_style:
        raise AnalysisError("cpp_ast_finder.visit_Call: no try_call(<callee>.attr, ..) for method-style calls")
    col.add(rule, "cpp_ast_finder.visit_Call", "method-style-call-recognised-for-every-receiver", not restricted,
            f"method-style plug-in calls are looked up only under {sorted(set(restricted))}: a call on any other receiver (p.parent().getAttribute('x'), "
            "jets.First().getAttributeFloat('w')) is left as an ordinary method call - the refusal / rewriting silently does not happen", v.loc)
