"""C03 - the output tree schema and returned descriptor match the query's final shape.

Decided: one list feeds declaration, booking, filling and clearing; the count
check dominates the column zips; default and dict names; one tree name; booking
emitters; file-name agreement across artefacts; tree_type honoured; the
conditional's result type.  Not decided: that the element type inferred for an
arbitrary expression is the Python type.
"""
from __future__ import annotations

import ast
import re

from sa.core.common import AnalysisError, Collector, REPO
from sa.core.paths import enumerate_paths
from sa.core.pyfacts import Repo, arg, call_name, const_str, kwarg, src, walk_no_nested
from sa.core.templates import parts, shape
from sa.props._tr import defs_of, resolve_name, visitor_methods

EXPLANATION = (
    "R1 in call_ResultTTree the list var_names, built by one comprehension over zip(column_names, values) with "
    "cpp_type=get_ttree_type(<the zipped value>), is used whole (never sliced or filtered) to declare the class variables, to "
    "book the branches, to fill and to clear; R2 on every path the raise on len(values) != len(column_names) precedes the first "
    "zip; R3 default names carry the position index, dict keys and dict values come from the same dict, a bare value is 'col1', "
    "the default tree is '<prefix>_tree' with the backend's own prefix; R4 one tree_name local feeds the booking object, the "
    "fill object and the returned descriptor, whose scope is the current scope; R5 each backend's booking emitter iterates all "
    "leaves and emits Branch(<escaped name>, &<that variable>) on a tree created with the tree name; the factories return "
    "their own backend's classes; R6 the descriptor's file name equals what each runner delivers, the EventLoop stream and "
    "CMS_OUTPUT_FILE; R7 get_ttree_type uses tree_type in both branches and wraps sequences in a collection; R8 a conditional's "
    "result is double and never re-typed."
)
ASSUMPTIONS = ["TTree::Branch(name, &variable) binds the named column to that variable (ROOT semantics)"]

PREFIX = {"atlas_xaod_query_ast_visitor": "atlas_xaod", "cms_aod_query_ast_visitor": "cms_aod", "cms_miniaod_query_ast_visitor": "cms_miniaod"}
BACKEND_CLASSES = {"atlas_xaod_query_ast_visitor": ("book_xaod_ttree", "xaod_ttree_fill"),
                   "cms_aod_query_ast_visitor": ("book_cms_aod_ttree", "cms_aod_ttree_fill"),
                   "cms_miniaod_query_ast_visitor": ("book_cms_miniaod_ttree", "cms_miniaod_ttree_fill")}


def check_count_guard(col: Collector, rule: str, repo: Repo):
    f = repo.method("query_ast_visitor", "call_ResultTTree")
    paths = enumerate_paths(f.node)
    zips_seen = 0
    ok = True
    for p in paths:
        first_zip = None
        for i, e in enumerate(p.events):
            if e.kind == "call" and call_name(e.node) == "zip":
                first_zip = i
                break
        if first_zip is None:
            continue
        zips_seen += 1
        z = p.events[first_zip].node
        operands = {src(a) for a in z.args}
        good = False
        for e in p.events[:first_zip]:
            if e.kind in ("cond", "assert") and isinstance(e.node, ast.Compare) and len(e.node.ops) == 1:
                t = e.node
                sides = {src(t.left), src(t.comparators[0])}
                want = {f"len({o})" for o in operands}
                taken = True if e.kind == "assert" else e.taken
                if sides == want and ((isinstance(t.ops[0], ast.NotEq) and not taken) or (isinstance(t.ops[0], ast.Eq) and taken)):
                    good = True
        ok = ok and good
    col.add(rule, f.short, "count-check-dominates-the-column-zips", ok and zips_seen > 0,
            f"on each of the {zips_seen} paths that reach a zip over the columns, a test len(values) == len(column_names) (raising otherwise) "
            "must already have been passed, for exactly the two lists that are zipped: zip truncates silently, so a mismatch would book fewer "
            "columns than asked for", f.loc)
    # the raise exists and is a refusal
    raises = [r for r in walk_no_nested(f.node) if isinstance(r, ast.Raise)]
    col.add(rule, f.short, "count-mismatch-raises", any("columns" in src(r).lower() or "labels" in src(r).lower() for r in raises),
            "a column/label count mismatch must raise", f.loc)


def check(col: Collector, tier: str):
    repo = Repo()
    m = visitor_methods(repo)
    f = m.get("call_ResultTTree")
    if f is None:
        raise AnalysisError("call_ResultTTree not found")
    fn = f.node
    # ------------------------------------------------------------ R1
    col.floor("C03.R1", 6)
    vdefs = defs_of(fn, "var_names")
    ok = len(vdefs) == 1 and isinstance(vdefs[0], ast.ListComp) and len(vdefs[0].generators) == 1 and not vdefs[0].generators[0].ifs
    col.add("C03.R1", f.short, "single-unfiltered-definition", ok, "var_names must be defined once, by an unfiltered comprehension", f.loc)
    if not ok:
        return
    lc = vdefs[0]
    g = lc.generators[0]
    okz = isinstance(g.iter, ast.Call) and call_name(g.iter) == "zip" and [src(a) for a in g.iter.args] == ["column_names", "seq_values.values()"] \
        and isinstance(g.target, ast.Tuple) and len(g.target.elts) == 2
    col.add("C03.R1", f.short, "built-from-names-and-values-in-step", okz, f"comprehension iterates {src(g.iter)}", f.loc)
    nm, rp = (src(g.target.elts[0]), src(g.target.elts[1])) if okz else ("?", "?")
    elt = lc.elt
    oke = isinstance(elt, ast.Tuple) and len(elt.elts) == 2 and src(elt.elts[0]) == nm and isinstance(elt.elts[1], ast.Call) and call_name(elt.elts[1]) == "cpp_variable"
    if oke:
        v = elt.elts[1]
        ty = kwarg(v, "cpp_type") or (v.args[2] if len(v.args) > 2 else None)
        oke = isinstance(ty, ast.Call) and call_name(ty) == "get_ttree_type" and src(ty.args[0]) == rp
        un = v.args[0]
        oke = oke and isinstance(un, ast.Call) and call_name(un) == "unique_name" and nm in src(un.args[0]) and src(kwarg(un, "is_class_var")) == "True"
    col.add("C03.R1", f.short, "entry=(name, variable typed by get_ttree_type(value))", oke,
            "each entry must pair the column name with a class variable whose type is get_ttree_type of the value zipped with that name", f.loc)
    uses = [n for n in walk_no_nested(fn) if isinstance(n, ast.Name) and n.id == "var_names" and isinstance(n.ctx, ast.Load)]
    sliced = [n for n in walk_no_nested(fn) if isinstance(n, ast.Subscript) and src(n.value) == "var_names"]
    col.add("C03.R1", f.short, "used-whole-everywhere", len(uses) >= 4 and not sliced,
            f"var_names is used {len(uses)} times, sliced/indexed {len(sliced)} times: every consumer must see every column", f.loc)
    decl = [n for n in walk_no_nested(fn) if isinstance(n, ast.For) and src(n.iter) == "var_names" and
            any(isinstance(c, ast.Call) and call_name(c) == "declare_class_variable" and src(c.args[0]) == f"{src(n.target)}[1]" for c in ast.walk(n))]
    col.add("C03.R1", f.short, "every-column-variable-declared", len(decl) == 1, "for cv in var_names: declare_class_variable(cv[1])", f.loc)
    book = [c for c in ast.walk(fn) if isinstance(c, ast.Call) and call_name(c) == "create_book_ttree_obj"]
    col.add("C03.R1", f.short, "booked-from-the-same-list", len(book) == 1 and [src(a) for a in book[0].args] == ["tree_name", "var_names"],
            f"create_book_ttree_obj({', '.join(src(a) for a in book[0].args) if book else ''})", f.loc)
    fills = [n for n in walk_no_nested(fn) if isinstance(n, ast.For) and isinstance(n.iter, ast.Call) and call_name(n.iter) == "zip"
             and [src(a) for a in n.iter.args] == ["seq_values.values()", "var_names"]]
    okf = False
    for n in fills:
        for c in ast.walk(n):
            # (E-NORM N14: the pair of the zip is read by position - element 0 is the value, element 1 the (name, variable) entry)
            if isinstance(c, ast.Call) and call_name(c) == "code_fill_ttree" and isinstance(n.target, ast.Name):
                okf = [src(a) for a in c.args[:2]] == [f"{n.target.id}[0]", f"{n.target.id}[1][1]"]
    col.add("C03.R1", f.short, "filled-from-the-same-list", okf and len(fills) == 2,
            "value k must be written into variable k: code_fill_ttree(value, var_names entry [1]) over zip(values, var_names); the same zip drives the clears", f.loc)

    # ------------------------------------------------------------ R2
    col.floor("C03.R2", 2)
    check_count_guard(col, "C03.R2", repo)
    cn = defs_of(fn, "column_names")
    col.add("C03.R2", f.short, "names-come-from-the-call", len(cn) == 1 and src(cn[0]) == "_extract_column_names(args[1])", f"column_names = {[src(c) for c in cn]}", f.loc)
    ex = repo.function("_extract_column_names")
    s = src(ex.node)
    col.add("C03.R2", ex.short, "single-name-becomes-a-one-element-list", "literal_eval" in s and "isinstance(names, str)" in s and "[names]" in s, "", ex.loc)

    # ------------------------------------------------------------ R3 names
    col.floor("C03.R3", 6)
    gar = m.get("get_as_ROOT")
    gfn = gar.node
    parse_strs = [c for c in ast.walk(gfn) if isinstance(c, ast.Call) and src(c.func) == "ast.parse" and isinstance(c.args[0], (ast.JoinedStr, ast.Constant))]
    shapes = ["".join(shape(parts(gfn, c.args[0]))) for c in parse_strs]
    col.add("C03.R3", gar.short, "tuple-default-names-are-distinct", "'col{i}'" in shapes,
            f"the default name of tuple element i must contain the index (templates {sorted(set(shapes))})", gar.loc)
    en = [c for c in ast.walk(gfn) if isinstance(c, ast.ListComp) and "enumerate(values.values())" in src(c)]
    col.add("C03.R3", gar.short, "one-default-name-per-tuple-element", len(en) == 1, "names must be generated by enumerating all tuple values", gar.loc)
    col.add("C03.R3", gar.short, "bare-value-is-col1", '"col1"' in shapes, f"templates {sorted(set(shapes))}", gar.loc)
    # every ResultTTree call that get_as_ROOT builds (one per terminal form, or one shared tail) names the tree "<prefix>_tree"
    rt = [c for c in ast.walk(gfn) if isinstance(c, ast.Call) and call_name(c) == "function_call" and c.args and const_str(c.args[0]) == "ResultTTree"
          and len(c.args) > 1 and isinstance(c.args[1], ast.List) and len(c.args[1].elts) >= 3]
    tree_args = ["".join(shape(parts(gfn, x.args[0]))) if isinstance(x, ast.Call) and src(x.func) == "ast.parse" and x.args else src(x)
                 for c in rt for x in [next((y for y in ast.walk(c.args[1].elts[2]) if isinstance(y, ast.Call) and src(y.func) == "ast.parse"), c.args[1].elts[2])]]
    n_tree = sum(1 for t in tree_args if t == '"{self._prefix}_tree"')
    col.add("C03.R3", gar.short, "default-tree-name", len(rt) >= 1 and n_tree == len(rt),
            f"'<prefix>_tree' must be the default tree name in every terminal form ({n_tree} of {len(rt)} ResultTTree calls: {tree_args})", gar.loc)
    dk = "col_names = ast.List(elts=list(values.value_dict.keys()))" in src(gfn) and "col_values = values.value_dict.values()" in src(gfn) \
        and "crep.cpp_tuple(tuple(col_values), values.scope())" in src(gfn)
    col.add("C03.R3", gar.short, "dict-names-and-values-from-the-same-dict-in-order", dk, "keys() and values() of the same value_dict, both complete", gar.loc)
    for cname, pfx in PREFIX.items():
        c = repo.find_class(cname)
        ini = c.methods.get("__init__")
        sup = [x for x in ast.walk(ini.node) if isinstance(x, ast.Call) and src(x.func) == "super().__init__"] if ini else []
        lit = [const_str(resolve_name(ini.node, x.args[0])) for x in sup if x.args]
        col.add("C03.R3", f"{cname}.__init__", "backend-prefix", lit == [pfx] and len(sup) == 1, f"prefix passed to the base visitor: {lit}", ini.loc if ini else c.module.rel)
    qi = m.get("__init__")
    col.add("C03.R3", "query_ast_visitor.__init__", "prefix-stored", any(src(n) == "self._prefix = prefix" for n in ast.walk(qi.node) if isinstance(n, ast.Assign)), "", qi.loc)

    # ------------------------------------------------------------ R4 one tree name
    col.floor("C03.R4", 3)
    tn = defs_of(fn, "tree_name")
    ok = len(tn) == 1 and src(tn[0]) == "ast.literal_eval(args[2])"
    col.add("C03.R4", f.short, "tree-name-from-the-call", ok, f"tree_name = {[src(t) for t in tn]}", f.loc)
    fill = [c for c in ast.walk(fn) if isinstance(c, ast.Call) and call_name(c) == "create_ttree_fill_obj"]
    rep = [c for c in ast.walk(fn) if isinstance(c, ast.Call) and call_name(c) == "cpp_ttree_rep"]
    ok = len(fill) == 1 and src(fill[0].args[0]) == "tree_name" and len(rep) == 1 and src(rep[0].args[1]) == "tree_name"
    col.add("C03.R4", f.short, "same-name-booked-filled-and-returned", ok, "booking object, fill object and descriptor must all receive tree_name", f.loc)
    ok = len(rep) == 1 and src(rep[0].args[2]) == "self._gc.current_scope()"
    col.add("C03.R4", f.short, "descriptor-valid-at-the-current-scope", ok,
            f"the descriptor's scope is {src(rep[0].args[2]) if rep else None}: with a top-level scope the cached descriptor is returned for a second "
            "evaluation of the same query object and nothing is booked or filled", f.loc)
    rt = repo.find_class("cpp_ttree_rep").methods["__init__"]
    st = {src(n.targets[0]): src(n.value) for n in ast.walk(rt.node) if isinstance(n, ast.Assign)}
    col.add("C03.R4", "cpp_ttree_rep.__init__", "stores-filename-and-treename", st.get("self.filename") == "filename" and st.get("self.treename") == "treename"
            and [a.arg for a in rt.node.args.args][1:3] == ["filename", "treename"], f"{st}", rt.loc)

    # ------------------------------------------------------------ R5 booking emitters
    col.floor("C03.R5", 12)
    for vname, (bk, fl) in BACKEND_CLASSES.items():
        vc = repo.find_class(vname)
        for meth, cls_, nargs in (("create_book_ttree_obj", bk, 2), ("create_ttree_fill_obj", fl, 1)):
            g_ = vc.methods.get(meth)
            rets = [r for r in walk_no_nested(g_.node) if isinstance(r, ast.Return)] if g_ else []
            params = [a.arg for a in g_.node.args.args][1:] if g_ else []
            ok = len(rets) == 1 and isinstance(rets[0].value, ast.Call) and call_name(rets[0].value) == cls_ and [src(a) for a in rets[0].value.args] == params
            col.add("C03.R5", f"{vname}.{meth}", "returns-own-backend-object-with-arguments-in-order", ok,
                    f"must return {cls_}({', '.join(params)})", g_.loc if g_ else vc.module.rel)
        bc = repo.find_class(bk)
        em = bc.methods.get("emit")
        loops = [n for n in walk_no_nested(em.node) if isinstance(n, ast.For)]
        ok = len(loops) == 1 and src(loops[0].iter) == "self._leaves"
        col.add("C03.R5", f"{bk}.emit", "one-branch-per-leaf", ok, "the emitter must iterate all of self._leaves", em.loc)
        if ok:
            vp = src(loops[0].target)
            lines = [c for c in ast.walk(loops[0]) if isinstance(c, ast.Call) and call_name(c) == "add_line"]
            sh = shape(parts(em.node, lines[0].args[0])) if len(lines) == 1 else []
            ok = sh == ["myTree->Branch(", '{"' + vp + '[0]"}', ", &", "{" + vp + "[1].as_cpp()}", ");"]
            col.add("C03.R5", f"{bk}.emit", "branch-binds-name-k-to-variable-k", ok,
                    f"Branch line template {sh}: first the (escaped) column name, then the address of that same pair's variable", em.loc)
        tl = [c for c in walk_no_nested(em.node) if isinstance(c, ast.Call) and call_name(c) == "add_line" and c not in (lines if ok else [])]
        names_in = ["".join(shape(parts(em.node, c.args[0]))) for c in tl]
        ok = any('{"self._tree_name"}' in s and ("TTree" in s) for s in names_in)
        col.add("C03.R5", f"{bk}.emit", "tree-created-with-the-tree-name", ok, f"lines {names_in}", em.loc)
        # the handles the booking lines use (`myTree->Branch`, `fs->make`) are introduced by an earlier line of the same emitter, or are
        # members of the class the backend's template declares
        import re as _re
        all_lines = ["".join(shape(parts(em.node, c.args[0]))) for c in sorted(
            [c for c in ast.walk(em.node) if isinstance(c, ast.Call) and call_name(c) == "add_line"], key=lambda c: c.lineno)]
        tdir = {"book_xaod_ttree": "atlas/r21", "book_cms_aod_ttree": "cms/r5", "book_cms_miniaod_ttree": "cms/r7"}.get(bk)
        ttxt = ""
        if tdir:
            for tf in sorted((REPO / "func_adl_xAOD/template" / tdir).glob("*")):
                if tf.suffix in (".h", ".cc", ".cxx"):
                    ttxt += tf.read_text()
        undeclared = []
        for i, ln in enumerate(all_lines):
            for h in _re.findall(r"(?<![\w>.])([A-Za-z_]\w*)->", ln):
                before = "\n".join(all_lines[:i])
                local = _re.search(r"(?:auto|[\w:<>]+[\s*&]+)\s*" + _re.escape(h) + r"\s*(=|;|\()", before) is not None \
                    or _re.search(r"[\w:<>]+\s+" + _re.escape(h) + r"\s*;", before) is not None
                member = _re.search(r"[\w:<>]+\s*[*&]?\s*" + _re.escape(h) + r"\s*;", ttxt) is not None
                assigned_here = _re.match(r"\s*" + _re.escape(h) + r"\s*=", ln) is not None
                if not (local or member) and not (assigned_here and member):
                    undeclared.append(f"{h} (line template {ln[:40]!r})")
        col.add("C03.R5", f"{bk}.emit", "booking-handles-are-introduced-first", not undeclared,
                f"handles used by the booking lines without a declaration in an earlier line or in the {tdir} class: {undeclared}", em.loc)
        fc = repo.find_class(fl)
        fe = fc.methods.get("emit")
        fls = ["".join(shape(parts(fe.node, c.args[0]))) for c in walk_no_nested(fe.node) if isinstance(c, ast.Call) and call_name(c) == "add_line"]
        ok = len(fls) == 1 and fls[0] in ('tree({"self._tree_name"})->Fill();', "myTree->Fill();")
        col.add("C03.R5", f"{fl}.emit", "fills-the-booked-tree", ok, f"fill line {fls}", fe.loc)
    bt = repo.find_class("book_ttree").methods["__init__"]
    st = {src(n.targets[0]): src(n.value) for n in ast.walk(bt.node) if isinstance(n, ast.Assign)}
    col.add("C03.R5", "book_ttree.__init__", "stores-name-and-leaves", st == {"self._tree_name": "tree_name", "self._leaves": "leaves"}, f"{st}", bt.loc)

    # ------------------------------------------------------------ R6 file name agreement
    col.floor("C03.R6", 5)
    fname = const_str(rep[0].args[0]) if rep else None
    col.add("C03.R6", f.short, "descriptor-file-name-is-a-literal", fname is not None, f"file name {fname!r}", f.loc)
    base = (fname or "").rsplit(".", 1)[0]
    from sa.core.shell_alpha import runner_source
    at = runner_source(REPO / "func_adl_xAOD/template/atlas/r21/runner.sh")
    col.add("C03.R6", "runner:atlas/r21", "delivers-the-descriptor's-file", f"./bogus/data-{base}/{fname} $destination" in at,
            f"the ATLAS runner must deliver data-{base}/{fname}", "func_adl_xAOD/template/atlas/r21/runner.sh")
    el = (REPO / "func_adl_xAOD/template/atlas/r21/ATestRun_eljob.py").read_text()
    col.add("C03.R6", "template:ATestRun_eljob.py", "output-stream-and-sample-name", f"OutputStream('{base}')" in el and f'readFileList(sh, "{base}"' in el,
            f"EventLoop writes data-<sample>/<stream>.root: both must be {base!r}", "func_adl_xAOD/template/atlas/r21/ATestRun_eljob.py")
    for r in ("r5", "r7"):
        ct = runner_source(REPO / f"func_adl_xAOD/template/cms/{r}/runner.sh")
        cfg = (REPO / f"func_adl_xAOD/template/cms/{r}/analyzer_cfg.py").read_text()
        ctq = re.sub(r'(?m)^(\s*\w+=)"([^\s"`]*)"\s*$', r"\1\2", ct)          # quotes around a whole assigned value do not matter
        # (the delivered name may be spelled through the exported variable itself: $CMS_OUTPUT_FILE is that file name)
        ctq = re.sub(r"(destination=\$output_dir/)(\$\{CMS_OUTPUT_FILE\}|\$CMS_OUTPUT_FILE\b)", lambda m_: m_.group(1) + (fname or ""), ctq) \
            if f"CMS_OUTPUT_FILE={fname}" in ctq and len(re.findall(r"(?m)^\s*(?:export\s+)?CMS_OUTPUT_FILE=", ctq)) == 1 else ctq
        ok = f"CMS_OUTPUT_FILE={fname}" in ctq and f"destination=$output_dir/{fname}" in ctq and 'os.environ["CMS_OUTPUT_FILE"]' in cfg \
            and "fileName=cms.string(output_file)" in cfg
        col.add("C03.R6", f"runner:cms/{r}", "job-output-and-delivery-name", ok, f"CMS job must write and deliver {fname}", f"func_adl_xAOD/template/cms/{r}/runner.sh")
    ex = repo.function("_extract_result_TTree")
    col.add("C03.R6", ex.short, "copies-rep.filename", "rep.filename" in src(ex.node), "", ex.loc)

    check_tree_type(col, "C03.R7", repo)

    # ------------------------------------------------------------ R9 shared: Fill at the mainline scope, declared types registered as given
    from sa.props._tr import import_obligations
    from sa.props._tr import check_fill_scope
    check_fill_scope(col, "C03.R9", repo)
    import_obligations(col, "C03.R9", "c10", lambda o: o.rule == "C10.R3" and "value-return" in o.detail,
                       "const or pointer qualifiers that leak into the registered type become the column's type")
    # the booking statements (TTree and Branch calls) and column declarations reach the rendered class
    from sa.props._tr import check_emission_pipeline
    sub_ep = Collector("C03")
    check_emission_pipeline(sub_ep, "C03.R10", repo)
    for o in sub_ep.obs:
        if "book" in o.detail or "class_decl" in o.detail:
            col.add("C03.R10", o.construct, o.detail, o.ok, o.msg, o.loc)
    # column and tree names reach Branch()/TTree() and the descriptor as the same characters
    from sa.props._tr import check_escaper_ranges
    check_escaper_ranges(col, "C03.R10", repo)
    import_obligations(col, "C03.R10", "c18", lambda o: o.rule == "C18.R1" and o.construct == "cpp_string_literal",
                       "tree and column names are written through the same escaper: a name that is not reproduced character for character is "
                       "another column name")
    # the backend's default method types (bool, float, int returns) must survive every reset of a re-used executor
    import_obligations(col, "C03.R10", "c13", lambda o: o.detail in ("int<float<double",) or o.detail.startswith("typed-by-kind-not-by-value") or
                       o.detail in ("int-typed-int", "float-typed-double"),
                       "a column's element type is the type computed for its expression: the arithmetic type table and the typing of constants decide it")
    import_obligations(col, "C03.R10", "c07", lambda o: o.rule == "C07.R3b",
                       "a default-typed method that lost its type after a reset is booked as a double column")
    # ------------------------------------------------------------ R8 conditional is double
    col.floor("C03.R8", 2)
    vi = m.get("visit_IfExp")
    rv = [c for c in ast.walk(vi.node) if isinstance(c, ast.Call) and call_name(c) == "cpp_variable"]
    ok = len(rv) == 1 and src(kwarg(rv[0], "cpp_type") or rv[0].args[2]).replace('"', "'") == "ctyp.terminal('double')"
    col.add("C03.R8", vi.short, "conditional-result-is-double", ok, "the result variable of a conditional must be declared double", vi.loc)
    ut = [c for c in ast.walk(vi.node) if isinstance(c, ast.Call) and call_name(c) in ("update_type",)] + \
        [n for n in ast.walk(vi.node) if isinstance(n, ast.Assign) and any("_cpp_type" in src(t) for t in n.targets)]
    col.add("C03.R8", vi.short, "never-retyped-from-its-arms", not ut,
            "re-typing the result from its arms makes `1 if c else 0` (and Max/Min of integers) an int column and truncates a float accumulated through it", vi.loc)


def check_tree_type(col: Collector, rule: str, repo: Repo):
    # ------------------------------------------------------------ R7 tree_type honoured
    col.floor(rule, 3)
    gt = repo.function("get_ttree_type")
    # what is returned, in terms of `rep` (locals substituted), with the conditions it is returned under
    from sa.props._tr import deep as _deep
    from sa.core.paths import outcomes as _outcomes
    rets = [(src(_deep(gt.node, o.value)).replace(" ", ""), o) for o in _outcomes(gt.node) if o.kind == "return" and o.value is not None]
    inner = "rep.sequence_value()"
    flat = [t for t, o in rets if t == f"ctyp.collection({inner}.cpp_type().tree_type)"]
    nested = [t for t, o in rets if t == f"ctyp.collection(get_ttree_type({inner}))"]
    nested_guarded = [o for t, o in rets if t == f"ctyp.collection(get_ttree_type({inner}))"
                      and any(tr and "cpp_sequence" in g and "isinstance" in g and g != "isinstance(rep, crep.cpp_sequence)" for g, tr in o.guards)]
    sca = [t for t, o in rets if "sequence_value()" not in t]
    col.add(rule, gt.short, "sequence-column-is-collection-of-tree_type", len(flat) == 1 and len(nested) <= 1 and len(nested) == len(nested_guarded),
            f"a sequence column must be typed collection(<element>.tree_type) - for a sequence of sequences collection(<tree type of the inner "
            f"sequence>) (found {[t for t, _ in rets]}); rep.cpp_type() would ignore a declared tree_type and drop the conversion on push_back", gt.loc)
    col.add(rule, gt.short, "nested-sequence-column-uses-the-inner-tree-type", len(nested) == 1 and len(nested_guarded) == 1,
            "a sequence of sequences must be typed collection(get_ttree_type(<inner sequence>)): the collection type of the inner sequence is its own "
            "tree type, so a declared tree_type (an enum stored as int) would be lost at depth two", gt.loc)
    col.add(rule, gt.short, "scalar-column-is-tree_type", sca == ["rep.cpp_type().tree_type"], f"{sca}", gt.loc)
    # ... and the buffer a sequence of sequences is collected in has that same type
    cf_ = repo.method("query_ast_visitor", "code_fill_ttree")
    st_ = [c for f_ in [cf_] + [g_ for g_ in repo.all_functions() if g_.parent is cf_] for c in ast.walk(f_.node)
           if isinstance(c, ast.Call) and call_name(c) == "cpp_variable" and c.args and "ntuple" in src(c.args[0])]
    col.add(rule, cf_.short, "inner-buffer-has-the-tree-type", len(st_) >= 1 and all(src(arg(c, 2, "cpp_type")).startswith("get_ttree_type(") for c in st_),
            f"the std::vector an inner sequence is collected in must be declared get_ttree_type(<inner>) ({[src(arg(c, 2, 'cpp_type')) for c in st_]})", cf_.loc)
    tt = repo.find_class("terminal").methods.get("tree_type")
    from sa.core.paths import outcomes
    outs = outcomes(tt.node)
    ok = len(outs) == 2 and all(o.kind == "return" for o in outs) \
        and [o.text for o in outs if o.under(("self._tree_type is None", True))] == ["self"] \
        and all(isinstance(o.value, ast.Call) and call_name(o.value) == "terminal" and src(o.value.args[0]) == "self._tree_type"
                for o in outs if o.under(("self._tree_type is None", False)))
    col.add(rule, "terminal.tree_type", "declared-tree-type-wins-else-self", ok,
            "no declared tree type -> the type itself; otherwise terminal(<declared tree type>, ...)", tt.loc)

