"""C16 - runner.sh honours its flags and never reports success after a failed step.

Decided on the parsed command trees of the three runner scripts (E-SH).  Not
decided: what the invoked tools do; partial writes by a failing copy.
"""
from __future__ import annotations

import re
from typing import Dict, List, Tuple

from sa.core.common import AnalysisError, Collector, REPO
from sa.core.shell_facts import Cmd, Node, parse_script

EXPLANATION = (
    "The three runner.sh templates are parsed by a hand-written recursive-descent parser for the bash subset they use "
    "(fail-closed outside it). R1 errexit: `set -e` is the first command, never undone (set +e, trap, pipefail-less pipes, "
    "trailing exit 0); R2 every step command stands in a plain errexit context (not an if/while condition, not left of "
    "&&/||, not negated, not a non-last pipeline member, not backgrounded; command substitutions only hold frozen benign "
    "commands); R3 the flag table (getopts string, per-arm assignments, exit 10 for unknown flags, exit 1 for stray "
    "arguments) - identical in the three scripts; R4 phase split: build steps under $compile = 1 with an else that only "
    "cd's into the previous build, run steps under $run = 1, nothing in the run phase removes/recreates the build tree; "
    "R5 input selection (-d file written with a truncating redirect as the sole input, else the list is copied); R6 "
    "delivery is the last step of every run path, after the job step, to a destination derived from $output_dir, and "
    "the previous submission directory is removed before the ATLAS job. The two CMS scripts are also compared command for "
    "command (information only)."
)
ASSUMPTIONS = [
    "bash semantics of set -e: a failing simple command in a plain context terminates the script with that status",
    "the invoked tools (cmake, make, scram, cmsRun, python, root, cp, xrdcp) return non-zero on failure",
]

SCRIPTS = {"atlas/r21": "func_adl_xAOD/template/atlas/r21/runner.sh",
           "cms/r5": "func_adl_xAOD/template/cms/r5/runner.sh",
           "cms/r7": "func_adl_xAOD/template/cms/r7/runner.sh"}

# commands that are not "steps": they cannot fail in a way that matters or are tests
BENIGN = {"echo", "[", "[[", "shift", "exit", "set", ":", "true", "printf", "getopts"}
# commands allowed inside a command substitution (their failure only yields an empty string used for a path)
SUBST_OK = {"cd", "dirname", "pwd"}
JOB_STEP = {"atlas/r21": ("python", "ATestRun_eljob.py"), "cms/r5": ("cmsRun", ""), "cms/r7": ("cmsRun", "")}
BUILD_TREE = {"atlas/r21": ("rel",), "cms/r5": ("analysis",), "cms/r7": ("analysis",)}
BUILD_TOOLS = {"atlas/r21": ("cmake", "make"), "cms/r5": ("mkedanlzr", "scram"), "cms/r7": ("mkedanlzr", "scram")}
# frozen release differences between the r5 and r7 scripts (normalised command text), one reason each
R5_R7_DIFF = {
    ("cp $DIR/Analyzer.cc ./src/", "cp $DIR/Analyzer.cc ./plugins/"): "CMSSW 7 mkedanlzr layout puts sources in plugins/",
    ("cp $DIR/analyzer_cfg.py .", "cp $DIR/analyzer_cfg.py ./python/ConfFile_cfg.py"): "CMSSW 7 layout: config lives in python/",
    ("cp $DIR/BuildFile.xml .", "cp $DIR/BuildFile.xml ./plugins/"): "CMSSW 7 layout",
    ("cmsRun analyzer_cfg.py", "cmsRun python/ConfFile_cfg.py"): "config path follows the copy destination",
}


def is_step(c: Cmd) -> bool:
    n = c.node
    if not n.name:
        return False  # pure assignment
    return n.name not in BENIGN and n.name != "export"


def canon_test(t: str) -> str:
    """spelling-independent form of a shell test: [ ] / [[ ]] / test, quoting, == vs =, ${v} vs $v and blanks do not matter"""
    t = t.strip()
    for a, b in (("[[", "]]"), ("[", "]")):
        if t.startswith(a) and t.endswith(b):
            t = t[len(a):-len(b)].strip()
            break
    if t.startswith("test "):
        t = t[5:]
    t = re.sub(r"\$\{(\w+)\}", r"$\1", t)
    t = t.replace('"', "").replace("'", "")
    t = t.replace("==", "=")
    return re.sub(r"\s+", "", t)


def has_guard(c: Cmd, text: str, truth: bool) -> bool:
    return any(canon_test(g[0]) == canon_test(text) and g[1] == truth for g in c.guards)


def check(col: Collector, tier: str):
    parsed: Dict[str, Tuple[Node, List[Cmd]]] = {}
    for key, rel in SCRIPTS.items():
        p = REPO / rel
        if not p.exists():
            raise AnalysisError(f"{rel} not found")
        from sa.core.shell_alpha import runner_source
        src = runner_source(p)
        if re.search(r"\{\{|\{%|\{#", src):
            col.add("C16.R1", f"runner:{key}", "no-jinja-constructs", False,
                    "runner.sh is passed through jinja2: a '{{', '{%' or '{#' in it would be eaten at render time", rel)
        parsed[key] = parse_script(src)
    col.info["scripts"] = {k: len(v[1]) for k, v in parsed.items()}
    col.floor("C16.R1", 9)
    col.floor("C16.R2", 60)
    col.floor("C16.R3", 24)
    col.floor("C16.R4", 9)
    col.floor("C16.R5", 6)
    col.floor("C16.R6", 9)

    tables = {}
    for key, (root, cmds) in parsed.items():
        rel = SCRIPTS[key]
        con = f"runner:{key}"
        top = [c for c in cmds if not c.ctx.startswith("subst")]
        # ---------------- R1
        first = top[0].node
        col.add("C16.R1", con, "set-e-first", first.name == "set" and "-e" in first.args and not any(a.startswith("+") for a in first.args),
                f"first command is `{first.text()}`; it must be `set -e`", f"{rel}:{first.line}")
        undone = [c for c in cmds if (c.node.name == "set" and any(re.match(r"^\+[a-z]*e", a) for a in c.node.args))
                  or (c.node.name == "set" and "+o" in c.node.args and "errexit" in c.node.args) or c.node.name == "trap"]
        col.add("C16.R1", con, "errexit-never-disabled", not undone,
                f"`{undone[0].node.text()}` disables or intercepts errexit" if undone else "no set +e / trap", f"{rel}:{undone[0].node.line if undone else 0}")
        last = top[-1].node
        col.add("C16.R1", con, "no-trailing-exit-0", not (last.name == "exit" and last.args[:1] == ["0"] and not top[-1].guards),
                "an unconditional trailing `exit 0` hides the status of the last step", f"{rel}:{last.line}")
        # ---------------- R2
        for c in cmds:
            if not is_step(c):
                continue
            n = c.node
            det = f"{n.name} {' '.join(n.args)[:40]}".strip()
            if c.ctx.startswith("subst"):
                ok = n.name in SUBST_OK
                why = f"`{n.text()}` runs inside a command substitution, where its failure is not seen by errexit; only {sorted(SUBST_OK)} are accepted there"
            else:
                ok = c.ctx == "plain"
                why = f"`{n.text()}` stands in errexit context '{c.ctx}': its failure does not stop the script"
            col.add("C16.R2", con, f"step-context:{det}", ok, why, f"{rel}:{n.line}")
        # steps whose status is discarded by redirection tricks: `cmd || true` is andor; `cmd; true` n/a
        # ---------------- R3 flag table
        tables[key] = flag_table(col, con, rel, root, cmds)
        # ---------------- R4 phases
        check_phases(col, key, con, rel, cmds)
        # ---------------- R5 input
        check_input(col, con, rel, cmds)
        # ---------------- R6 delivery
        check_delivery(col, key, con, rel, cmds)

    # sibling agreement of the flag tables
    ref = tables["atlas/r21"]
    for key, t in tables.items():
        col.add("C16.R3", f"runner:{key}", "flag-table-agrees-with-siblings", t == ref,
                f"flag table {t} differs from the ATLAS script's {ref}", SCRIPTS[key])

    # ---------------- sibling cross-check r5 ~ r7 (information only: a disagreement is a hint, not a necessary
    # condition of the property, so it is reported in the evidence and never as a violation)
    a = [norm(c) for c in parsed["cms/r5"][1]]
    b = [norm(c) for c in parsed["cms/r7"][1]]
    diffs = []
    for x, y in zip(a, b):
        if x != y and not ((x[0], y[0]) in R5_R7_DIFF and x[1:] == y[1:]):
            diffs.append(f"r5 `{x[0][:60]}` vs r7 `{y[0][:60]}`")
    if len(a) != len(b):
        diffs.append(f"r5 has {len(a)} commands, r7 has {len(b)}")
    col.info["cms_r5_r7_disagreements_beyond_frozen_release_differences"] = diffs[:10]


def norm(c: Cmd):
    return (c.node.text(), c.ctx, tuple(f"{g[0]}={g[1]}" for g in c.guards))


def flag_table(col: Collector, con: str, rel: str, root: Node, cmds: List[Cmd]):
    # the while getopts loop
    loops = [n for n in root.children if n.kind == "while"]
    gl = None
    for w in loops:
        conds = [ch for ch in w.cond.children if ch.kind == "simple" and ch.name == "getopts"]
        if conds:
            gl = (w, conds[0])
    if gl is None:
        raise AnalysisError(f"{rel}: no `while getopts` loop at top level")
    w, g = gl
    optstring = g.args[0].strip("\"'")
    var = g.args[1]
    col.add("C16.R3", con, "getopts-string", optstring == "d:o:cr",
            f"option string is {optstring!r}; -d and -o take an argument, -c and -r do not", f"{rel}:{g.line}")
    cases = [ch for ch in w.body.children if ch.kind == "case"]
    if len(cases) != 1 or cases[0].subject.strip('"') != f"${var}":
        raise AnalysisError(f"{rel}: getopts loop body is not a single `case \"${var}\"`")
    table = {}
    funcs = {n.words[0]: n.body for n in root.children if n.kind == "funcdef"}

    def flatten(lst, depth=0):
        out_ = []
        for ch in lst.children:
            if ch.kind != "simple":
                out_.append(f"<{ch.kind}>")
            elif ch.assignments and not ch.name:
                out_ += [f"{k}={v.strip(chr(34))}" for k, v in ch.assignments]
            elif ch.name in funcs and depth < 3:
                out_ += flatten(funcs[ch.name], depth + 1)       # a script-defined helper runs inline
            elif ch.name in ("echo", "printf"):
                continue                                         # messages do not change what the arm does
            else:
                out_.append(ch.text())
        return out_

    for pats, body in cases[0].arms:
        acts = flatten(body)
        if False:
            pass
        for p in pats:
            # `\?)` and `'?')` match the literal character getopts reports for an unknown flag; a bare `?)` matches any one character, which
            # after the listed arms is the same set of cases
            p = p.strip("'\"")
            p = p[1:] if p.startswith("\\") and len(p) == 2 else p
            table[p] = acts
    want = {"d": ["input_method=cmd", "input_file=$OPTARG"], "c": ["run=0"], "r": ["compile=0"], "o": ["output_dir=$OPTARG"], "?": ["exit 10"]}
    for k, v in want.items():
        col.add("C16.R3", con, f"arm:{k}", table.get(k) == v or (k == "?" and table.get("*") == v),
                f"arm {k}) does {table.get(k)}, documented behaviour is {v}", f"{rel}:{cases[0].line}")
    extra = set(table) - set(want) - {"*"}
    col.add("C16.R3", con, "no-extra-arms", not extra, f"undocumented arms {sorted(extra)}", f"{rel}:{cases[0].line}")
    # defaults: compile=1 run=1 before the loop
    defaults = {}
    for c in cmds:
        if c.node.line >= w.line:
            break
        for k, v in c.node.assignments:
            defaults[k] = v.strip('"')
    col.add("C16.R3", con, "defaults", defaults.get("compile") == "1" and defaults.get("run") == "1" and defaults.get("input_method") == "filelist"
            and defaults.get("output_method") == "cp",
            f"defaults before option parsing: {{compile: {defaults.get('compile')}, run: {defaults.get('run')}, input_method: {defaults.get('input_method')}, "
            f"output_method: {defaults.get('output_method')}}}: no flags must mean build and run from the file list", rel)
    # shift + stray argument check
    top = [c for c in cmds if not c.ctx.startswith("subst") and c.node.line > w.line
           and not any(g[0].startswith("getopts") for g in c.guards)]
    sh_ok = bool(top) and top[0].node.name == "shift" and ["".join(a.split()) for a in top[0].node.args] in (["$((OPTIND-1))"], ["$(($OPTIND-1))"]) and not top[0].guards
    col.add("C16.R3", con, "shift-after-options", sh_ok, "`shift $((OPTIND-1))` must follow the option loop", f"{rel}:{top[0].node.line if top else 0}")
    any_left = ("$#!=0", "$#-ne0", "$#-gt0")          # (canon_test: [ ] / [[ ]] / test, quoting and blanks do not matter)
    stray = [c for c in top if c.node.name == "exit" and c.node.args == ["1"] and any(canon_test(gt) in any_left and tr for gt, tr in c.guards)]
    col.add("C16.R3", con, "stray-arguments-exit-1", len(stray) == 1 and all(g[0].startswith("call ") or canon_test(g[0]) in any_left for g in stray[0].guards),
            "remaining arguments after the options must `exit 1`", rel)
    return {k: tuple(v) for k, v in table.items()} | {"optstring": optstring}


def phase_of(c: Cmd) -> str:
    if has_guard(c, "[ $compile = 1 ]", True):
        return "build"
    if has_guard(c, "[ $compile = 1 ]", False):
        return "reuse"
    if has_guard(c, "[ $run = 1 ]", True):
        return "run"
    return "prologue"


def check_phases(col: Collector, key: str, con: str, rel: str, cmds: List[Cmd]):
    steps = [c for c in cmds if is_step(c) and not c.ctx.startswith("subst")]
    build = [c for c in steps if phase_of(c) == "build"]
    reuse = [c for c in steps if phase_of(c) == "reuse"]
    run = [c for c in steps if phase_of(c) == "run"]
    pro = [c for c in steps if phase_of(c) == "prologue"]
    col.add("C16.R4", con, "has-build-and-run-phases", bool(build) and bool(run) and bool(reuse),
            f"build steps {len(build)}, reuse steps {len(reuse)}, run steps {len(run)}", rel)
    col.add("C16.R4", con, "reuse-branch-only-enters-previous-build", all(c.node.name == "cd" for c in reuse) and len(reuse) == 1,
            f"with -r the else branch must only cd into the previous build: {[c.node.text() for c in reuse]}", rel)
    # prologue steps: only environment setup (source / .) and cd-free
    bad = [c for c in pro if c.node.name not in ("source", ".")]
    col.add("C16.R4", con, "prologue-only-environment-setup", not bad,
            f"unguarded steps outside both phases: {[c.node.text() for c in bad]} (they would run for -c and -r alike)", rel)
    # reuse cd target == where the build phase ended (composition of cd's)
    def compose(cs):
        cur = []
        for c in cs:
            if c.node.name == "cd" and c.node.args:
                for part in c.node.args[0].split("/"):
                    if part == "..":
                        if cur:
                            cur.pop()
                    elif part not in (".", ""):
                        cur.append(part)
        return "/".join(cur)
    col.add("C16.R4", con, "reuse-enters-the-build-directory", compose(build) == compose(reuse),
            f"build phase ends in `{compose(build)}`, -r enters `{compose(reuse)}`", rel)
    # run phase never removes or recreates the build tree
    tree = BUILD_TREE[key]
    bad = []
    for c in run:
        n = c.node
        if n.name in ("rm", "mkdir", "mv", "rmdir") and any(a.split("/")[0].lstrip("./") in tree or a.startswith("..") for a in n.args if not a.startswith("-")):
            bad.append(n.text())
        if n.name in ("cmake", "make", "scram", "mkedanlzr"):
            bad.append(n.text())
    col.add("C16.R4", con, "run-phase-leaves-build-intact", not bad,
            f"run-phase commands touching the build: {bad} (-r must be repeatable)", rel)
    # build steps are not in the run phase guard and vice versa (phases are sequential top-level ifs)
    both = [c for c in steps if has_guard(c, "[ $compile = 1 ]", True) and has_guard(c, "[ $run = 1 ]", True)]
    col.add("C16.R4", con, "phases-not-nested", not both, "a step is guarded by both phase flags", rel)
    # the build phase contains the framework's build steps, each exactly once (a frozen table: these are the tools of the three frameworks)
    for tool_ in BUILD_TOOLS[key]:
        n_ = [c for c in build if c.node.name == tool_]
        col.add("C16.R4", con, f"build-step-present:{tool_}", len(n_) == 1,
                f"`{tool_}` must run exactly once in the build phase (found {len(n_)}): without it -c leaves nothing that -r could run", rel)
    # every build tool invocation is in the build phase
    stray = [c.node.text() for c in steps if c.node.name in ("cmake", "make", "scram", "mkedanlzr") and phase_of(c) != "build"]
    col.add("C16.R4", con, "build-tools-only-under-compile", not stray, f"build tools outside the compile guard: {stray}", rel)


def check_input(col: Collector, con: str, rel: str, cmds: List[Cmd]):
    cmd_in = [c for c in cmds if has_guard(c, '[ "$input_method" == "cmd" ]', True) and c.node.name]
    fl_in = [c for c in cmds if has_guard(c, '[ "$input_method" == "filelist" ]', True) and is_step(c)]
    ok = len(cmd_in) == 1 and cmd_in[0].node.name == "echo" and cmd_in[0].node.args == ["$input_file"] \
        and cmd_in[0].node.redirects == [(">", "filelist.txt")] and phase_of(cmd_in[0]) == "run"
    col.add("C16.R5", con, "-d-file-is-sole-input", ok,
            f"under -d the list must be (re)written with `echo $input_file > filelist.txt` (truncating): "
            f"{[c.node.text() for c in cmd_in]}", rel)
    ok = len(fl_in) == 2 and all(c.node.name == "cp" and c.node.args[-1] == "." and c.node.args[0].endswith("/filelist.txt") for c in fl_in) \
        and all(phase_of(c) == "run" for c in fl_in)
    col.add("C16.R5", con, "default-input-is-the-copied-list", ok,
            f"without -d the packaged filelist.txt must be copied into the run directory: {[c.node.text() for c in fl_in]}", rel)
    # nothing else writes filelist.txt
    writers = [c.node.text() for c in cmds if any(t.endswith("filelist.txt") for o, t in c.node.redirects if ">" in o)
               or (c.node.name in ("cp", "mv") and c.node.args and c.node.args[-1].endswith("filelist.txt"))]
    col.add("C16.R5", con, "single-writer-of-the-list", len(writers) == 1, f"commands writing filelist.txt: {writers}", rel)


def check_delivery(col: Collector, key: str, con: str, rel: str, cmds: List[Cmd]):
    run_steps = [c for c in cmds if is_step(c) and not c.ctx.startswith("subst") and phase_of(c) == "run"]
    tool, needle = JOB_STEP[key]
    jobs = [c for c in run_steps if c.node.name == tool and needle in " ".join(c.node.args)]
    col.add("C16.R6", con, "single-unconditional-job-step", len(jobs) == 1 and len(jobs[0].guards) == 1,
            f"the analysis job step ({tool}) must run exactly once, guarded only by $run = 1: {[c.node.text() for c in jobs]}", rel)
    if len(jobs) != 1:
        return
    job = jobs[0]
    # variables: where destination / cmd / cvt are assigned
    assigns: Dict[str, List[Tuple[str, Cmd]]] = {}
    for c in cmds:
        for k, v in c.node.assignments:
            assigns.setdefault(k, []).append((v, c))
        if c.node.name in ("export", "declare", "readonly", "local"):
            for a_ in c.node.args:
                m_ = re.match(r"^([A-Za-z_][A-Za-z0-9_]*)=(.*)$", a_, re.S)
                if m_:
                    assigns.setdefault(m_.group(1), []).append((m_.group(2), c))
    after = [c for c in run_steps if c.order > job.order]
    def reaches_destination(text: str, depth: int = 0) -> bool:
        """the text names $destination, directly or through a variable that was assigned from it ($converted = $destination)"""
        if "$destination" in text:
            return True
        if depth >= 2:
            return False
        for var_ in set(re.findall(r"\$\{?([A-Za-z_][A-Za-z0-9_]*)", text)):
            if var_ != "destination" and any(reaches_destination(v_, depth + 1) for v_, _ in assigns.get(var_, [])):
                return True
        return False

    mentions = lambda c: "$destination" in c.node.text() or (
        c.node.name == "eval" and any(reaches_destination(v) for v, cc in assigns.get(c.node.args[0].lstrip("$"), [])
                                      if cc.guards == c.guards or cc.guards == c.guards[:len(cc.guards)]))
    deliver = [c for c in after if mentions(c)]
    col.add("C16.R6", con, "delivery-after-the-job", bool(deliver) and not [c for c in run_steps if c.order < job.order and mentions(c)],
            "the command that writes to $destination must come after the job step, never before", rel)
    # on each run path (set of guards) the last step mentions destination
    paths: Dict[Tuple, List[Cmd]] = {}
    for c in after:
        paths.setdefault(tuple(c.guards), []).append(c)
    # leaf guard sets (most specific)
    leafs = [g for g in paths if not any(len(h) > len(g) and h[:len(g)] == g for h in paths)]
    for g in leafs:
        seq = [c for c in after if tuple(c.guards) == g or g[:len(c.guards)] == tuple(c.guards)]
        last = seq[-1]
        col.add("C16.R6", con, f"last-step-delivers:{'&'.join(x[0][:18] + '=' + str(x[1]) for x in g[1:]) or 'always'}", mentions(last),
                f"the last step on this run path is `{last.node.text()[:60]}`; it must be the delivery to $destination", f"{rel}:{last.node.line}")
    # every command line that was prepared for the destination is also run, under the same conditions it was prepared under
    for var, lst in assigns.items():
        for v, c in lst:
            if "$destination" in v and phase_of(c) == "run" and re.search(r"\s", v.strip()):       # a prepared command line, not a path
                ran = [e for e in run_steps if e.node.name == "eval" and e.node.args and e.node.args[0].lstrip("$") == var
                       and e.guards == c.guards and e.order > c.order]
                col.add("C16.R6", con, f"prepared-delivery-is-run:{var}@{c.node.line}", len(ran) == 1,
                        f"`{var}=...$destination...` is prepared at line {c.node.line} but `eval ${var}` does not follow under the same conditions "
                        f"({len(ran)} found): nothing is delivered on that path and the script still exits 0", f"{rel}:{c.node.line}")
    # the delivery command is a plain copy: flags such as -n / -u / -i keep an existing (older) file at the destination
    # (the variable that holds it: the one whose value is the command word of a delivery step)
    cmd_vars = {c.node.name[1:].strip("{}") for c in deliver if c.node.name.startswith("$")} or {"cmd"}
    cmds_assigned = [v.strip('"\'') for cv_ in sorted(cmd_vars) for v, c in assigns.get(cv_, [])]
    col.add("C16.R6", con, "delivery-command-overwrites", bool(cmds_assigned) and all(v in ("cp", "xrdcp", "xrdcp -f", "cp -f") for v in cmds_assigned),
            f"the copy command is one of {sorted(set(cmds_assigned))}: it must overwrite the destination (`cp -n` exits 0 and leaves the previous run's "
            "ANALYSIS.root in place)", rel)
    # destination derives from $output_dir under output_method == cp
    def expand_consts(text: str) -> str:
        """variables with one literal value in the whole script read as that value ($CMS_OUTPUT_FILE is ANALYSIS.root)"""
        for var_, lst_ in assigns.items():
            vals_ = {v_.strip('"\'') for v_, _ in lst_}
            if len(vals_) == 1 and len(lst_) == 1 and not re.search(r"[$`\s]", next(iter(vals_))):
                text = re.sub(r"\$\{" + re.escape(var_) + r"\}|\$" + re.escape(var_) + r"\b", next(iter(vals_)), text)
        return text
    dests = [(expand_consts(v), c) for v, c in assigns.get("destination", []) if has_guard(c, '[ $output_method == "cp" ]', True)]
    ok = bool(dests) and all(v in ("$output_dir", "$output_dir/ANALYSIS.root") for v, _ in dests)
    col.add("C16.R6", con, "destination-from-output_dir", ok,
            f"with the default output method the destination must be $output_dir (or $output_dir/ANALYSIS.root): {[v for v, _ in dests]}", rel)
    if key != "atlas/r21":
        # directory => file inside it; otherwise the path itself. `-d` is the test that distinguishes them.
        d_dir = [(v, c) for v, c in dests if has_guard(c, "[ -d $output_dir ]", True)]
        d_file = [(v, c) for v, c in dests if has_guard(c, "[ -d $output_dir ]", False)]
        ok = [v for v, _ in d_dir] == ["$output_dir/ANALYSIS.root"] and [v for v, _ in d_file] == ["$output_dir"]
        if not ok and not d_file and [v for v, _ in d_dir] == ["$output_dir/ANALYSIS.root"]:
            # default-then-override: the plain path is assigned first, whatever $output_dir is, and replaced under `-d`
            plain = [(v, c) for v, c in dests if not any("-d $output_dir" in canon_test(g[0]) or "-d$output_dir" in canon_test(g[0]) for g in c.guards)]
            ok = [v for v, _ in plain] == ["$output_dir"] and plain[0][1].order < d_dir[0][1].order
        col.add("C16.R6", con, "directory-vs-file-destination", ok,
                "an existing directory gets ANALYSIS.root inside it, anything else (a file path, existing or not) is the destination itself; "
                "the distinguishing test must be `[ -d $output_dir ]`", rel)
        # the job writes ./$CMS_OUTPUT_FILE = ANALYSIS.root and the conversion reads it
        exp = [c for c in cmds if c.node.name == "export" and any(a.startswith("CMS_OUTPUT_FILE=") for a in c.node.args)]
        ok = len(exp) == 1 and exp[0].order < job.order and exp[0].node.args == ["CMS_OUTPUT_FILE=ANALYSIS.root"] and phase_of(exp[0]) == "run"
        col.add("C16.R6", con, "job-output-name-exported-before-job", ok, "CMS_OUTPUT_FILE=ANALYSIS.root must be exported before cmsRun", rel)
        cv = [v for v, c in assigns.get("cvt", [])]
        ok = 1 <= len(cv) <= 2 and all("copy_root_tree.C" in v and '\\"./$CMS_OUTPUT_FILE\\"' in v for v in cv)
        col.add("C16.R6", con, "conversion-reads-this-run's-output", ok, "the conversion macro must read ./$CMS_OUTPUT_FILE", rel)
    else:
        # stale submission directory removed before the job
        rm = [c for c in run_steps if c.node.name == "rm" and c.node.args[-1].strip("./") == "bogus" and c.order < job.order]
        sub = [a for a in job.node.args if a.startswith("--submission-dir=")]
        ok = len(rm) == 1 and sub == ["--submission-dir=bogus"] and any("-r" in a for a in rm[0].node.args)
        col.add("C16.R6", con, "previous-submission-dir-removed-before-job", ok,
                "the EventLoop submission directory of an earlier -r run must be removed before the job (EventLoop refuses an existing one)", rel)
        d = [c for c in deliver if "./bogus/data-ANALYSIS/ANALYSIS.root" in c.node.args]
        col.add("C16.R6", con, "delivers-this-run's-file", len(d) == 1 and d[0].node.name.startswith("$"),
                "delivery must copy ./bogus/data-ANALYSIS/ANALYSIS.root of this run", rel)
