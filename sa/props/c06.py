"""C06 - event collections are fetched by the requested bank, type and backend idiom.

Decided: placeholder agreement between get_collection and each coder's code,
specification tables, call validation (propositional check of the guards),
backend check agreement, metadata key tables (README subset of allowed subset of
read), de-duplicated includes/libraries, one token per use, fresh code value per
call, plug-in call discovery.  Not decided: what the experiment framework does.
"""
from __future__ import annotations

import ast
import re

from sa.core.common import AnalysisError, Collector
from sa.core.paths import enumerate_paths, guards, parent_map, truth_table_implies
from sa.core.pyfacts import Repo, arg, call_name, const_str, kwarg, src, walk_no_nested, ordk, ordk_end
from sa.core.readme_tables import Readme
from sa.core.templates import parts, shape
from sa.props._tr import check_finder, defs_of, resolve_name

EXPLANATION = (
    "R1 get_collection's formal argument name and result name occur as whole words in every backend coder's code lines "
    "(ATLAS retrieval nested in ANA_CHECK, CMS getByLabel, miniAOD getByToken with the token initialised from the bank in "
    "booking code) and the result is declared with the container type; R2 every built-in EventCollectionSpecification carries "
    "its module's backend name, a non-empty include list and that backend's container class, and collection vs singleton "
    "decides cpp_collection vs cpp_variable; R3 get_collection refuses anything but exactly one string constant (truth-table "
    "check of the guard, guards dominate construction); R4 each executor's backend check literal equals the backend name "
    "process_metadata assigns for that metadata type and the one in the built-in table; R5 README keys subset of allowed keys "
    "subset of keys read, consistency check raises; R6 includes and libraries are appended under a not-in guard and all "
    "forwarded; R7 the miniAOD token name is generated per use and shared by declaration, initialisation and retrieval; R8 a "
    "new code value per call, no state kept on the coder; R9 plug-in calls are discovered children-first from a copy of the table."
)
ASSUMPTIONS = ["evtStore()->retrieve / getByLabel / getByToken fetch the named bank as the declared type (framework semantics)"]

BACKENDS = {
    "atlas": ("atlas.xaod.event_collections", "atlas_xaod_executor", "add_atlas_event_collection_info", "atlas_xaod_collections"),
    "cms_aod": ("cms.aod.event_collections", "cms_aod_executor", "add_cms_aod_event_collection_info", "cms_aod_collections"),
    "cms_miniaod": ("cms.miniaod.event_collections", "cms_miniaod_executor", "add_cms_miniaod_event_collection_info", "cms_miniaod_collections"),
}
README_HEADING = "Event Level Collections"


def md_branch(repo: Repo, mtype: str):
    pm = repo.function("process_metadata")
    for n in ast.walk(pm.node):
        if isinstance(n, ast.If) and isinstance(n.test, ast.Compare) and const_str(n.test.comparators[0]) == mtype:
            return pm, n
    raise AnalysisError(f"process_metadata has no branch for {mtype}")


def check(col: Collector, tier: str):
    repo = Repo()
    doc = Readme()
    gc_f = repo.method("event_collection_coder", "get_collection")
    fn = gc_f.node
    # ------------------------------------------------------------ R1 placeholders
    col.floor("C06.R1", 6)
    args_def = [n for n in walk_no_nested(fn) if isinstance(n, ast.Assign) and src(n.targets[0]).endswith(".args")]
    res_def = [n for n in walk_no_nested(fn) if isinstance(n, ast.Assign) and src(n.targets[0]).endswith(".result")]
    ok = len(args_def) == 1 and isinstance(args_def[0].value, ast.List) and len(args_def[0].value.elts) == 1 and len(res_def) == 1
    if not ok:
        raise AnalysisError("get_collection: formal argument list / result name assignments not found")
    formal = const_str(args_def[0].value.elts[0])
    result = const_str(res_def[0].value)
    col.add("C06.R1", gc_f.short, "one-formal-argument-and-result-name", bool(formal) and bool(result), f"formal={formal!r} result={result!r}", gc_f.loc)
    for be, (mod, exe, mdt, table) in BACKENDS.items():
        m = repo.mod(mod)
        coders = [c for c in m.classes.values() if any(k.name == "event_collection_coder" for k in repo.mro(c))]
        if len(coders) != 1:
            raise AnalysisError(f"{mod}: expected one event_collection_coder subclass")
        coder = coders[0]
        # gather the templates of all code lines this coder produces
        lines = []
        for meth in coder.methods.values():
            for n in walk_no_nested(meth.node):
                if isinstance(n, ast.List):
                    for e in n.elts:
                        if isinstance(e, (ast.JoinedStr, ast.Constant)) and (not isinstance(e, ast.Constant) or isinstance(e.value, str)):
                            lines.append((meth, "".join(shape(parts(meth.node, e)))))
                if isinstance(n, ast.Assign) and isinstance(n.value, ast.JoinedStr):
                    lines.append((meth, "".join(shape(parts(meth.node, n.value)))))
        text = "\n".join(t for _, t in lines)
        w = lambda name: re.search(r"(?<![A-Za-z0-9_])" + re.escape(name) + r"(?![A-Za-z0-9_])", text) is not None
        col.add("C06.R1", coder.name, f"{be}:bank-placeholder-used-as-whole-word", w(formal),
                f"the code lines of the {be} coder must contain the placeholder `{formal}` that get_collection substitutes the bank literal for; lines: {text!r}", coder.module.rel)
        decl = [t for _, t in lines if re.match(r"^\{container_type\} " + re.escape(result) + r"\b", t) or re.match(r"^\{md\.container_type\} " + re.escape(result) + r"\b", t)]
        col.add("C06.R1", coder.name, f"{be}:result-declared-with-container-type", len(decl) == 1,
                f"exactly one line must declare `{{container_type}} {result}`; lines: {[t for _, t in lines]}", coder.module.rel)
        if be == "atlas":
            idiom = [t for _, t in lines if re.search(r"ANA_CHECK\s*\(\s*evtStore\(\)->retrieve\(\s*" + result + r"\s*,\s*" + formal + r"\s*\)\s*\)", t)]
            col.add("C06.R1", coder.name, "atlas:status-checked-retrieve", len(idiom) == 1,
                    f"ATLAS must fetch with ANA_CHECK (evtStore()->retrieve({result}, {formal})) so a failed retrieval aborts the event", coder.module.rel)
        elif be == "cms_aod":
            idiom = [t for _, t in lines if re.search(r"iEvent\.getByLabel\(\s*" + formal + r"\s*,\s*" + result + r"\s*\)", t)]
            col.add("C06.R1", coder.name, "cms_aod:getByLabel", len(idiom) == 1, f"CMS AOD must fetch with iEvent.getByLabel({formal}, {result})", coder.module.rel)
        else:
            idiom = [t for _, t in lines if re.search(r"iEvent\.getByToken\(\s*\{t_name\}\s*,\s*" + result + r"\s*\)", t)]
            init = [t for _, t in lines if re.search(r"consumes<\{md\.container_type\.type\}>\(edm::InputTag\(" + formal + r"\)\)", t)]
            col.add("C06.R1", coder.name, "cms_miniaod:getByToken-and-consumes", len(idiom) == 1 and len(init) == 1,
                    f"miniAOD must fetch with getByToken(<token>, {result}) and initialise the token with consumes<type>(edm::InputTag({formal}))", coder.module.rel)

    # ------------------------------------------------------------ R2 spec tables
    col.floor("C06.R2", 15)
    for be, (mod, exe, mdt, table) in BACKENDS.items():
        m = repo.mod(mod)
        tbl = [n for n in m.tree.body if isinstance(n, ast.Assign) and src(n.targets[0]) == table]
        if len(tbl) != 1 or not isinstance(tbl[0].value, ast.List):
            raise AnalysisError(f"{mod}.{table} not found")
        local_types = {c.name for c in m.classes.values() if any(k.name in ("event_collection_container", "event_collection_collection_container") for k in repo.mro(c))}
        names = []
        for e in tbl[0].value.elts:
            if not (isinstance(e, ast.Call) and call_name(e) == "EventCollectionSpecification"):
                col.add("C06.R2", f"{table}", "entry-is-a-specification", False, f"entry {src(e)[:40]}", m.rel)
                continue
            a = [arg(e, 0, "backend_name"), arg(e, 1, "name"), arg(e, 2, "include_files"), arg(e, 3, "container_type"), arg(e, 4, "libraries")]
            nm = const_str(a[1])
            names.append(nm)
            col.add("C06.R2", f"{table}:{nm}", "backend-name", const_str(a[0]) == be, f"backend {src(a[0])} in the {be} table", f"{m.rel}:{e.lineno}")
            col.add("C06.R2", f"{table}:{nm}", "has-include-files", isinstance(a[2], ast.List) and len(a[2].elts) > 0 and all(const_str(x) for x in a[2].elts),
                    "a collection needs at least one header", f"{m.rel}:{e.lineno}")
            col.add("C06.R2", f"{table}:{nm}", "container-built-by-own-backend-class", isinstance(a[3], ast.Call) and call_name(a[3]) in local_types
                    and all(const_str(x) for x in a[3].args), f"container type {src(a[3])[:60]}", f"{m.rel}:{e.lineno}")
            col.add("C06.R2", f"{table}:{nm}", "libraries-listed", isinstance(a[4], ast.List), "libraries must be a list literal", f"{m.rel}:{e.lineno}")
        col.add("C06.R2", table, "names-unique", len(names) == len(set(names)), f"collection names {names}", m.rel)
    # README built-ins present in the ATLAS table
    atl = repo.mod(BACKENDS["atlas"][0])
    tnames = [const_str(arg(e, 1, "name")) for n in atl.tree.body if isinstance(n, ast.Assign) and src(n.targets[0]) == "atlas_xaod_collections" for e in n.value.elts]
    evt = doc.section("The Event")
    documented = re.findall(r"`([A-Za-z]+)`", " ".join(l for l in evt if l.startswith("- `")))
    documented = [d for d in documented if d != "Electrons" or True]
    for d in sorted(set(documented)):
        col.add("C06.R2", "README.The Event", f"documented-collection:{d}", d in tnames, f"README lists `{d}` as event collection; table has {tnames}", "README.md")
    # container classes: pointer depths forwarded to the same-named parameters, per-backend defaults, element vs container not swapped
    base_cc = repo.find_class("event_collection_collection_container")
    bi = base_cc.methods["__init__"]
    sup = [c for c in ast.walk(bi.node) if isinstance(c, ast.Call) and src(c.func) == "super().__init__"]
    ok = len(sup) == 1 and src(sup[0].args[0]).replace(" ", "") == "ctyp.terminal(element_name,p_depth=p_depth_element)" and \
        src(kwarg(sup[0], "array_type")) == "type_name" and src(kwarg(sup[0], "p_depth")) == "p_depth_type"
    col.add("C06.R2", "event_collection_collection_container.__init__", "element-and-container-depths-not-swapped", ok,
            "the element terminal takes p_depth_element, the container takes type_name and p_depth_type", bi.loc)
    base_c = repo.find_class("event_collection_container").methods["__init__"]
    sup = [c for c in ast.walk(base_c.node) if isinstance(c, ast.Call) and src(c.func) == "super().__init__"]
    ok = len(sup) == 1 and src(sup[0].args[0]) == "type_name" and src(kwarg(sup[0], "p_depth")) == "p_depth"
    col.add("C06.R2", "event_collection_container.__init__", "depth-forwarded", ok, "", base_c.loc)
    want_defaults = {"atlas_xaod_event_collection_collection": {"p_depth_type": 1, "p_depth_element": 1}, "atlas_xaod_event_collection_container": {"p_depth": 1},
                     "cms_aod_event_collection_collection": {"p_depth_type": 1, "p_depth_element": 0}, "cms_miniaod_event_collection_collection": {"p_depth_type": 1, "p_depth_element": 0}}
    for cname, dflt in want_defaults.items():
        c = repo.find_class(cname)
        ini = c.methods["__init__"]
        a = ini.node.args
        params = [x.arg for x in a.args]
        dvals = dict(zip(params[len(params) - len(a.defaults):], [getattr(d, "value", None) for d in a.defaults]))
        sup = [k for k in ast.walk(ini.node) if isinstance(k, ast.Call) and src(k.func) == "super().__init__"]
        fw = len(sup) == 1 and all(k.arg is None or src(k.value) == k.arg for k in sup[0].keywords) and \
            [src(x) for x in sup[0].args] == params[1:1 + len(sup[0].args)]
        col.add("C06.R2", f"{cname}.__init__", "defaults-and-same-name-forwarding", fw and all(dvals.get(k) == v for k, v in dflt.items()),
                f"pointer-depth defaults {dvals} (expected {dflt}); every argument must be forwarded to the same-named parameter", ini.loc)
    # collection vs singleton decides the representation
    lam = [n for n in walk_no_nested(fn) if isinstance(n, ast.If) and "issubclass" in src(n.test)]
    ok = len(lam) == 1 and "event_collection_collection_container" in src(lam[0].test) and "md.container_type" in src(lam[0].test) \
        and "cpp_collection" in src(lam[0].body[0]) and "cpp_variable" in src(lam[0].orelse[0]) and "cpp_collection" not in src(lam[0].orelse[0])
    col.add("C06.R2", gc_f.short, "collection-vs-singleton-representation", ok,
            "a container that is a collection must become a cpp_collection (iterable), a singleton a cpp_variable (a value)", gc_f.loc)
    for br in (lam[0].body[0], lam[0].orelse[0]) if lam else []:
        ctor = [c for c in ast.walk(br) if isinstance(c, ast.Call) and call_name(c) in ("cpp_collection", "cpp_variable")]
        ok = len(ctor) == 1 and "md.container_type" in src(ctor[0]) and "unique_name(" in src(ctor[0].args[0])
        col.add("C06.R2", gc_f.short, f"result-typed-by-the-specification:{call_name(ctor[0]) if ctor else '?'}", ok,
                "the result variable must carry md.container_type and a per-use unique name", gc_f.loc)

    # ------------------------------------------------------------ R3 call validation
    col.floor("C06.R3", 3)
    pm = parent_map(fn)
    raises = [r for r in walk_no_nested(fn) if isinstance(r, ast.Raise)]
    ctor = [c for c in walk_no_nested(fn) if isinstance(c, ast.Call) and call_name(c) == "CPPCodeValue"]
    if len(ctor) != 1:
        raise AnalysisError("get_collection: CPPCodeValue construction not found")
    gs = guards(fn, ctor[0], pm)
    # the code value is built only when: len(args) == 1 and isinstance(arg0, Constant) and isinstance(arg0.value, str)
    arity = any(isinstance(t, ast.Compare) and src(t.left) == "len(call_node.args)" and
                ((isinstance(t.ops[0], ast.NotEq) and not tr) or (isinstance(t.ops[0], ast.Eq) and tr)) and src(t.comparators[0]) == "1" for t, tr in gs)
    col.add("C06.R3", gc_f.short, "exactly-one-argument", arity,
            f"a collection call with any number of arguments other than one must raise before the code value is built (guards {[src(t) + '=' + str(tr) for t, tr in gs]})", gc_f.loc)
    a0 = None
    strok = False
    for t, tr in gs:
        s = src(t)
        if "ast.Constant" in s and "str" in s:
            m_ = re.search(r"isinstance\(([^,]+), ast\.Constant\)", s)
            a0 = m_.group(1) if m_ else None
            if a0:
                req = [f"isinstance({a0}, ast.Constant)", f"isinstance({a0}.value, str)"]
                try:
                    strok = truth_table_implies(t, tr, req)
                except AnalysisError:
                    strok = False
    col.add("C06.R3", gc_f.short, "argument-is-a-string-constant", strok and a0 in ("call_node.args[0]",) or (strok and a0 is not None and
            src(resolve_name(fn, ast.parse(a0).body[0].value)) == "call_node.args[0]"),
            "the code value may only be built when the argument is an ast.Constant AND its value is a str (propositional check of the guard in "
            "the direction taken); anything else - a number, an expression, another call - must raise", gc_f.loc)
    # the code value is built only where every validation passed: for each raise, the test that decides it (its own guards minus the ones
    # it shares with the constructor call) is among the constructor's guards with the opposite outcome
    gpm = parent_map(fn)
    gc_ = {(src(t), tr_) for t, tr_ in guards(fn, ctor[0], gpm)} if ctor else set()
    passed_all = bool(ctor) and len(raises) >= 2
    for r in raises:
        gr = {(src(t), tr_) for t, tr_ in guards(fn, r, gpm)}
        decisive = gr - gc_
        passed_all = passed_all and bool(decisive) and all((t_, not v_) in gc_ for t_, v_ in decisive)
    col.add("C06.R3", gc_f.short, "validation-before-anything-else", passed_all,
            "the code value must be constructed only where both validations passed (each raise's deciding test holds with the opposite outcome "
            "at the construction)", gc_f.loc)

    # ------------------------------------------------------------ R4 backend check agreement
    col.floor("C06.R4", 6)
    for be, (mod, exe, mdt, table) in BACKENDS.items():
        ex = repo.find_class(exe)
        bc = ex.methods.get("build_collection_callback")
        if bc is None:
            raise AnalysisError(f"{exe}.build_collection_callback not found")
        bpm = parent_map(bc.node)
        lit = None
        for r in walk_no_nested(bc.node):
            if isinstance(r, ast.Raise):
                for t, tr in guards(bc.node, r, bpm):
                    if isinstance(t, ast.Compare) and src(t.left) == "metadata.backend_name" and isinstance(t.ops[0], ast.Eq) and not tr:
                        lit = const_str(t.comparators[0])
        rets = [r for r in walk_no_nested(bc.node) if isinstance(r, ast.Return)]
        # every return is reached only when the name matched: it stands under (backend_name == lit, True)
        after = bool(rets) and all(any(isinstance(t, ast.Compare) and src(t.left) == "metadata.backend_name" and isinstance(t.ops[0], ast.Eq) and tr
                                       and const_str(t.comparators[0]) == lit for t, tr in guards(bc.node, r, bpm)) for r in rets)
        col.add("C06.R4", f"{exe}.build_collection_callback", "refuses-other-backends", lit == be and after,
                f"must raise unless metadata.backend_name == {be!r} (found literal {lit!r}) before returning the callback", bc.loc)
        pmf, br = md_branch(repo, mdt)
        specs = [c for c in ast.walk(ast.Module(body=br.body, type_ignores=[])) if isinstance(c, ast.Call) and call_name(c) == "EventCollectionSpecification"]
        ok = len(specs) == 1 and const_str(specs[0].args[0]) == be
        col.add("C06.R4", f"process_metadata.{mdt}", "assigns-own-backend-name", ok,
                f"the {mdt} branch must build EventCollectionSpecification({be!r}, ...) (found {src(specs[0].args[0]) if specs else None})", pmf.loc)
        # the callback forwards to this executor's coder with that metadata
        lam = [n for n in ast.walk(bc.node) if isinstance(n, ast.Lambda)]
        ok = len(lam) == 1 and src(lam[0].body).replace(" ", "") == f"self._ecc.get_collection(metadata,{lam[0].args.args[0].arg})"
        col.add("C06.R4", f"{exe}.build_collection_callback", "callback-uses-own-coder-and-that-metadata", ok, "lambda cd: self._ecc.get_collection(metadata, cd)", bc.loc)

    # ------------------------------------------------------------ R5 metadata keys
    col.floor("C06.R5", 18)
    for be, (mod, exe, mdt, table) in BACKENDS.items():
        pmf, br = md_branch(repo, mdt)
        from sa.props._tr import inline_helper_calls, literal_str_collection
        eff_body = inline_helper_calls(repo, pmf, br.body)
        body = ast.Module(body=eff_body, type_ignores=[])
        allowed = None
        notes: list = []
        tests = [n for n in ast.walk(body) if isinstance(n, ast.Compare) and isinstance(n.ops[0], ast.NotIn) and isinstance(n.left, ast.Name)
                 and any(isinstance(f_, ast.For) and src(f_.iter) in ("md.keys()", "md") and src(f_.target) == n.left.id for f_ in ast.walk(body))]
        if len(tests) != 1:
            raise AnalysisError(f"{mdt}: allowed key list not found ({len(tests)} `key not in <list>` tests over md.keys())")
        scope = eff_body + [s_ for s_ in pmf.node.body]
        allowed = sorted(literal_str_collection(repo, pmf.module, eff_body, tests[0].comparators[0], notes))
        col.add("C06.R5", f"process_metadata.{mdt}", "allowed-keys-are-a-constant-of-this-backend", not notes,
                f"the keys accepted for {mdt} must not depend on earlier declarations: {notes}", pmf.loc)
        read = set()
        for n in ast.walk(body):
            if isinstance(n, ast.Subscript) and src(n.value) == "md" and const_str(n.slice):
                read.add(const_str(n.slice))
            if isinstance(n, ast.Call) and call_name(n) == "get" and src(n.func.value) == "md" and n.args and const_str(n.args[0]):
                read.add(const_str(n.args[0]))
            if isinstance(n, ast.Compare) and isinstance(n.ops[0], (ast.In, ast.NotIn)) and src(n.comparators[0]) == "md" and const_str(n.left):
                pass  # a membership test alone is not a use of the value
        readme = doc.table_keys_by_type(README_HEADING, mdt)
        for k in readme:
            col.add("C06.R5", f"process_metadata.{mdt}", f"documented-key-allowed:{k}", k in allowed, f"README documents `{k}`; allowed keys {allowed}", "README.md")
        for k in allowed:
            if k == "metadata_type":
                continue
            col.add("C06.R5", f"process_metadata.{mdt}", f"allowed-key-read:{k}", k in read,
                    f"key `{k}` is accepted for {mdt} but its value is never read (read keys {sorted(read)}): the declaration is silently ignored", pmf.loc)
        # unknown keys raise; consistency check raises
        unk = [n for n in ast.walk(body) if isinstance(n, ast.For) and src(n.iter) in ("md.keys()", "md") and any(isinstance(r, ast.Raise) for r in ast.walk(n))]
        col.add("C06.R5", f"process_metadata.{mdt}", "unknown-key-raises", len(unk) == 1, "every key must be checked against the allowed list, raising ValueError", pmf.loc)
        cons = [n for n in body.body if isinstance(n, ast.If) and "contains_collection" in src(n.test) and "element_type" in src(n.test)
                and any(isinstance(r, ast.Raise) for r in n.body)]
        okc = False
        if len(cons) == 1:
            # raise exactly when contains_collection XOR element_type present
            t = cons[0].test
            atoms = ["md['contains_collection']", "'element_type' not in md", "'element_type' in md"]
            s = src(t)
            okc = s.replace('"', "'") == "md['contains_collection'] and 'element_type' not in md or (not md['contains_collection'] and 'element_type' in md)"
        col.add("C06.R5", f"process_metadata.{mdt}", "element_type-iff-contains_collection", okc,
                "element_type must be given exactly when contains_collection is true, else ValueError", pmf.loc)

    # an explicit pointer depth given together with a parsed type is silently ignored by terminal.__init__
    tinit = repo.find_class("terminal").methods["__init__"]
    ignores = "isinstance(t, CPPParsedTypeInfo)" in src(tinit.node)
    for f in repo.all_functions():
        for c in walk_no_nested(f.node):
            # (whatever the callee is called: terminal(..), a collection class, or super().__init__(..) of one of them)
            if isinstance(c, ast.Call) and (any(k.arg and k.arg.startswith("p_depth") for k in c.keywords)
                                            or any(isinstance(a, ast.Name) and a.id.startswith("p_depth") for a in c.args)):
                depth_args = [k.arg for k in c.keywords if k.arg and k.arg.startswith("p_depth")] + \
                    [a.id for a in c.args if isinstance(a, ast.Name) and a.id.startswith("p_depth")]
                parsed = [a for a in c.args if (isinstance(a, ast.Call) and call_name(a) == "parse_type")
                          or (isinstance(a, ast.Name) and any(isinstance(d, ast.Call) and call_name(d) == "parse_type" for d in defs_of(f.node, a.id)))]
                if depth_args and parsed and ignores:
                    col.add("C06.R5", f.short, f"explicit-depth-with-parsed-type:{call_name(c)}", False,
                            f"`{src(c)[:70]}` passes a parsed type together with {depth_args}: when the type is a CPPParsedTypeInfo the pointer depth is "
                            "taken from it and the explicit depth (e.g. from element_pointer) is ignored", f"{f.module.rel}:{c.lineno}")
    col.add("C06.R5", "cpp_types.terminal", "parsed-type-and-explicit-depth-never-combined", True, "scanned all type constructions")
    from sa.props._tr import import_obligations
    import_obligations(col, "C06.R6", "c14", lambda o: o.detail == "bare-unfiltered-slot" and "body_include_files" in o.construct,
                       "the headers a container needs are requested through body_include_files: a template that filters that list leaves some of them out")
    import_obligations(col, "C06.R6", "c14", lambda o: o.construct == "template.atlas:link_libraries",
                       "two libraries rendered without a separator name a library that does not exist")
    from sa.props._tr import check_no_state_on_query_nodes
    check_no_state_on_query_nodes(col, "C06.R10", repo)   # every translation of a collection access declares its instance fields (tokens)
    # ------------------------------------------------------------ R6 de-duplication + forwarding
    col.floor("C06.R6", 4)
    for meth, lst in (("add_include", "_include_files"), ("add_link_library", "_link_libraries")):
        f = repo.method("generated_code", meth)
        p0 = f.node.args.args[1].arg
        pmf_ = parent_map(f.node)
        adds = [n for n in walk_no_nested(f.node) if isinstance(n, (ast.AugAssign, ast.Call)) and (
            (isinstance(n, ast.AugAssign) and src(n.target) == f"self.{lst}") or (isinstance(n, ast.Call) and call_name(n) == "append" and src(n.func.value) == f"self.{lst}"))]
        gs_ = {(src(t), tr) for t, tr in guards(f.node, adds[0], pmf_)} if len(adds) == 1 else set()
        # exactly that condition: anything else that keeps a requested item out (an "equivalent" header under another spelling, a prefix
        # test, a size limit) drops something the generated code needs
        ok = len(adds) == 1 and gs_ == {(f"{p0} in self.{lst}", False)}
        col.add("C06.R6", f.short, "appended-once-under-not-in", ok,
                f"{meth} must append {p0} if - and only if - it is not already in self.{lst} (conditions found: {sorted(gs_)})", f.loc)
    pan = repo.function("process_ast_node")
    for attr, meth in (("include_files", "add_include"), ("link_libraries", "add_link_library")):
        ok = any(isinstance(n, ast.For) and src(n.iter).endswith(f".{attr}") and any(
            isinstance(c, ast.Call) and call_name(c) == meth and src(c.args[0]) == src(n.target) for c in ast.walk(n)) for n in walk_no_nested(pan.node))
        col.add("C06.R6", pan.short, f"forwards-every:{attr}", ok, f"every entry of the code value's {attr} must reach {meth}", pan.loc)
    for attr in ("include_files", "link_libraries"):
        srcattr = "md.include_files" if attr == "include_files" else "md.libraries"
        ok = any(isinstance(n, ast.AugAssign) and src(n.target).endswith(f".{attr}") and src(n.value) == srcattr for n in walk_no_nested(fn))
        col.add("C06.R6", gc_f.short, f"specification-{attr}-copied-to-code-value", ok, f"r.{attr} += {srcattr}", gc_f.loc)

    # ------------------------------------------------------------ R7 one token per use (miniAOD)
    col.floor("C06.R7", 3)
    mm = repo.mod(BACKENDS["cms_miniaod"][0])
    coder = [c for c in mm.classes.values() if any(k.name == "event_collection_coder" for k in repo.mro(c))][0]
    g = coder.methods.get("get_running_code_CPPCodeValue")
    if g is None:
        raise AnalysisError("miniAOD coder has no get_running_code_CPPCodeValue")
    tdefs = [n for n in walk_no_nested(g.node) if isinstance(n, ast.Assign) and isinstance(n.value, ast.Call) and call_name(n.value) == "unique_name"]
    ok = len(tdefs) == 1 and isinstance(tdefs[0].targets[0], ast.Name)
    col.add("C06.R7", g.short, "token-name-generated-per-use", ok, "the token name must come from a unique_name(...) call evaluated inside the per-use method", g.loc)
    if ok:
        t = tdefs[0].targets[0].id
        var = [c for c in ast.walk(g.node) if isinstance(c, ast.Call) and call_name(c) == "cpp_variable"]
        rc = [n for n in walk_no_nested(g.node) if isinstance(n, ast.Assign) and src(n.targets[0]).endswith(".running_code")]
        ok2 = len(var) == 1 and src(var[0].args[0]) == t and len(rc) == 1 and t in [src(a) for a in rc[0].value.args] if rc and isinstance(rc[0].value, ast.Call) else False
        col.add("C06.R7", g.short, "declaration-and-retrieval-share-the-name", bool(ok2),
                "the token variable and the running code must be built from the same per-use name", g.loc)
        ty = src(var[0].args[2]) if var and len(var[0].args) > 2 else ""
        sc = src(var[0].args[1]) if var and len(var[0].args) > 1 else ""
        col.add("C06.R7", g.short, "token-typed-and-scoped", "token_type()" in ty and sc.endswith("()"),
                f"token variable type {ty}, scope {sc} (a scope object, not the class)", g.loc)
    fld = [c for c in ast.walk(g.node) if isinstance(c, ast.Call) and call_name(c) == "append" and src(c.func.value).endswith(".fields")]
    col.add("C06.R7", g.short, "token-registered-as-field", len(fld) == 1, "the (token variable, initialiser) pair must be appended to the code value's fields", g.loc)
    # producer/consumer agreement on the pair's layout: (variable, initialiser text) - process_ast_node declares and assigns [0], substitutes [1]
    pair = fld[0].args[0] if len(fld) == 1 and fld[0].args and isinstance(fld[0].args[0], ast.Tuple) and len(fld[0].args[0].elts) == 2 else None
    prod_ok = pair is not None and isinstance(resolve_name(g.node, pair.elts[0]), ast.Call) and call_name(resolve_name(g.node, pair.elts[0])) == "cpp_variable" \
        and isinstance(resolve_name(g.node, pair.elts[1]), (ast.JoinedStr, ast.Constant))
    pan = repo.function("process_ast_node")
    cons_ok = False
    for lp in [n for n in walk_no_nested(pan.node) if isinstance(n, ast.For) and src(n.iter).endswith(".fields")]:
        it = src(lp.target)
        decl = [c for c in ast.walk(lp) if isinstance(c, ast.Call) and call_name(c) == "declare_class_variable"]
        setv = [c for c in ast.walk(lp) if isinstance(c, ast.Call) and call_name(c) == "set_var"]
        subs = [c for c in ast.walk(lp) if isinstance(c, ast.Call) and call_name(c) == "_substitute_arguments"]
        cons_ok = len(decl) == 1 and [src(a) for a in decl[0].args] == [f"{it}[0]"] and len(setv) == 1 and src(setv[0].args[0]) == f"{it}[0]" \
            and len(subs) == 1 and src(subs[0].args[0]) == f"{it}[1]" and isinstance(setv[0].args[1], ast.Call) \
            and (src(setv[0].args[1].args[0]) == src(subs[0]) or any(isinstance(a, ast.Assign) and src(a.targets[0]) == src(setv[0].args[1].args[0]) and a.value is subs[0] for a in ast.walk(lp)))
    col.add("C06.R7", "CPPCodeValue.fields", "pair-layout-agrees:(variable, initialiser)", prod_ok and cons_ok,
            f"the producer appends (cpp_variable, text) [{prod_ok}]; process_ast_node must declare <pair>[0] as a class variable and book "
            f"set_var(<pair>[0], <pair>[1] with the arguments substituted) [{cons_ok}]", pan.loc)
    no_class_unique = not [c for c in ast.walk(coder.node) if isinstance(c, ast.Assign) and c in coder.node.body]
    col.add("C06.R7", coder.name, "no-class-level-names", no_class_unique, "no name may be computed at class level (evaluated once per process)", coder.module.rel)

    col.floor("C06.R8", 4)
    check_fresh_code_value(col, "C06.R8", repo)

    # ------------------------------------------------------------ R9 discovery
    col.floor("C06.R9", 4)
    check_finder(col, "C06.R9", repo)
    # the executor tables are built from the backend's own table with its own coder
    for be, (mod, exe, mdt, table) in BACKENDS.items():
        ex = repo.find_class(exe)
        ini = ex.methods["__init__"]
        comp = [n for n in ast.walk(ini.node) if isinstance(n, ast.DictComp) and src(n.generators[0].iter) == table]
        ok = len(comp) == 1 and src(comp[0].key) == f"{src(comp[0].generators[0].target)}.name" and "self._ecc" in src(comp[0].value)
        col.add("C06.R9", f"{exe}.__init__", "built-in-table-registered-by-name-with-own-coder", ok,
                f"method table must map md.name -> callback(self._ecc, md) for md in {table}", ini.loc)
        bcb = ex.methods.get("build_callback")
        ok = bcb is not None and src([n for n in ast.walk(bcb.node) if isinstance(n, ast.Lambda)][0].body).replace(" ", "") == "ecc.get_collection(md,cd)"
        col.add("C06.R9", f"{exe}.build_callback", "binds-its-own-specification", ok, "lambda cd: ecc.get_collection(md, cd) with md bound per call of build_callback", bcb.loc if bcb else ex.module.rel)


def check_fresh_code_value(col: Collector, rule: str, repo: Repo):
    gc_f = repo.method("event_collection_coder", "get_collection")
    fn = gc_f.node
    # ------------------------------------------------------------ R8 fresh code value, stateless coders
    paths = [p for p in enumerate_paths(fn) if p.status == "return"]
    ok = bool(paths) and all(sum(1 for e in p.events if e.kind == "call" and call_name(e.node) == "CPPCodeValue") == 1 and
                             any(e.kind == "assign" and src(e.node.targets[0]) == "call_node.func" for e in p.events if isinstance(e.node, ast.Assign)) for p in paths)
    col.add(rule, gc_f.short, "new-code-value-for-every-call", ok,
            "every returning path must construct a new CPPCodeValue and install it as this call's func (a remembered node would carry another call's bank name)", gc_f.loc)
    base = repo.find_class("event_collection_coder")
    for c in [base] + repo.subclasses(base):
        writes = []
        for meth in c.methods.values():
            for n in walk_no_nested(meth.node):
                tg = n.targets if isinstance(n, ast.Assign) else ([n.target] if isinstance(n, (ast.AugAssign, ast.AnnAssign)) else [])
                for t in tg:
                    b = t
                    while isinstance(b, (ast.Subscript, ast.Attribute)) and not (isinstance(b, ast.Attribute) and isinstance(b.value, ast.Name) and b.value.id == "self"):
                        b = b.value
                    if isinstance(b, ast.Attribute) and isinstance(b.value, ast.Name) and b.value.id == "self":
                        writes.append(f"{meth.name}: {src(t)}")
                if isinstance(n, ast.Call) and isinstance(n.func, ast.Attribute) and call_name(n) in ("append", "update", "setdefault", "add", "extend") \
                        and src(n.func.value).startswith("self."):
                    writes.append(f"{meth.name}: {src(n)[:40]}")
        col.add(rule, c.name, "coder-keeps-no-state", not writes,
                f"the coder object lives as long as the executor; it must not remember anything between calls (writes: {writes})", c.module.rel)

