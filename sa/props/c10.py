"""C10 - declared method, collection-return and enum types are honoured exactly.

Decided: a single synthesis point for '.'/'->' (with frozen exceptions), sibling
agreement of the two member-access handlers, the double fallback with its
warning, the metadata -> registry mapping, element-typed iteration and indexing,
enum rendering through the recursive qualified name, the shape of the
indirection loop.  Not decided: the depth arithmetic over all combinations as
values (the C++ compiler is the judge).
"""
from __future__ import annotations

import ast
import re

from sa.core.common import AnalysisError, Collector
from sa.core.paths import enclosing, enumerate_paths, guards, parent_map
from sa.core.pyfacts import Repo, arg, call_name, const_str, kwarg, src, walk_no_nested
from sa.core.templates import parts, shape
from sa.props._tr import defs_of, resolve_name, visitor_methods
from sa.props.c18 import string_sinks

EXPLANATION = (
    "R1 every template in which a value's C++ text is followed by a literal '.' or '->' gets that access prefix from "
    "base_type_member_access (frozen exceptions: push_back/clear/begin/end on std::vector storage the translator itself "
    "declared by value); visit_Call_Member and visit_Attribute both pass the deref depth of determine_type_mf(<receiver "
    "type>, <name>); R2 determine_type_mf falls back to double with depth 0 only after logging a warning, and refuses methods "
    "on numbers; R3 the add_method_type_info branch forwards parsed pointer depth, tree_type, deref_count and the collection "
    "form to the registry unchanged; add/lookup agree on (type string, method name); R4 a collection is iterated with its "
    "element type over the dereferenced collection and indexed with its element type; R5 enum values render through the "
    "namespace's recursive full name with every '.' replaced by '::', and only declared values render; R6 "
    "base_type_member_access wraps (*x) once per indirection beyond the first inside a loop over range(1, depth) and chooses "
    "'->' iff depth > 0 with depth = extra_deref + pointer depth; parse_type counts every trailing '*'; dereference_var "
    "prefixes '*' and lowers the type's depth; R7 output columns use the declared tree type (see C03.R7)."
)
ASSUMPTIONS = ["C++ member access semantics for '.', '->' and unary '*'"]

# (function, literal following the hole) -> reason
ACCESS_EXCEPTIONS = {
    ("push_back.emit", ".push_back("): "vector storage declared by the translator by value",
    ("container_clear.emit", ".clear();"): "vector storage declared by the translator by value",
    ("query_ast_visitor.call_Range", ".begin()"): "std::vector<int> declared by value in the same block",
    ("query_ast_visitor.call_Range", ".end()"): "std::vector<int> declared by value in the same block",
}


def check(col: Collector, tier: str):
    repo = Repo()
    m = visitor_methods(repo)
    # ------------------------------------------------------------ R1
    col.floor("C10.R1", 6)
    n_seen = 0
    for f, c, a in string_sinks(repo):
        ps = parts(f.node, a)
        for i, (k, v) in enumerate(ps[:-1]):
            nk, nv = ps[i + 1]
            if k == "hole" and nk == "lit" and (nv.startswith("->") or re.match(r"^\.[A-Za-z_]", nv)):
                n_seen += 1
                exc = None
                for (fn_, lit), why in ACCESS_EXCEPTIONS.items():
                    if f.short == fn_ and nv.startswith(lit):
                        exc = why
                col.add("C10.R1", f.short, f"hand-written-access:{nv[:12]}", exc is not None,
                        f"template {''.join(shape(ps))[:70]!r} appends `{nv[:6]}` to a value's C++ text by hand: the indirection of the value's type "
                        "is ignored; use base_type_member_access" if exc is None else f"frozen exception: {exc}", f"{f.module.rel}:{c.lineno}")
    col.info["value_followed_by_member_access"] = n_seen
    # (E-NORM N15: a local that only names an access path - function_name = call_node.func.attr - is read as that path)
    for hname, name_expr in (("visit_Call_Member", "call_node.func.attr"), ("visit_Attribute", "node.attr")):
        h = m.get(hname)
        if h is None:
            raise AnalysisError(f"{hname} not found")
        bt = [c for c in ast.walk(h.node) if isinstance(c, ast.Call) and call_name(c) == "base_type_member_access"]
        dm = [c for c in ast.walk(h.node) if isinstance(c, ast.Call) and call_name(c) == "determine_type_mf"]
        ok = len(bt) == 1 and len(dm) == 1 and src(arg(bt[0], 1, "extra_deref")) == "m_info.deref_depth"
        if ok:
            recv = src(bt[0].args[0])
            ok = src(dm[0].args[0]) == f"{recv}.cpp_type()" and src(dm[0].args[1]) == name_expr
            mi = defs_of(h.node, "m_info")
            ok = ok and len(mi) == 1 and mi[0] is dm[0]
        col.add("C10.R1", h.short, "access-prefix-from-the-declared-indirection", ok,
                "base_type_member_access(<receiver>, m_info.deref_depth) with m_info = determine_type_mf(<receiver>.cpp_type(), <member name>): "
                "both handlers must agree", h.loc)
        # result typed by the declaration
        if hname == "visit_Call_Member":
            # per path, locals substituted: what set_rep publishes is cpp_collection(..) exactly where the declared return type is a
            # collection, cpp_value(..) otherwise, both placed at the receiver's scope and typed by the declaration (.r_type)
            from sa.core.paths import substituted_paths as _sp
            ok = True
            kinds = set()
            for items in _sp(h.node):
                if any(k == "raise" for k, *_ in items):
                    continue
                pubs_ = [c for k, c, *_ in items if k == "call" and call_name(c) == "set_rep"]
                is_coll = [r_[0] for k, t, *r_ in items if k == "cond" and "isinstance(" in src(t) and src(t).rstrip(")").endswith("ctyp.collection") and ".r_type" in src(t)]
                if len(pubs_) != 1 or len(is_coll) != 1 or len(pubs_[0].args) < 2 or not isinstance(pubs_[0].args[1], ast.Call):
                    ok = False
                    continue
                made = pubs_[0].args[1]
                want = "cpp_collection" if is_coll[0] else "cpp_value"
                ok = ok and call_name(made) == want and len(made.args) == 3 and src(made.args[1]).endswith(".scope()") and src(made.args[2]).endswith(".r_type")
                kinds.add(want)
            ok = ok and kinds == {"cpp_collection", "cpp_value"}
            col.add("C10.R1", h.short, "result-typed-by-the-declaration", ok, "collection-valued methods become cpp_collection, others cpp_value, both typed m_info.r_type", h.loc)
            tpl = defs_of(h.node, "v_name")
            sh = shape(parts(h.node, tpl[0])) if len(tpl) == 1 else []
            ok = len(sh) == 5 and sh[0] == "{c_stub}" and sh[1] == "{call_node.func.attr}" and sh[2] == "(" and "join" in sh[3] and sh[4] == ")"
            col.add("C10.R1", h.short, "call-template", ok, f"{sh}", h.loc)
    # ------------------------------------------------------------ R2 fallback
    col.floor("C10.R2", 3)
    dt = repo.function("determine_type_mf")
    paths = enumerate_paths(dt.node)
    fb = [p for p in paths if p.status == "return" and any(e.kind == "call" and call_name(e.node) == "MethodInvokeInfo" for e in p.events)]
    ok = bool(fb) and all(any(e.kind == "call" and call_name(e.node) == "warning" for e in p.events) for p in fb)
    col.add("C10.R2", dt.short, "fallback-logs-a-warning", ok, "every path that invents a return type must pass through logging...warning(...)", dt.loc)
    mk = [c for c in ast.walk(dt.node) if isinstance(c, ast.Call) and call_name(c) == "MethodInvokeInfo"]
    ok = len(mk) == 1 and src(mk[0].args[0]).replace('"', "'") == "ctyp.terminal('double')" and src(mk[0].args[1]) == "0"
    col.add("C10.R2", dt.short, "fallback-is-double-by-value", ok, "an undeclared method is assumed to return double with no extra dereference", dt.loc)
    known = [p for p in paths if p.status == "return" and not any(e.kind == "call" and call_name(e.node) == "MethodInvokeInfo" for e in p.events)]
    ok = bool(known) and all(any(e.kind == "call" and call_name(e.node) == "method_type_info" for e in p.events) for p in known)
    lk = [c for c in ast.walk(dt.node) if isinstance(c, ast.Call) and call_name(c) == "method_type_info"]
    ok = ok and len(lk) == 1 and src(resolve_name(dt.node, lk[0].args[0])) == "parent_type.type" and src(lk[0].args[1]) == "function_name"
    col.add("C10.R2", dt.short, "declared-type-wins", ok, "the registry entry for (parent type name, method name) must be returned when present", dt.loc)

    # ------------------------------------------------------------ R3 metadata -> registry
    col.floor("C10.R3", 6)
    pmf = repo.function("process_metadata")
    br = None
    for n in ast.walk(pmf.node):
        if isinstance(n, ast.If) and isinstance(n.test, ast.Compare) and const_str(n.test.comparators[0]) == "add_method_type_info":
            br = n
    if br is None:
        raise AnalysisError("no add_method_type_info branch")
    body = ast.Module(body=br.body, type_ignores=[])
    terms = [c for c in ast.walk(body) if isinstance(c, ast.Call) and call_name(c) == "terminal"]
    single = [c for c in terms if "type_info.name" in src(c)]
    ok = len(single) == 1 and src(kwarg(single[0], "p_depth")) == "type_info.pointer_depth" and \
        src(kwarg(single[0], "tree_type")).replace('"', "'") in ("md.get('tree_type', None)", "md.get('tree_type')")
    col.add("C10.R3", "process_metadata.add_method_type_info", "value-return:name,pointer-depth,tree-type", ok,
            "terminal(type_info.name, p_depth=type_info.pointer_depth, tree_type=md.get('tree_type'))", pmf.loc)
    ti = [n for n in ast.walk(body) if isinstance(n, ast.Assign) and src(n.targets[0]) == "type_info"]
    ok = len(ti) == 1 and src(ti[0].value).replace('"', "'") == "parse_type(md['return_type'])"
    col.add("C10.R3", "process_metadata.add_method_type_info", "return-type-parsed", ok, "", pmf.loc)
    coll = [c for c in ast.walk(body) if isinstance(c, ast.Call) and call_name(c) == "collection"]
    ok = len(coll) == 1 and src(coll[0].args[0]) == "terminal(type_info_element)" and src(kwarg(coll[0], "array_type")) == "type_info_collection"
    col.add("C10.R3", "process_metadata.add_method_type_info", "collection-return:element-and-array-type", ok,
            "collection(terminal(<parsed element>), array_type=<parsed collection type>)", pmf.loc)
    from sa.props._tr import conditional_defs
    arms = [(src(v).replace('"', "'"), gs) for v, gs in conditional_defs(pmf.node, ast.Name(id="type_info_collection", ctx=ast.Load()))]
    given = [t_ for t_, gs in arms if ("'return_type_collection' in md", True) in gs]
    dflt = [t_ for t_, gs in arms if ("'return_type_collection' in md", False) in gs]
    ok = len(arms) == 2 and given == ["parse_type(md['return_type_collection'])"] and len(dflt) == 1 and "std::vector<" in dflt[0]
    col.add("C10.R3", "process_metadata.add_method_type_info", "collection-type-default-is-std::vector", ok, "", pmf.loc)
    add = [c for c in ast.walk(body) if isinstance(c, ast.Call) and call_name(c) == "add_method_type_info"]
    dd = arg(add[0], 3, "deref_depth") if len(add) == 1 else None
    ok = len(add) == 1 and [src(a).replace('"', "'") for a in add[0].args[:3]] == ["md['type_string']", "md['method_name']", "term"] and dd is not None
    if ok:
        dvals = [src(v).replace('"', "'") for v, _ in conditional_defs(pmf.node, dd)]
        ok = dvals == ["int(md.get('deref_count', 0))"]
    col.add("C10.R3", "process_metadata.add_method_type_info", "registered-under-type-and-method-with-deref-count", ok,
            "add_method_type_info(md['type_string'], md['method_name'], term, int(md['deref_count']) or 0)", pmf.loc)
    am = repo.function("add_method_type_info")
    # write and read address the same slot of the nested table - g[type][method] - however the access is spelled (indexing under
    # membership tests, .get chains, setdefault, a local for the inner table)
    from sa.props._tr import dict_path, unguarded_index
    from sa.core.paths import outcomes
    a_ty, a_me, a_t, a_d = [a.arg for a in am.node.args.args[:4]]
    stores = [n for n in walk_no_nested(am.node) if isinstance(n, ast.Assign) and isinstance(n.value, ast.Call) and call_name(n.value) == "MethodInvokeInfo"]
    ok = len(stores) == 1 and [src(a) for a in stores[0].value.args] == [a_t, a_d] \
        and dict_path(am.node, stores[0].targets[0]) == ("g_method_type_dict", a_ty, a_me)
    ml = repo.function("method_type_info")
    l_ty, l_me = [a.arg for a in ml.node.args.args[:2]]
    outs = [o for o in outcomes(ml.node) if o.kind != "raise"]
    found = [o for o in outs if o.value is not None]
    ok = ok and len(found) == 1 and dict_path(ml.node, found[0].value) == ("g_method_type_dict", l_ty, l_me) \
        and not any(o.kind == "raise" for o in outcomes(ml.node)) and not unguarded_index(ml.node, found[0].value, found[0].guards)
    col.add("C10.R3", "cpp_types.registry", "add-and-lookup-agree", ok, "stored and read under [type_string][method_name]", am.loc)
    tm = repo.find_class("terminal").methods["__init__"]
    s = src(tm.node)
    ok = "self._p_depth = t.pointer_depth" in s and "self._p_depth = p_depth" in s and "self._tree_type = tree_type" in s and "self._type = t.name" in s
    col.add("C10.R3", "terminal.__init__", "stores-depth-and-tree-type", ok, "", tm.loc)

    # ------------------------------------------------------------ R4 element-typed iteration / indexing
    col.floor("C10.R4", 3)
    ms = m["make_sequence_from_collection"]
    it = [c for c in ast.walk(ms.node) if isinstance(c, ast.Call) and call_name(c) == "cpp_value"]
    ok = len(it) == 1 and src(it[0].args[2]) == "cpp_type.element_type" and [src(d) for d in defs_of(ms.node, "cpp_type")] == ["rep.cpp_type()"]
    col.add("C10.R4", ms.short, "iterator-has-the-element-type", ok, "the loop variable must be typed rep.cpp_type().element_type", ms.loc)
    lp = [c for c in ast.walk(ms.node) if isinstance(c, ast.Call) and call_name(c) == "loop"]
    cd = defs_of(ms.node, "collection")
    ok = len(lp) == 1 and [src(a) for a in lp[0].args] == ["iterator_value", "collection"] and len(cd) == 1 and src(cd[0]) == "crep.dereference_var(rep)"
    col.add("C10.R4", ms.short, "loops-over-the-dereferenced-collection", ok, "loop(iterator, dereference_var(rep))", ms.loc)
    vsub = m["visit_Subscript"]
    cv = [c for c in ast.walk(vsub.node) if isinstance(c, ast.Call) and call_name(c) == "cpp_value"]
    ok = len(cv) == 1 and src(arg(cv[0], 2, "cpp_type")) == "v.get_element_type()" and "base_type_member_access(v)" in src(cv[0].args[0])
    col.add("C10.R4", vsub.short, "indexed-element-has-the-element-type", ok, "", vsub.loc)
    check_default_vector_type(col, "C10.R4", repo)
    ci_ = repo.find_class("collection").methods["__init__"]
    pmc_ = parent_map(ci_.node)
    sups = [c for c in ast.walk(ci_.node) if isinstance(c, ast.Call) and src(c.func) == "super().__init__"]
    sig = sorted((tuple(src(a) for a in c.args), tuple((k.arg, src(k.value)) for k in c.keywords), tuple((src(t), tr_) for t, tr_ in guards(ci_.node, c, pmc_))) for c in sups)
    ok = len(sups) == 3 and any(a == ("array_type",) and not kw and ("isinstance(array_type, CPPParsedTypeInfo)", True) in g for a, kw, g in sig) \
        and any(a == ("array_type",) and kw == (("p_depth", "p_depth"),) for a, kw, g in sig)
    col.add("C10.R4", "collection.__init__", "declared-array-type-and-depth-forwarded", ok,
            "a parsed array type carries its own pointer depth; a plain type name takes the given p_depth", ci_.loc)
    et = [n for n in ast.walk(ci_.node) if isinstance(n, ast.Assign) and src(n.targets[0]) == "self._element_type"]
    col.add("C10.R4", "collection.__init__", "element-type-stored", len(et) == 1 and src(et[0].value) == "element_type", "", ci_.loc)
    ge = repo.find_class("cpp_collection").methods["get_element_type"]
    col.add("C10.R4", "cpp_collection.get_element_type", "reads-element_type", ".element_type" in src(ge.node), "", ge.loc)

    # ------------------------------------------------------------ R5 enums
    col.floor("C10.R5", 4)
    en = repo.find_class("ENumInfo")
    va = en.methods["value_as_cpp"]
    rets = [r for r in walk_no_nested(va.node) if isinstance(r, ast.Return)]
    ok = len(rets) == 1
    qual_attr = None
    if ok:
        e = rets[0].value
        ok = isinstance(e, ast.Call) and call_name(e) == "replace" and [const_str(a) for a in e.args] == [".", "::"]
        if ok:
            sh = shape(parts(va.node, e.func.value))
            ok = len(sh) == 3 and sh[1] == "::" and sh[2] == "{value}" and sh[0].startswith("{self.ns.")
            qual_attr = sh[0][len("{self.ns."):-1] if ok else None
    col.add("C10.R5", "ENumInfo.value_as_cpp", "qualified-name::value-with-dots-replaced", ok, "f'{self.ns.<qualified name>}::{value}'.replace('.', '::')", va.loc)
    ns = repo.find_class("NameSpaceInfo")
    q = ns.methods.get(qual_attr) if qual_attr else None
    ok = q is not None
    if ok:
        from sa.core.paths import outcomes
        outs = outcomes(q.node)
        with_parent = [o for o in outs if o.under(("self.parent_ns is None", False))]
        ok = len(with_parent) == 1 and with_parent[0].kind == "return" and shape(parts(q.node, with_parent[0].value)) == \
            ["{self.parent_ns." + qual_attr + "}", ".", "{self.ns_name}"] and \
            all(o.kind == "return" and o.text == "self.ns_name" for o in outs if o.under(("self.parent_ns is None", True))) and len(outs) == 2
    col.add("C10.R5", f"NameSpaceInfo.{qual_attr}", "qualified-name-recurses-through-every-parent", ok,
            "the namespace name used for rendering must be built recursively (<parent's same property>.<own name>), otherwise only the last two "
            "levels of a.b.c.Enum survive", q.loc if q else ns.module.rel)
    vat = m["visit_Attribute"]
    pmv = parent_map(vat.node)
    calls = [c for c in ast.walk(vat.node) if isinstance(c, ast.Call) and call_name(c) == "value_as_cpp"]
    ok = len(calls) == 1 and src(calls[0].args[0]) == "node.attr"
    if ok:
        holder = src(calls[0].func.value)          # <enum info>.value_as_cpp(node.attr) must stand under `node.attr in <enum info>.values`
        ok = (f"node.attr in {holder}.values", True) in {(src(t), tr_) for t, tr_ in guards(vat.node, calls[0], pmv)}
    col.add("C10.R5", vat.short, "only-declared-values-render", ok, "an enum member is rendered only under `variable in en.values`; anything else falls to the final raise", vat.loc)
    ty = [c for c in ast.walk(vat.node) if isinstance(c, ast.Call) and call_name(c) == "terminal_enum_value"]
    col.add("C10.R5", vat.short, "value-typed-as-enum", len(ty) == 1 and src(resolve_name(vat.node, ty[0].args[0])) == "obj.enum",
            "the value's type must be terminal_enum_value(<the enum the member was looked up in>)", vat.loc)
    de = repo.function("define_enum")
    s = src(de.node)
    # a new enum is built from (name, values, its namespace) and registered in that namespace under its name - whether through a local or directly
    from sa.props._tr import deep as _deep_e
    regs = [n for n in ast.walk(de.node) if isinstance(n, ast.Assign) and len(n.targets) == 1 and src(n.targets[0]) == "ns.enums[enum_name]"]
    want_e = src(_deep_e(de.node, ast.parse("ENumInfo(enum_name, enum_values, ns)", mode="eval").body))
    ok_e = len(regs) == 1 and src(_deep_e(de.node, regs[0].value)) == want_e and "define_ns(ns_name)" in want_e
    col.add("C10.R5", de.short, "enum-registered-with-its-values-and-namespace", ok_e, "", de.loc)

    dn = repo.function("define_ns")
    rets = [r for r in walk_no_nested(dn.node) if isinstance(r, ast.Return)]
    cur = rets[0].value.id if len(rets) == 1 and isinstance(rets[0].value, ast.Name) else None
    lps = [n for n in dn.node.body if isinstance(n, ast.For)]

    def must_assign(stmts, name):
        for st in stmts:
            if isinstance(st, ast.Assign) and any(isinstance(t, ast.Name) and t.id == name for t in st.targets):
                return True
            if isinstance(st, ast.If) and must_assign(st.body, name) and must_assign(st.orelse, name):
                return True
        return False
    if cur is None or len(lps) != 1:
        col.defer("define_ns is not `look up the first component, loop over the rest, return the cursor`: C10.R5 walks-every-component cannot be decided on this shape")
    else:
        lp = lps[0]
        from sa.props._tr import deep as _deep
        it_ = _deep(dn.node, lp.iter)             # the iterable in terms of the function's input, whatever locals name the pieces
        all_rest = isinstance(it_, ast.Subscript) and src(it_.slice) == "1:" and src(it_.value).replace('"', "'").endswith(".split('.')")
        descends = must_assign(lp.body, cur)
        created = [c for c in ast.walk(lp) if isinstance(c, ast.Call) and call_name(c) == "NameSpaceInfo"]
        # the node the child hangs under: the cursor as it stood at the start of the iteration - `cur` itself, or a local that took its value
        # in the first statement of the loop body (parent = cur; cur = parent.get_ns(name) ...)
        parents = {cur}
        if lp.body and isinstance(lp.body[0], ast.Assign) and len(lp.body[0].targets) == 1 and isinstance(lp.body[0].targets[0], ast.Name) \
                and src(lp.body[0].value) == cur:
            parents = {lp.body[0].targets[0].id}       # from here on `cur` is re-bound: only the saved name denotes the parent
        linked = len(created) == 1 and len(created[0].args) == 2 and src(created[0].args[0]) == src(lp.target) and src(created[0].args[1]) in parents and \
            any(isinstance(n, ast.Assign) and isinstance(n.targets[0], ast.Subscript) and any(src(n.targets[0].value).startswith(f"{p_}.") for p_ in parents)
                and src(n.targets[0].slice) == src(lp.target) for n in ast.walk(lp))
        col.add("C10.R5", dn.short, "walks-every-component", all_rest and descends and linked,
                f"a.b.c must be resolved one component at a time: loop over every remaining component ({all_rest}), move the cursor into the child on EVERY "
                f"iteration - found or created ({descends}), create a missing child under the cursor and register it there ({linked}); a cursor that only "
                "moves when it creates puts the second enum of an existing nested namespace into the outer one", dn.loc)
    # ------------------------------------------------------------ R6 indirection synthesis
    col.floor("C10.R6", 6)
    ba = repo.function("base_type_member_access")
    pmb = parent_map(ba.node)
    wraps = [n for n in walk_no_nested(ba.node) if isinstance(n, ast.Assign) and isinstance(n.value, ast.JoinedStr) and "(*" in src(n.value)]
    ok = len(wraps) == 1
    if ok:
        lps = enclosing(ba.node, wraps[0], (ast.For, ast.While), pmb)
        from sa.props._tr import range_count
        ok = len(lps) == 1 and isinstance(lps[0], ast.For) and range_count(lps[0].iter) == ("depth", -1) and not guards(lps[0], wraps[0], pmb)
        sh = shape(parts(ba.node, wraps[0].value))
        ok = ok and sh == ["(*", "{" + src(wraps[0].targets[0]) + "}", ")"]
    col.add("C10.R6", ba.short, "one-(*x)-per-extra-indirection", ok,
            "the (*x) wrapping must happen in a loop that runs depth - 1 times (`for _ in range(1, depth)`): an `if depth > 1` wraps once and is wrong for depth >= 3", ba.loc)
    dd = defs_of(ba.node, "depth")
    ok = len(dd) == 1 and src(dd[0]).replace(" ", "") in ("extra_deref+v.cpp_type().p_depth", "v.cpp_type().p_depth+extra_deref")
    col.add("C10.R6", ba.short, "depth=declared-pointer-depth+extra-deref", ok, f"depth = {[src(d) for d in dd]}", ba.loc)
    # what is returned on each path, locals substituted (a local for the accessor, two returns, a conditional expression read the same):
    # <wrapped value> + "->" exactly on the paths where depth > 0, <wrapped value> + "." on the others.  (loop not unrolled: 0 iterations)
    from sa.core.paths import substituted_paths, canon_atom
    ok = True
    seen_kinds = set()
    for items in substituted_paths(ba.node, unroll=0):
        rv = [v for k, v, *_ in items if k == "return"]
        conds = set()
        for k, t, *r_ in items:
            if k == "cond":
                a_, pol = canon_atom(t)
                conds.add((a_, r_[0] == pol))
        if len(rv) != 1 or rv[0] is None:
            ok = False
            continue
        last = shape(parts(ba.node, rv[0]))[-1:]
        dtexts = {"depth"} | {src(d) for d in dd}
        pos = any((f"0 < {d_}", True) in conds for d_ in dtexts)
        neg = any((f"0 < {d_}", False) in conds for d_ in dtexts)
        if last == ["->"] and pos:
            seen_kinds.add("->")
        elif last == ["."] and neg:
            seen_kinds.add(".")
        else:
            ok = False
    ok = ok and seen_kinds == {"->", "."}
    col.add("C10.R6", ba.short, "arrow-iff-any-indirection", ok, "`->` when depth > 0, `.` otherwise", ba.loc)
    check_parse_type(col, "C10.R6", repo)
    dv = repo.function("dereference_var")
    pmd_ = parent_map(dv.node)
    prm_ = dv.node.args.args[0].arg
    # the copy gets "*" + its expression and the type one level lower, but only for pointers; a non-pointer is handed back as it is
    star = [n for n in walk_no_nested(dv.node) if isinstance(n, ast.Assign) and src(n.targets[0]).endswith("._expression")
            and shape(parts(dv.node, n.value))[:1] == ["*"] and src(n.targets[0]) in src(n.value)]
    lower = [n for n in walk_no_nested(dv.node) if isinstance(n, ast.Assign) and src(n.targets[0]).endswith("._cpp_type")
             and isinstance(n.value, ast.Call) and call_name(n.value) == "get_dereferenced_type"]
    is_ptr = lambda n, want: any(src(t) == f"{prm_}.cpp_type().is_a_pointer" and tr_ is want for t, tr_ in guards(dv.node, n, pmd_))
    asis = [r for r in walk_no_nested(dv.node) if isinstance(r, ast.Return) and src(r.value) == prm_]
    ok = len(star) == 1 and len(lower) == 1 and is_ptr(star[0], True) and is_ptr(lower[0], True) and len(asis) == 1 and is_ptr(asis[0], False)
    col.add("C10.R6", dv.short, "star-prefix-and-one-level-less", ok,
            "a pointer-typed value is copied, its expression prefixed with '*' and its type lowered by one level; anything else is returned unchanged", dv.loc)
    gd = repo.find_class("terminal").methods["get_dereferenced_type"]
    s = src(gd.node)
    col.add("C10.R6", "terminal.get_dereferenced_type", "depth-lowered-by-one-on-a-copy", "new_t._p_depth -= 1" in s and "copy.copy(self)" in s and "raise" in s, "", gd.loc)

    from sa.props._tr import check_default_types_not_reapplied
    check_default_types_not_reapplied(col, "C10.R3", repo)
    # ------------------------------------------------------------ R7 tree type (shared with C03)
    from sa.props._tr import import_obligations
    import_obligations(col, "C10.R8", "c07", lambda o: o.rule == "C07.R4",
                       "declarations of a query that was refused (or transformed and never written) must not stay in the type tables: an undeclared "
                       "method of a later query would silently take the earlier query's type instead of the warned-about double")
    import_obligations(col, "C10.R8", "c07", lambda o: o.rule == "C07.R5" and ("store-into" in o.detail or "merge-into" in o.detail or o.detail == "registries-not-imported-by-value"),
                       "a declared type that is written into a table shared with the built-in defaults is honoured for the wrong queries")
    from sa.props.c03 import check_tree_type
    check_tree_type(col, "C10.R7", repo)


def check_default_vector_type(col: Collector, rule: str, repo: Repo):
    """collection(element) without an explicit array type is std::vector<FULL element type> - const and pointer stars included."""
    ci = repo.find_class("collection").methods["__init__"]
    pmc = parent_map(ci.node)
    calls = [c for c in ast.walk(ci.node) if isinstance(c, ast.Call) and src(c.func) == "super().__init__" and c.args and isinstance(c.args[0], ast.JoinedStr)]
    ok = len(calls) == 1
    if ok:
        sh = shape(parts(ci.node, calls[0].args[0]))
        ok = sh == ["std::vector<", "{element_type}", ">"] and any(tr_ and src(t) == "array_type is None" for t, tr_ in guards(ci.node, calls[0], pmc))
    col.add(rule, "collection.__init__", "default-array-type-is-vector-of-the-full-element-type", ok,
            "without an explicit array type the collection must be std::vector<{element_type}> using the element's full text (const, pointer stars); "
            "`.type` alone declares vector<T> for elements that are `const T*`", ci.loc)
    ts = repo.find_class("terminal").methods["__str__"]
    rets = [r for r in walk_no_nested(ts.node) if isinstance(r, ast.Return)]
    ok = len(rets) == 1
    if ok:
        sh = shape(parts(ts.node, rets[0].value))
        ok = len(sh) == 3 and sh[1] == "{self.type}" and "'*' * self._p_depth" in sh[2].replace('"', "'") and "const " in src(ts.node)
    col.add(rule, "terminal.__str__", "type-text-carries-const-and-pointer-depth", ok, "str(terminal) must render [const ]<type><one * per pointer level>", ts.loc)


def check_parse_type(col: Collector, rule: str, repo: Repo):
    """parse_type(text) -> (name, pointer depth, const): one '*' per loop iteration taken from the END of the text only, the
    `const ` prefix removed as a prefix (exactly its length), the three facts returned in the record's field order."""
    pt = repo.function("parse_type")
    fn = pt.node
    pm = parent_map(fn)
    prm = fn.args.args[0].arg
    q = lambda n: src(n).replace('"', "'").replace(" ", "")
    # ---- pointer depth
    loops = [n for n in walk_no_nested(fn) if isinstance(n, (ast.While, ast.For))]
    incs, cuts = [], []
    for lp in loops:
        for n in ast.walk(lp):
            if isinstance(n, ast.AugAssign) and isinstance(n.op, ast.Add) and q(n.value) == "1" and isinstance(n.target, ast.Name):
                g = [q(t) for t, tr_ in guards(fn, n, pm) if tr_] + ([q(lp.test)] if isinstance(lp, ast.While) else [])
                if any(x.endswith(".endswith('*')") for x in g):
                    incs.append(n)
            cutv = n.value if isinstance(n, ast.Assign) else None
            while isinstance(cutv, ast.Call) and call_name(cutv) in ("strip", "rstrip") and not cutv.args and isinstance(cutv.func, ast.Attribute):
                cutv = cutv.func.value            # trimming blanks around the cut changes no star
            if isinstance(n, ast.Assign) and isinstance(cutv, ast.Subscript) and q(cutv.slice) in (":-1", ":-len('*')") \
                    and src(n.targets[0]) == src(cutv.value):
                cuts.append(n)
            if isinstance(n, ast.Assign) and isinstance(n.value, ast.Call) and call_name(n.value) == "removesuffix" and q(n.value.args[0]) == "'*'":
                cuts.append(n)
    counts = [c for c in ast.walk(fn) if isinstance(c, ast.Call) and call_name(c) in ("count", "find", "index", "rfind", "split", "rsplit", "partition", "rpartition")
              and c.args and "*" in (const_str(c.args[0]) or "")]
    ok = len(loops) == 1 and len(incs) == 1 and len(cuts) == 1 and not counts
    whole = [c for c in counts if isinstance(c.func.value, ast.Name) or (isinstance(c.func.value, ast.Call) and call_name(c.func.value) in ("strip", "rstrip", "lstrip"))]
    if not ok and not whole:
        col.defer("parse_type: the pointer-depth computation is neither the strip-one-trailing-star loop nor a search for '*' in the whole text "
                  "(unrecognised refactoring): C10.R6 every-trailing-star-counted cannot be decided on this shape")
        ok = True
    col.add(rule, pt.short, "every-trailing-star-counted", ok,
            "pointer depth must be counted in one loop that, while the text ends with '*', adds one and cuts exactly that last character: only TRAILING "
            f"stars are indirections of the declared type (a '*' inside template arguments is not); loops={len(loops)}, +1 under endswith('*')={len(incs)}, "
            f"cuts={len(cuts)}, searches for '*' anywhere={[src(c) for c in counts]}", pt.loc)
    # ---- const prefix
    starts = [c for c in ast.walk(fn) if isinstance(c, ast.Call) and call_name(c) == "startswith" and c.args and const_str(c.args[0]) is not None]
    pre = const_str(starts[0].args[0]) if len(starts) == 1 else None
    removed, flag_true = [], []
    if pre is not None:
        def is_guard(t):
            if t is starts[0]:
                return True
            if isinstance(t, ast.Name):
                d = defs_of(fn, t.id)
                return len(d) == 1 and d[0] is starts[0]
            return False
        for n in walk_no_nested(fn):
            if not isinstance(n, ast.Assign):
                continue
            under = any(tr_ and is_guard(t) for t, tr_ in guards(fn, n, pm))
            v = n.value
            if under and isinstance(v, ast.Subscript) and isinstance(v.slice, ast.Slice) and v.slice.upper is None and v.slice.step is None \
                    and src(n.targets[0]) == src(v.value) and q(v.slice.lower) in (str(len(pre)), f"len('{pre}')".replace(" ", "")):
                removed.append(n)
            if under and isinstance(v, ast.Call) and call_name(v) == "removeprefix" and const_str(v.args[0]) == pre and src(v.func.value) == src(n.targets[0]):
                removed.append(n)
    col.add(rule, pt.short, "const-prefix-removed-as-a-prefix", pre == "const " and len(removed) == 1,
            f"under startswith({pre!r}) the text must lose exactly that prefix ([{len(pre) if pre else '?'}:] or removeprefix): a character-set strip or a replace "
            f"also eats the first letters of the type name (`const char*` -> `har*`) or later occurrences (found {[src(n) for n in removed]})", pt.loc)
    strips = [c for c in ast.walk(fn) if isinstance(c, ast.Call) and call_name(c) in ("strip", "lstrip", "rstrip") and c.args]
    bad = [src(c) for c in strips if const_str(c.args[0]) is not None and len({ch for ch in const_str(c.args[0]) if ch.isalnum()}) >= 2]
    col.add(rule, pt.short, "no-word-given-to-a-character-set-strip", not bad,
            f"str.strip/lstrip/rstrip take a SET of characters, not a prefix or suffix: {bad}", pt.loc)
    # ---- the record
    rets = [r for r in walk_no_nested(fn) if isinstance(r, ast.Return)]
    ok = len(rets) == 1 and isinstance(rets[0].value, ast.Call) and call_name(rets[0].value) == "CPPParsedTypeInfo"
    if ok:
        c = rets[0].value
        rec = repo.find_class("CPPParsedTypeInfo")
        fields = [st.target.id for st in rec.node.body if isinstance(st, ast.AnnAssign) and isinstance(st.target, ast.Name)]
        got = {}
        for i, a in enumerate(c.args):
            if i < len(fields):
                got[fields[i]] = a
        for k in c.keywords:
            got[k.arg] = k.value
        name_ok = isinstance(got.get("name"), ast.Name) and got["name"].id == prm
        depth_ok = isinstance(got.get("pointer_depth"), ast.Name) and incs and got["pointer_depth"].id == incs[0].target.id
        cv = got.get("is_const")
        const_ok = cv is not None and (isinstance(cv, ast.Name) and (any(d is starts[0] for d in defs_of(fn, cv.id)) if starts else False)
                                       or isinstance(cv, ast.Name) and {q(d) for d in defs_of(fn, cv.id)} == {"True", "False"}
                                       or (starts and cv is starts[0]))
        if isinstance(cv, ast.Name) and {q(d) for d in defs_of(fn, cv.id)} == {"True", "False"}:
            # True exactly under the prefix guard
            for n in walk_no_nested(fn):
                if isinstance(n, ast.Assign) and src(n.targets[0]) == cv.id:
                    g = [(t, tr_) for t, tr_ in guards(fn, n, pm) if starts and (t is starts[0])]
                    if not g or g[0][1] != (q(n.value) == "True"):
                        const_ok = False
        ok = name_ok and bool(depth_ok) and bool(const_ok)
    col.add(rule, pt.short, "record=(name-left-over, stars-counted, had-const-prefix)", ok,
            f"parse_type must return CPPParsedTypeInfo(name=<the text left>, pointer_depth=<the counter>, is_const=<the prefix test>) "
            f"(found {src(rets[0].value) if rets else None})", pt.loc)


def _single(fn, name):
    d = defs_of(fn, name)
    return d[0] if len(d) == 1 else None
