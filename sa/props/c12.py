"""C12 - every documented math function is accepted and is its namesake.

Decides (static): the python-name -> C++-name table against README and against
the language-level namesake oracle, header / type columns, kind agreement of the
return-type value between its producers and its consumer, and the emission
handler.  Not decided: numerical equality.
"""
from __future__ import annotations

import ast

from sa.core.common import AnalysisError, Collector
from sa.core.pyfacts import Repo, arg, call_name, const_str, src, walk_no_nested
from sa.core.readme_tables import Readme

EXPLANATION = (
    "Static table/dataflow check of func_adl_xAOD/common/cpp_functions.py, the emission handler "
    "query_ast_visitor.visit_function_ast and README's Math list: R1 README list subset of table keys; "
    "R2 each row maps to std::<python name> except a frozen alias table; R3 header cmath and a return type "
    "the arithmetic typing knows, declared double; R4 kind agreement (str vs terminal) of the return-type "
    "value between every producer (add_function_mapping rows, FunctionAST constructor sites) and the consumer; "
    "R5 the handler forwards every include and renders name(args...) from every argument; R6 the name "
    "resolver visits children first, keeps the call's arguments and forwards table fields to same-named slots."
)
ASSUMPTIONS = [
    "the C++ standard library function std::<name> computes the function of that name",
    "python names in the table are the names users write (README says so)",
]

# python name -> C++ name where the namesake rule does not apply, one reason each
ALIASES = {
    "ln": "std::log",            # natural log has no std::ln
    "abs": "std::fabs",          # math-style abs on reals
    "builtins.abs": "std::abs",  # python builtin abs
    "builtins.pow": "std::pow",  # python builtin pow (2-arg form)
    "builtins.round": "std::round",  # README documents cmath's round; python resolves the name to the builtin
}


def rows(repo: Repo):
    m = repo.mod("common.cpp_functions")
    out = []
    for n in m.tree.body:
        if isinstance(n, ast.Expr) and isinstance(n.value, ast.Call) and call_name(n.value) == "add_function_mapping":
            c = n.value
            vals = [arg(c, 0, "python_name"), arg(c, 1, "cpp_name"), arg(c, 2, "include_files"), arg(c, 3, "return_type")]
            out.append((c, vals))
    return m, out


def check(col: Collector, tier: str):
    repo = Repo()
    doc = Readme()
    m, table = rows(repo)
    col.info["table_rows"] = len(table)
    if not table:
        raise AnalysisError("no add_function_mapping rows found in common/cpp_functions.py")
    col.floor("C12.R2", 40)
    keys = {}
    for c, (py, cpp, inc, rt) in table:
        pyn, cppn = const_str(py), const_str(cpp)
        loc = f"{m.rel}:{c.lineno}"
        if pyn is None or cppn is None:
            col.add("C12.R2", "cpp_functions.table", f"row@{src(py)}", False,
                    "row is not built from string literals; cannot be decided statically", loc)
            continue
        dup = pyn in keys
        keys[pyn] = cppn
        # R2 namesake
        base = pyn.split(".")[-1]
        want = ALIASES.get(pyn, f"std::{base}")
        col.add("C12.R2", "cpp_functions.table", f"row:{pyn}", cppn == want and not dup,
                f"python '{pyn}' maps to '{cppn}', namesake oracle says '{want}'" + (" (duplicate row)" if dup else ""), loc)
        # R3 header + type
        incs = [const_str(e) for e in inc.elts] if isinstance(inc, (ast.List, ast.Tuple)) else [const_str(inc)]
        col.add("C12.R3", "cpp_functions.table", f"header:{pyn}", "cmath" in incs,
                f"include list {incs} must contain cmath", loc)
        col.add("C12.R3", "cpp_functions.table", f"type:{pyn}", const_str(rt) == "double",
                f"declared return type {src(rt)}; cmath functions return double (an int/float declaration truncates)", loc)

    # R1 coverage of README
    documented = doc.math_functions()
    col.info["readme_math_names"] = len(documented)
    col.floor("C12.R1", 40)
    for name in documented:
        col.add("C12.R1", "README.Math", f"documented:{name}", name in keys,
                f"README lists `{name}` but the function table has no row for it", "README.md")
    for b in ("builtins.abs", "builtins.pow"):
        col.add("C12.R1", "README.Math", f"builtin:{b}", b in keys, f"built-in {b} has no table row", m.rel)

    # R3b: the type is known to the arithmetic typing
    um = repo.mod("common.utils")
    prio = None
    for n in um.tree.body:
        tgt = n.targets[0] if isinstance(n, ast.Assign) else getattr(n, "target", None)
        if isinstance(tgt, ast.Name) and tgt.id == "_type_priority" and isinstance(n.value, ast.Dict):
            prio = [const_str(k) for k in n.value.keys]
    if prio is None:
        raise AnalysisError("_type_priority table not found in common/utils.py")
    col.add("C12.R3", "utils._type_priority", "knows:double", "double" in prio,
            f"arithmetic typing table {prio} must know 'double', the type of every math function", um.rel)

    # R7 name resolution: the resolver eval()s the bare name in cpp_functions' module namespace and
    # prefixes the defining module, so a documented name that is also a python builtin needs a
    # 'builtins.<name>' row, and no module-level binding may shadow a documented name.
    import builtins as _b
    mod_bindings = set()
    for n in m.tree.body:
        for t in ast.walk(n) if isinstance(n, (ast.Assign, ast.AnnAssign, ast.Import, ast.ImportFrom, ast.FunctionDef, ast.ClassDef)) else []:
            if isinstance(t, ast.Name) and isinstance(t.ctx, ast.Store):
                mod_bindings.add(t.id)
            elif isinstance(t, ast.alias):
                mod_bindings.add((t.asname or t.name).split(".")[0])
        if isinstance(n, (ast.FunctionDef, ast.ClassDef)):
            mod_bindings.add(n.name)
    col.floor("C12.R7", 40)
    for name in documented:
        if name in mod_bindings:
            col.add("C12.R7", "find_known_functions.visit_Call", f"resolves:{name}", False,
                    f"module-level name `{name}` in cpp_functions.py shadows the math function: eval('{name}') no longer yields "
                    "an unbound name, so the table key is never formed", m.rel)
        elif hasattr(_b, name):
            col.add("C12.R7", "find_known_functions.visit_Call", f"resolves:{name}", f"builtins.{name}" in keys,
                    f"`{name}` is a python builtin: the resolver looks up 'builtins.{name}', which has no table row "
                    f"(the call is left untranslated and refused later)", m.rel)
        else:
            col.add("C12.R7", "find_known_functions.visit_Call", f"resolves:{name}", name in keys,
                    f"`{name}` resolves to the bare key, which has no row", m.rel)

    # R8 the header requested by add_include reaches the package on every backend: the include list handed to the
    # templates is the translator's list plus the injected body includes, unfiltered
    wf = repo.method("executor", "write_cpp_files", hint="common.executor")
    inc = None
    for st in walk_no_nested(wf.node):
        if isinstance(st, ast.Assign) and isinstance(st.targets[0], ast.Subscript) and const_str(st.targets[0].slice) == "body_include_files":
            inc = st.value
    v = inc
    depth = 0
    while isinstance(v, ast.Name) and depth < 4:
        ds = [st.value for st in walk_no_nested(wf.node) if isinstance(st, ast.Assign) and isinstance(st.targets[0], ast.Name) and st.targets[0].id == v.id]
        v = ds[0] if len(ds) == 1 else None
        depth += 1
    ok = isinstance(v, ast.BinOp) and isinstance(v.op, ast.Add) and src(v.left) == "qv.include_files()"
    from sa.props._tr import import_obligations as _imp12
    _imp12(col, "C12.R8", "c06", lambda o: o.detail == "appended-once-under-not-in" and o.construct.endswith("add_include"),
           "cmath requested by a math function must be kept whatever was requested before it (math.h does not declare std::sqrt)")
    col.add("C12.R8", wf.short, "requested-headers-reach-the-templates-unfiltered", ok,
            f"info['body_include_files'] must be qv.include_files() + <injected includes> (found {src(v) if v is not None else None}): filtering it "
            "(e.g. against the header includes, which the single-file CMS templates never render) drops <cmath>", wf.loc)
    from sa.core import jinja_facts as J
    for rel, t in J.load_all().items():
        if rel.endswith(("query.cxx", "Analyzer.cc")):
            slots = [s_ for s_ in t.slots if s_.var == "body_include_files"]
            ok = len(slots) == 1 and slots[0].body_text.strip() == '#include "{{' + slots[0].target + '}}"' and not slots[0].loop_filters
            col.add("C12.R8", f"template:{rel.split('template/')[-1]}", "renders-every-requested-header", ok,
                    "the source template must emit #include \"<file>\" for every entry of body_include_files", rel)

    # R4 kind agreement producer/consumer of cpp_return_type
    check_kinds(col, repo)
    # R5 emission handler
    check_emission(col, repo)
    # R6 resolver
    check_resolver(col, repo)
    check_backends_alike(col, repo)


def _kind_of(repo: Repo, mod, fn_node, e: ast.AST) -> str:
    """'str' | 'terminal' | 'unknown' for an expression given as return-type value."""
    if isinstance(e, ast.Constant) and isinstance(e.value, str):
        return "str"
    if isinstance(e, ast.Call) and call_name(e) in ("terminal", "collection"):
        return "terminal"
    if isinstance(e, ast.Call) and call_name(e) == "parse_type":
        return "str"  # CPPParsedTypeInfo is accepted by terminal() like a str
    return "unknown"


def check_kinds(col: Collector, repo: Repo):
    fm = repo.mod("common.cpp_functions")
    afm = fm.funcs.get("add_function_mapping")
    if afm is None:
        raise AnalysisError("add_function_mapping not found")
    # what does add_function_mapping store in the cpp_return_type slot?
    stored = None
    for c in ast.walk(afm.node):
        if isinstance(c, ast.Call) and call_name(c) == "cpp_function":
            stored = arg(c, 2, "cpp_return_type")
    if stored is None:
        raise AnalysisError("add_function_mapping does not build a cpp_function record")
    params = [a.arg for a in afm.node.args.args]
    if isinstance(stored, ast.Name) and stored.id in params:
        table_kind = "str"   # call sites pass string literals (checked by R3)
    else:
        table_kind = _kind_of(repo, fm, afm.node, stored)
    # producers: every FunctionAST(...) construction in the repo
    producers = []
    for f in repo.all_functions():
        for c in walk_no_nested(f.node):
            if isinstance(c, ast.Call) and call_name(c) == "FunctionAST":
                a = arg(c, 2, "cpp_return_type")
                if a is None:
                    continue
                if isinstance(a, ast.Attribute) and a.attr == "cpp_return_type":
                    k = table_kind
                else:
                    k = _kind_of(repo, f.module, f.node, a)
                producers.append((f, c, k))
    if len(producers) < 2:
        raise AnalysisError("expected at least two FunctionAST construction sites (table resolver and Range)")
    # consumer
    vfa = repo.method("query_ast_visitor", "visit_function_ast")
    expects = None
    for n in ast.walk(vfa.node):
        if isinstance(n, ast.Attribute) and n.attr == "cpp_return_type":
            # is it wrapped by terminal(...)?
            wrapped = False
            for c in ast.walk(vfa.node):
                if isinstance(c, ast.Call) and call_name(c) == "terminal" and any(x is n for a in c.args for x in ast.walk(a)):
                    wrapped = True
            expects = "str" if wrapped else "terminal"
    if expects is None:
        raise AnalysisError("visit_function_ast does not read cpp_return_type")
    col.floor("C12.R4", 2)
    for f, c, k in producers:
        col.add("C12.R4", f.short, f"FunctionAST-return-type-kind@{f.name}", k == expects,
                f"producer passes a {k} as return type, consumer visit_function_ast "
                f"{'wraps it in terminal(...) and so needs a str' if expects == 'str' else 'uses it as a type object'}"
                " (a terminal wrapped twice breaks arithmetic on the result)", f"{f.module.rel}:{c.lineno}")


def check_emission(col: Collector, repo: Repo):
    f = repo.method("query_ast_visitor", "visit_function_ast")
    n = f.node
    # every include forwarded: a for loop over <x>.include_files whose body calls add_include(loopvar)
    ok_inc = False
    for st in ast.walk(n):
        if isinstance(st, ast.For) and isinstance(st.iter, ast.Attribute) and st.iter.attr == "include_files" \
                and isinstance(st.target, ast.Name):
            for c in ast.walk(st):
                if isinstance(c, ast.Call) and call_name(c) == "add_include" and c.args and src(c.args[0]) == st.target.id:
                    from sa.core.paths import guards as _guards, parent_map as _pm
                    conds = [src(t)[:60] for t, _ in _guards(n, c, _pm(n)) if not isinstance(t, ast.Constant)]
                    ok_inc = not conds
                    if conds:
                        col.info["include_forwarding_conditions"] = conds
    col.add("C12.R5", f.short, "forwards-every-include", ok_inc,
            "handler must call add_include for every entry of the function's include_files, unconditionally: each query's generated_code starts without "
            "includes, so `already requested` remembered anywhere else (visitor class, module) drops the header from every later query", f.loc)
    # argument reps from every argument via get_rep_value
    ok_args = False
    arg_var = None
    for st in ast.walk(n):
        if isinstance(st, ast.Assign) and isinstance(st.value, (ast.ListComp, ast.GeneratorExp)):
            comp = st.value
            if len(comp.generators) == 1 and not comp.generators[0].ifs and src(comp.generators[0].iter).endswith(".args") \
                    and isinstance(comp.elt, ast.Call) and call_name(comp.elt) in ("get_rep_value", "get_rep"):
                ok_args = True
                arg_var = st.targets[0].id if isinstance(st.targets[0], ast.Name) else None
    col.add("C12.R5", f.short, "translates-every-argument", ok_args,
            "argument representations must come from get_rep_value over the complete call_node.args", f.loc)
    # the expression template: {cpp_name}( {join of all arg reps} )
    ok_tpl = False
    for js in ast.walk(n):
        if isinstance(js, ast.JoinedStr):
            holes = [v for v in js.values if isinstance(v, ast.FormattedValue)]
            lits = "".join(v.value for v in js.values if isinstance(v, ast.Constant))
            if len(holes) == 2 and src(holes[0].value).endswith(".cpp_name") and lits.replace(" ", "") == "()":
                j = holes[1].value
                if isinstance(j, ast.Call) and call_name(j) == "join" and arg_var and arg_var in src(j):
                    ok_tpl = True
                    _check_argument_text(col, repo, f, j, arg_var)
    col.add("C12.R5", f.short, "renders-name-and-all-args", ok_tpl,
            "C++ expression must be <cpp_name>(<all argument reps joined>)", f.loc)
    # the result type comes from the table's return type and from nothing else
    ok_type = False
    for c in ast.walk(n):
        if isinstance(c, ast.Call) and call_name(c) == "cpp_value":
            t = arg(c, 2, "cpp_type")
            ok_type = t is not None and src(t).replace("ctyp.", "") in (
                "terminal(cpp_func.cpp_return_type)", "cpp_func.cpp_return_type", "terminal(call_node.func.cpp_return_type)")
    col.add("C12.R5", f.short, "result-typed-by-table", ok_type,
            "the value must be typed terminal(<function>.cpp_return_type) unconditionally: a type chosen from the arguments "
            "(e.g. int for integer arguments) stores pow(n, -1) as 0", f.loc)
    # the value is valid at the scope the arguments left the cursor in (they may have opened loops / ifs)
    ok_scope = False
    for c in ast.walk(n):
        if isinstance(c, ast.Call) and call_name(c) == "cpp_value":
            sc = arg(c, 1, "scope")
            ok_scope = sc is not None and src(sc) == "self._gc.current_scope()"
    col.add("C12.R5", f.short, "result-valid-at-the-current-scope", ok_scope,
            "the result must carry self._gc.current_scope() (after all arguments are translated); a scope computed from only some of the arguments "
            "lets the value be used outside the loop a later argument (fma's third) opened", f.loc)
    restrict = [src(x)[:40] for x in ast.walk(n) if isinstance(x, (ast.Raise, ast.Assert))] + \
        [src(x)[:40] for x in ast.walk(n) if isinstance(x, ast.Call) and call_name(x) in ("most_accurate_type", "check_accumulator_type")]
    col.add("C12.R5", f.short, "no-argument-type-restriction", not restrict,
            f"the handler refuses some argument types ({restrict}): documented functions take strings (nan(\"\")) and values of any declared numeric "
            "C++ type; the C++ compiler, not the translator, judges the arguments", f.loc)
    # result is registered on the node
    ok_set = any(isinstance(c, ast.Call) and call_name(c) == "set_rep" for c in ast.walk(n))
    col.add("C12.R5", f.short, "publishes-rep", ok_set, "handler must publish the value with set_rep", f.loc)


def _check_argument_text(col: Collector, repo: Repo, f, join_call, arg_var):
    """each argument's C++ text reaches the call whole: <rep>.as_cpp(), directly or through a helper that returns it uncut"""
    from sa.props._tr import string_surgery
    a = join_call.args[0] if join_call.args else None
    ok, why = False, f"joined expression {src(a)[:80] if a is not None else None}"
    if isinstance(a, (ast.ListComp, ast.GeneratorExp)) and len(a.generators) == 1 and src(a.generators[0].iter) == arg_var and not a.generators[0].ifs:
        lv = src(a.generators[0].target)
        e = a.elt
        if isinstance(e, ast.Call) and call_name(e) == "as_cpp" and isinstance(e.func, ast.Attribute) and src(e.func.value) == lv and not string_surgery(a):
            ok = True
        elif isinstance(e, ast.Call) and [src(x) for x in e.args] == [lv]:
            gs = repo.resolve_call(f, e)
            if len(gs) == 1:
                g = gs[0]
                cut = string_surgery(g.node)
                prm = g.node.args.args[0].arg if g.node.args.args else None
                whole = any(isinstance(c, ast.Call) and call_name(c) == "as_cpp" and src(c.func.value) == prm for c in ast.walk(g.node))
                if cut or not whole:
                    why = f"arguments pass through {g.short}, which cuts or rewrites their text: {cut}" if cut else f"{g.short} does not render <rep>.as_cpp()"
                else:
                    ok = True
            else:
                col.defer(f"visit_function_ast renders its arguments through {src(e.func)}, which cannot be resolved: C12.R5 argument-text rule undecided")
                ok = True
        elif isinstance(e, ast.Name) and e.id == lv:
            ok = False
            why = "the representation object itself is joined, not its C++ text"
    elif isinstance(a, ast.Call) and call_name(a) == "map":
        col.defer("visit_function_ast joins its arguments through map(): C12.R5 argument-text rule undecided on this shape")
        ok = True
    col.add("C12.R5", f.short, "argument-text-passed-whole", ok,
            "every argument must be rendered as the complete text of its representation: brackets that look like an outer pair need not be one "
            f"(`(*p)->pt()` starts with '(' and ends with ')'); {why}", f.loc)


def check_backends_alike(col: Collector, repo: Repo):
    from sa.props._tr import check_backend_visitors_override_only_abstract
    check_backend_visitors_override_only_abstract(col, "C12.R9", repo)


def check_resolver(col: Collector, repo: Repo):
    c = repo.find_class("find_known_functions")
    v = c.methods.get("visit_Call")
    if v is None:
        raise AnalysisError("find_known_functions.visit_Call not found")
    stmts = v.node.body
    # children first
    first_call = None
    for st in stmts:
        if isinstance(st, ast.Expr) and isinstance(st.value, ast.Call):
            first_call = call_name(st.value)
            break
        if isinstance(st, (ast.If, ast.Return, ast.Assign, ast.Try)):
            break
    col.add("C12.R6", "find_known_functions.visit_Call", "children-first", first_call == "generic_visit",
            "nested calls (sin(cos(x))) are only rewritten if generic_visit runs before the match", v.loc)
    # FunctionAST built from same-named fields
    ok = False
    for n in ast.walk(v.node):
        if isinstance(n, ast.Call) and call_name(n) == "FunctionAST":
            names = [a.attr if isinstance(a, ast.Attribute) else None for a in n.args]
            ok = names == ["cpp_name", "include_files", "cpp_return_type"] or (
                not n.args and {k.arg: getattr(k.value, "attr", None) for k in n.keywords}
                == {"cpp_name": "cpp_name", "include_files": "include_files", "cpp_return_type": "cpp_return_type"})
    col.add("C12.R6", "find_known_functions.visit_Call", "fields-forwarded-to-same-slots", ok,
            "FunctionAST(cpp_name, include_files, cpp_return_type) must receive the table record's same-named fields", v.loc)
    fa = repo.find_class("FunctionAST").methods.get("__init__")
    if fa is None:
        raise AnalysisError("FunctionAST.__init__ not found")
    params = [a.arg for a in fa.node.args.args][1:4]
    col.add("C12.R6", "FunctionAST.__init__", "parameter-order", params == ["cpp_name", "include_files", "cpp_return_type"],
            f"constructor parameters are {params}", fa.loc)
    stores = {}
    for n in ast.walk(fa.node):
        if isinstance(n, ast.Assign) and isinstance(n.targets[0], ast.Attribute):
            stores[n.targets[0].attr] = src(n.value)
    for p in ("cpp_name", "include_files", "cpp_return_type"):
        col.add("C12.R6", "FunctionAST.__init__", f"stores:{p}", stores.get(p) == p,
                f"self.{p} is assigned from {stores.get(p)!r}", fa.loc)
    # table record: cpp_function(cpp_name, <includes>, <type>) inside add_function_mapping, key = python_name
    afm = repo.function("add_function_mapping")
    okk = False
    for n in ast.walk(afm.node):
        if isinstance(n, ast.Assign) and isinstance(n.targets[0], ast.Subscript) and isinstance(n.value, ast.Call) \
                and call_name(n.value) == "cpp_function":
            key_ok = src(n.targets[0].slice) == "python_name"
            a0 = arg(n.value, 0, "cpp_name")
            okk = key_ok and src(a0) == "cpp_name"
    col.add("C12.R6", "add_function_mapping", "keyed-by-python-name-valued-by-cpp-name", okk,
            "the record must be stored under python_name with cpp_name in the cpp_name slot", afm.loc)
    # namedtuple field order
    fm = repo.mod("common.cpp_functions")
    fields = None
    for n in fm.tree.body:
        if isinstance(n, ast.Assign) and isinstance(n.value, ast.Call) and call_name(n.value) == "namedtuple" \
                and src(n.targets[0]) == "cpp_function":
            a = n.value.args[1]
            fields = [const_str(e) for e in a.elts] if isinstance(a, (ast.List, ast.Tuple)) else (const_str(a) or "").split()
    col.add("C12.R6", "cpp_functions.cpp_function", "field-order", fields == ["cpp_name", "include_files", "cpp_return_type"],
            f"record fields are {fields}", fm.rel)
    # lookup is by membership with the unknown branch returning the node untouched (left to the loud gate)
    has_membership = any(isinstance(n, ast.Compare) and isinstance(n.ops[0], (ast.NotIn, ast.In)) and "functions_to_replace" in src(n)
                         for n in ast.walk(v.node))
    uses_get = any(isinstance(n, ast.Call) and call_name(n) == "get" and "functions_to_replace" in src(n.func)
                   for n in ast.walk(v.node))
    col.add("C12.R6", "find_known_functions.visit_Call", "lookup-not-defaulted", has_membership and not uses_get,
            "table lookup must be a membership test + subscript, never .get(name, default)", v.loc)
    # a documented function is always handed to C++: the pass returns the call node it was given (never a value computed at translation
    # time - Python's round/pow/abs and C++'s namesakes differ), and the Python object found by name is used for its module name only
    prm = v.node.args.args[1].arg
    rets = [r for r in walk_no_nested(v.node) if isinstance(r, ast.Return)]
    same = bool(rets) and all(isinstance(r.value, ast.Name) and r.value.id == prm for r in rets)
    evald = [n.targets[0].id for n in walk_no_nested(v.node) if isinstance(n, ast.Assign) and isinstance(n.value, ast.Call)
             and call_name(n.value) in ("eval", "getattr") and isinstance(n.targets[0], ast.Name)]
    used = [src(c)[:50] for c in ast.walk(v.node) if isinstance(c, ast.Call) and (
        (isinstance(c.func, ast.Name) and c.func.id in evald) or any(isinstance(a, ast.Name) and a.id in evald for a in c.args))]
    col.add("C12.R6", "find_known_functions.visit_Call", "known-call-is-left-to-C++", same and not used,
            f"every return must hand back the call node itself (found {[src(r.value)[:30] if r.value is not None else None for r in rets]}) and the "
            f"Python function object must not be called or passed on (uses: {used}): folding round(2.5) with Python gives 2.0 where std::round gives 3", v.loc)
