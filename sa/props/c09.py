"""C09 - unsupported or malformed queries are refused, never half-translated.

Decided: the representation gate, loud table lookups, guarded partial consumption
of list-valued AST fields, coverage of the fields of every handled node type,
explicit refusals staying refusals, metadata key tables, operand type checks.
"""
from __future__ import annotations

import ast
import re

from sa.core.common import AnalysisError, Collector
from sa.core.paths import enclosing, enumerate_paths, guards, len_constraint, parent_map
from sa.core.pyfacts import Repo, arg, call_name, const_str, kwarg, src, walk_no_nested
from sa.core.readme_tables import Readme
from sa.props._tr import defs_of, visitor_methods

EXPLANATION = (
    "R1 the gate: get_rep raises when a visited node has no representation, and presence tests on `rep` (hasattr / getattr "
    "with default / except AttributeError) occur only in a frozen set of functions whose absent branch raises or asserts (the "
    "rep cache excepted); visit_Name publishes a representation only for a resolved name; R2 operator / type / function tables "
    "are read by subscript or behind a membership test whose failing branch raises or delegates to a raising handler - never "
    ".get(key, default); R3 every constant-index read of a list-valued AST field and every zip over query-derived lists is "
    "dominated (along every enumerated path, or at every call site of a private helper) by a length test that raises or "
    "asserts; R4 every field of every ast node class that has a handler is read by that handler (or its callees) or is on a "
    "two-entry allow-list; R5 a frozen table of explicit refusals (unimplemented Aggregate forms, chained comparisons, unknown "
    "operators, non-sequence sources, raw-object columns, templated getAttribute, unknown metadata, ...) still end in a raise; "
    "R6 for every metadata type: documented keys are read, required keys are subscripted; R8 arithmetic validates operand "
    "types; R9 the column/label count check dominates the column zips; R10 plug-in callbacks (incl. the getAttribute refusal stub) are looked up in a per-query copy of the table."
)
ASSUMPTIONS = [
    "ast.<Class>._fields of the Python running the checker (3.12) lists the fields a query AST can carry",
    "FuncADLNodeVisitor.visit_Call dispatches Name callees to call_<name> handlers with node.args and returns None for unknown names",
]

LIST_FIELDS = ("args", "ops", "comparators", "values", "elts", "keys", "keywords", "generators")
FIELD_ALLOW = {"ctx": "load/store context carries no query meaning", "kind": "string-literal prefix (u'') carries no meaning",
               "type_comment": "never present in expressions"}


def check(col: Collector, tier: str):
    repo = Repo()
    m = visitor_methods(repo)
    tr = repo.mod("common.ast_to_cpp_translator")
    check_gate(col, repo, m)
    check_tables(col, repo)
    check_partial(col, repo)
    check_fields(col, repo, m)
    check_refusals(col, repo, m)
    check_md_keys(col, repo)
    check_column_type(col, repo)
    check_operand_types(col, repo, m)
    from sa.props.c03 import check_count_guard
    col.floor("C09.R9", 2)
    check_count_guard(col, "C09.R9", repo)
    from sa.props._tr import import_obligations
    import_obligations(col, "C09.R11", "c15", lambda o: o.detail in ("every-copy-merges-its-dependencies", "unknown-dependency-raises-before-emission",
                                                                      "same-name-different-script-raises", "no-progress-raises-ValueError", "collects-every-job-script"),
                       "a dependency that is silently dropped is malformed metadata accepted")
    import_obligations(col, "C09.R12", "c06", lambda o: o.rule == "C06.R5" and (o.detail in ("unknown-key-raises", "allowed-keys-are-a-constant-of-this-backend",
                                                                                             "element_type-iff-contains_collection") or o.detail.startswith("allowed-key-read:")),
                       "malformed or unknown collection metadata must be refused - for every history - and no accepted key may be dropped")
    import_obligations(col, "C09.R12", "c06", lambda o: o.detail in ("new-code-value-for-every-call", "refuses-other-backends"),
                       "the collection call must stay the query's own node (a rebuilt call loses its keywords before the keyword refusal sees them) and a "
                       "declaration for another backend must be refused")
    import_obligations(col, "C09.R12", "c07", lambda o: o.rule == "C07.R5" and ("store-into" in o.detail or "merge-into" in o.detail),
                       "a type declaration that outlives its query (written into the table the defaults are restored from) makes a later query that "
                       "treats a value as a sequence translate where a fresh process refuses it")
    import_obligations(col, "C09.R12", "c04", lambda o: o.rule == "C04.R2" and o.construct.endswith("visit_IfExp"),
                       "both arms of a conditional are translated on every path: an unsupported construct in the arm a literal test does not select "
                       "must still be refused, never dropped")
    import_obligations(col, "C09.R12", "c07", lambda o: o.rule == "C07.R4" and o.detail == "reset-on-exception-exit",
                       "a refusal that leaves its declarations behind turns the next query's refusal into a translation (whatever exception type the "
                       "refusal ends in: KeyError for a missing mandatory key is one of them)")
    import_obligations(col, "C09.R12", "c18", lambda o: o.detail == "bank-name-argument-left-as-the-query-wrote-it",
                       "arguments that are rebuilt are arguments that can be dropped")
    # a name is refused unless it is bound where it is used: a lambda's parameters live in that lambda's frame only
    from sa.props._tr import check_lambda_frames
    check_lambda_frames(col, "C09.R13", repo, m)
    # the refusals must not depend on history: this query's plug-in table is a copy, discovered children first
    from sa.props._tr import check_finder
    col.floor("C09.R10", 4)
    check_finder(col, "C09.R10", repo)
    from sa.props._tr import check_finder_receivers
    check_finder_receivers(col, "C09.R10", repo)


# ---------------------------------------------------------------------- R1
def check_gate(col, repo: Repo, m):
    col.floor("C09.R1", 5)
    gr = m.get("get_rep")
    if gr is None:
        raise AnalysisError("get_rep not found")
    paths = enumerate_paths(gr.node)
    ok = True
    seen = 0
    for p in paths:
        conds = [(src(e.node), e.taken) for e in p.events if e.kind == "cond"]
        for s, t in conds:
            if "hasattr(node, 'rep')" in s.replace('"', "'"):
                seen += 1
                has = t ^ s.strip().startswith("not ")
                if not has and p.status != "raise":
                    ok = False
    col.add("C09.R1", gr.short, "missing-representation-raises", ok and seen >= 2,
            "get_rep must raise when the visited node carries no rep (a node no handler understood)", gr.loc)
    rets = [r for r in walk_no_nested(gr.node) if isinstance(r, ast.Return)]
    col.add("C09.R1", gr.short, "returns-the-node's-rep", len(rets) == 1 and src(rets[0].value) in ("crep.get_rep(node)", "node.rep"), "", gr.loc)
    # presence tests on rep
    allowed = {"visit": "cache", "get_rep": "raise", "visit_Call": "raise", "call_EventDataset": "assert"}
    found = {}
    for f in repo.all_functions():
        for n in walk_no_nested(f.node):
            s = src(n).replace('"', "'") if isinstance(n, ast.Call) else ""
            if isinstance(n, ast.Call) and call_name(n) in ("hasattr", "getattr") and len(n.args) >= 2 and const_str(n.args[1]) == "rep":
                if call_name(n) == "getattr" and len(n.args) < 3:
                    continue
                found.setdefault(f.name, []).append((f, n))
            if isinstance(n, ast.ExceptHandler) and n.type is not None and "AttributeError" in src(n.type) and ".rep" in src(f.node):
                found.setdefault(f.name, []).append((f, n))
    for name, sites in sorted(found.items()):
        f = sites[0][0]
        col.add("C09.R1", f.short, "presence-test-on-rep-only-in-frozen-functions", name in allowed,
                f"`{src(sites[0][1])[:50]}` tests whether a node has a representation; outside {sorted(allowed)} this is how an untranslated "
                "node gets silently skipped (the code's own rule: always go through get_rep)", f"{f.module.rel}:{sites[0][1].lineno}")
    for name, how in allowed.items():
        f = m.get(name)
        if f is None:
            raise AnalysisError(f"{name} not found")
        if how == "raise":
            pm = parent_map(f.node)
            ok = False
            for r in walk_no_nested(f.node):
                if isinstance(r, ast.Raise):
                    for t, tr_ in guards(f.node, r, pm):
                        if "hasattr" in src(t) and "'rep'" in src(t).replace('"', "'"):
                            ok = True
            col.add("C09.R1", f.short, "absent-representation-branch-raises", ok, "the branch in which the node has no rep must raise", f.loc)
        elif how == "assert":
            ok = any(isinstance(a, ast.Assert) and "hasattr" in src(a.test) for a in walk_no_nested(f.node))
            col.add("C09.R1", f.short, "absent-representation-asserted", ok, "", f.loc)
    vn = m.get("visit_Name")
    sets = [c for c in ast.walk(vn.node) if isinstance(c, ast.Call) and call_name(c) == "set_rep"]
    pm = parent_map(vn.node)
    ok = len(sets) == 1 and any(src(t).endswith(" is None") and not tr_ for t, tr_ in guards(vn.node, sets[0], pm))
    col.add("C09.R1", vn.short, "unknown-name-gets-no-representation", ok,
            "visit_Name may publish a representation only under `resolved is not None`; an unknown name must stay without rep so get_rep raises", vn.loc)


# ---------------------------------------------------------------------- R2
def check_tables(col, repo: Repo):
    col.floor("C09.R2", 6)
    tables = {"compare_operations": None, "_known_unary_operators": None, "_known_binary_operators": None, "_type_priority": None,
              "functions_to_replace": None, "g_method_type_dict": "optional"}
    for f in repo.all_functions():
        for n in walk_no_nested(f.node):
            if isinstance(n, ast.Call) and call_name(n) in ("get", "setdefault", "pop") and isinstance(n.func, ast.Attribute):
                base = src(n.func.value).split(".")[-1]
                if base in tables and tables[base] != "optional":
                    col.add("C09.R2", f.short, f"defaulted-lookup:{base}", False,
                            f"`{src(n)[:60]}` reads table {base} with a default: an unsupported operator/type/function would be translated "
                            "as the default instead of being refused", f"{f.module.rel}:{n.lineno}")
    # every subscript use of an operator table is either bare (KeyError) or dominated by a membership test that raises/delegates
    for f in repo.all_functions():
        pm = None
        for n in walk_no_nested(f.node):
            if isinstance(n, ast.Subscript) and isinstance(n.ctx, ast.Load) and src(n.value).split(".")[-1] in tables \
                    and tables[src(n.value).split(".")[-1]] != "optional":
                col.add("C09.R2", f.short, f"loud-lookup:{src(n.value).split('.')[-1]}", True,
                        f"`{src(n)[:50]}` is a subscript: an unknown key raises KeyError", f"{f.module.rel}:{n.lineno}")
    # membership guards: the not-in branch raises or calls a handler that raises
    for hname, table, kind in (("visit_UnaryOp", "_known_unary_operators", "raise"), ("visit_BinOp", "_known_binary_operators", "delegate")):
        f = repo.method("query_ast_visitor", hname)
        ifs = [n for n in walk_no_nested(f.node) if isinstance(n, ast.If) and table in src(n.test) and isinstance(n.test, ast.Compare)
               and isinstance(n.test.ops[0], (ast.NotIn, ast.In))]
        ok = len(ifs) == 1
        # the branch taken for an operator that is NOT in the table (either spelling of the test)
        unknown = (ifs[0].body if isinstance(ifs[0].test.ops[0], ast.NotIn) else ifs[0].orelse) if ok else []
        if ok and not unknown and isinstance(ifs[0].test.ops[0], ast.In):
            # `if op in table: ...; return` followed by the unknown-operator code
            pmf = parent_map(f.node)
            blk = pmf.get(ifs[0])
            for fld in ("body", "orelse"):
                lst = getattr(blk, fld, None)
                if isinstance(lst, list) and ifs[0] in lst:
                    unknown = lst[lst.index(ifs[0]) + 1:]
        if ok and kind == "raise":
            ok = any(isinstance(r, ast.Raise) for st in unknown for r in ast.walk(st))
        elif ok:
            calls = [c for c in ast.walk(ast.Module(body=unknown, type_ignores=[])) if isinstance(c, ast.Call) and call_name(c) == "visit_special_BinOp"]
            sp = repo.method("query_ast_visitor", "visit_special_BinOp")
            spm = parent_map(sp.node)
            # the special handler raises for every operator none of its tests recognises
            falls = [r for r in walk_no_nested(sp.node) if isinstance(r, ast.Raise)
                     and guards(sp.node, r, spm) and all(not tr_ for _, tr_ in guards(sp.node, r, spm))]
            ok = len(calls) == 1 and bool(falls) and not [s for s in unknown if isinstance(s, ast.Assign)]
        col.add("C09.R2", f.short, f"unknown-operator-refused:{table}", ok,
                "an operator outside the table must raise (directly, or in the special-operator handler's final else)", f.loc)
    mat = repo.function("most_accurate_type")
    ok = any(isinstance(a, ast.Assert) and "_type_priority" in src(a.test) and "all(" in src(a.test) for a in walk_no_nested(mat.node))
    col.add("C09.R2", mat.short, "unknown-operand-type-refused", ok,
            "most_accurate_type must assert that every operand type is in the priority table (this is what refuses arithmetic on objects and collections)", mat.loc)


# ---------------------------------------------------------------------- R3
def _base_key(e: ast.AST) -> str:
    s = src(e)
    return re.sub(r"\.comparators$", ".ops", s)


def check_partial(col, repo: Repo):
    col.floor("C09.R3", 10)
    mods = ["common.ast_to_cpp_translator", "common.cpp_ast", "common.event_collections", "common.executor",
            "cms.aod.cms_functions", "cms.miniaod.cms_functions", "atlas.xaod.jets", "common.math_utils"]
    callers_cache = {}
    for mn in mods:
        mod = repo.mod(mn)
        for f in mod.all_funcs:
            uses = []
            for n in walk_no_nested(f.node):
                if isinstance(n, ast.Subscript) and isinstance(n.ctx, ast.Load) and isinstance(n.slice, ast.Constant) and isinstance(n.slice.value, int) \
                        and n.slice.value >= 0:
                    b = n.value
                    is_field = isinstance(b, ast.Attribute) and b.attr in LIST_FIELDS and not isinstance(b.value, ast.Call)
                    is_args_param = isinstance(b, ast.Name) and b.id == "args" and any(a.arg == "args" for a in f.node.args.args)
                    if is_field or is_args_param:
                        uses.append(n)
            if not uses:
                continue
            paths = enumerate_paths(f.node)
            for u in uses:
                key = _base_key(u.value)
                k = u.slice.value
                ok = True
                reached = 0
                # control dependence first (closed guard set; includes the earlier operands of the and/or the read stands in)
                from sa.core.paths import len_values, len_aliases, _LEN_ALL
                al = len_aliases(f.node)

                def bounded(conds, cands):
                    """the tests known on the way (each with its truth value) leave only lengths > k"""
                    for cand in cands:
                        vs = _LEN_ALL
                        for t, tr_ in conds:
                            if isinstance(t, (ast.For, ast.While)):
                                continue
                            x = len_values(t, cand, tr_, al)
                            if x is not None:
                                vs = vs & x
                        if vs and min(vs) >= k + 1:
                            return True
                    return False
                dominated = bounded(guards(f.node, u, parent_map(f.node)), {key, src(u.value)})
                for p in ([] if dominated else paths):
                    # find the event whose statement contains this subscript
                    idx = None
                    for i, e in enumerate(p.events):
                        if e.kind in ("cond", "assert", "call", "assign", "expr", "return", "raise") and not isinstance(e.node, (ast.For, ast.While)) \
                                and any(x is u for x in ast.walk(e.node)):
                            idx = i
                            break
                    if idx is None:
                        continue
                    reached += 1
                    good = bounded([(e.node, True if e.kind == "assert" else e.taken) for e in p.events[:idx + 1] if e.kind in ("cond", "assert")],
                                   {key, src(u.value)})
                            # isinstance(node.args[0], ...) style guards do not bound the length
                    if not good:
                        ok = False
                if not ok:
                    # accept a guard at every call site of a private helper (same expression text)
                    sites = [(g, c) for g in mod.all_funcs for c in walk_no_nested(g.node)
                             if isinstance(c, ast.Call) and call_name(c) == f.name and g is not f]
                    if sites:
                        ok = True
                        for g, c in sites:
                            pmg = parent_map(g.node)
                            alg = len_aliases(g.node)
                            vs = _LEN_ALL
                            for t, tr_ in guards(g.node, c, pmg):
                                x = len_values(t, src(u.value), tr_, alg)
                                if x is not None:
                                    vs = vs & x
                            ok = ok and bool(vs) and min(vs) >= k + 1
                col.add("C09.R3", f.short, f"indexed-read:{src(u)}", dominated or (ok and reached > 0),
                        f"`{src(u)}` reads element {k} of a list-valued field: on every path (or at every call site) a length test that raises/asserts "
                        "must come first, otherwise a malformed call either crashes obscurely or, with a shorter guard, silently ignores arguments",
                        f"{f.module.rel}:{u.lineno}")
    # zips over query-derived lists
    tr = repo.mod("common.ast_to_cpp_translator")
    for mn in ("common.ast_to_cpp_translator", "common.cpp_ast"):
        mod = repo.mod(mn)
        for f in mod.all_funcs:
            for z in walk_no_nested(f.node):
                if isinstance(z, ast.Call) and call_name(z) == "zip" and len(z.args) == 2:
                    a, b = z.args
                    sa_, sb_ = src(a), src(b)
                    if not any(x in sa_ + sb_ for x in (".args", "column_names", ".keys", ".values")):
                        continue
                    if f.name == "visit_Dict":
                        col.add("C09.R3", f.short, "zip:dict-keys-values", sa_ == "node.keys" and sb_ == "node.values",
                                "ast.Dict keys and values have equal length by the Python grammar (frozen exception)", f"{f.module.rel}:{z.lineno}")
                        continue
                    if f.name == "process_ast_node" and "args" in sa_ and "args" in sb_:
                        ok = _code_value_builders_check_arity(repo)
                        col.add("C09.R3", f.short, "zip:formal-vs-actual-arguments", ok,
                                "formal and actual arguments are zipped here; every place that builds a CPPCodeValue with formal arguments must have "
                                "raised on an arity mismatch", f"{f.module.rel}:{z.lineno}")
                        continue
                    if f.name == "call_ResultTTree":
                        continue  # R9 / C03.R2
                    pmf = parent_map(f.node)
                    gs = guards(f.node, z, pmf)
                    good = any(isinstance(t, ast.Compare) and {src(t.left), src(t.comparators[0])} == {f"len({sa_})", f"len({sb_})"}
                               and ((isinstance(t.ops[0], ast.NotEq) and not tr_) or (isinstance(t.ops[0], ast.Eq) and tr_)) for t, tr_ in gs)
                    col.add("C09.R3", f.short, f"zip:{sa_[:25]}~{sb_[:25]}", good,
                            f"zip({sa_}, {sb_}) silently truncates to the shorter list; a length-equality test that raises must dominate it", f"{f.module.rel}:{z.lineno}")


def _code_value_builders_check_arity(repo: Repo) -> bool:
    ok = True
    n = 0
    for f in repo.all_functions():
        sets_args = [x for x in walk_no_nested(f.node) if isinstance(x, ast.Assign) and src(x.targets[0]).endswith(".args")
                     and any(isinstance(c, ast.Call) and call_name(c) == "CPPCodeValue" for c in ast.walk(f.node))]
        if not sets_args:
            continue
        n += 1
        raises = [r for r in walk_no_nested(f.node) if isinstance(r, ast.Raise)]
        pm = parent_map(f.node)
        # the formal arguments are installed only where the arity test held, and the other outcome of that test raises
        held = any(tr_ and isinstance(t, ast.Compare) and src(t.left) == "len(call_node.args)" and isinstance(t.ops[0], ast.Eq)
                   for t, tr_ in guards(f.node, sets_args[0], pm))
        refused = any((not tr_) and isinstance(t, ast.Compare) and src(t.left) == "len(call_node.args)" and isinstance(t.ops[0], ast.Eq)
                      for r in raises for t, tr_ in guards(f.node, r, pm))
        ok = ok and held and refused
    return ok and n >= 4


# ---------------------------------------------------------------------- R4
def check_fields(col, repo: Repo, m):
    col.floor("C09.R4", 25)
    handled = {}
    for name, f in m.items():
        mm = re.match(r"visit_([A-Z][A-Za-z]*)$", name)
        if mm and hasattr(ast, mm.group(1)) and isinstance(getattr(ast, mm.group(1)), type) and issubclass(getattr(ast, mm.group(1)), ast.AST):
            handled[mm.group(1)] = f
    for cls, f in sorted(handled.items()):
        fields = getattr(ast, cls)._fields
        if not fields or cls in ("Num", "Str", "Index"):
            continue
        param = f.node.args.args[1].arg
        read = _fields_read(repo, f, param, 0)
        for fld in fields:
            if fld in FIELD_ALLOW:
                continue
            col.add("C09.R4", f.short, f"field:{cls}.{fld}", fld in read,
                    f"ast.{cls} carries field `{fld}` but {f.short} (and the repository functions it hands the node to) never reads it: "
                    "whatever the query put there is silently dropped", f.loc)


def _fields_read(repo: Repo, f, param: str, depth: int):
    read = set()
    for n in ast.walk(f.node):
        if isinstance(n, ast.Attribute) and isinstance(n.value, ast.Name) and n.value.id == param:
            read.add(n.attr)
    if depth < 2:
        for c in ast.walk(f.node):
            if isinstance(c, ast.Call):
                for i, a in enumerate(c.args):
                    if isinstance(a, ast.Name) and a.id == param:
                        if call_name(c) == "visit_Call" and "FuncADLNodeVisitor" in src(c.func):
                            read |= {"func", "args"}      # known summary of the library dispatcher
                        if call_name(c) in ("generic_visit",):
                            read |= set(ast.AST.__subclasses__() and [])  # no field credit for a blind traversal
                        for g in repo.resolve_call(f, c):
                            params = [x.arg for x in g.node.args.args]
                            off = 1 if params[:1] in (["self"], ["cls"]) and isinstance(c.func, ast.Attribute) else 0
                            if i + off < len(params):
                                read |= _fields_read(repo, g, params[i + off], depth + 1)
    return read


# ---------------------------------------------------------------------- R5
REFUSALS = [
    # (class or None, function, how, detail)
    ("query_ast_visitor", "visit_Call_Aggregate_only", "first-raise", "Aggregate(func) is not implemented"),
    ("query_ast_visitor", "visit_call_Aggregate_initial_func", "first-raise", "Aggregate(func, func) is not implemented"),
    ("query_ast_visitor", "call_Aggregate", "last-raise", "unknown Aggregate form"),
    ("query_ast_visitor", "as_sequence", "last-raise", "treating a value as a sequence"),
    ("query_ast_visitor", "visit_Attribute", "last-raise", "unknown member"),
    ("query_ast_visitor", "visit_Constant", "else-raise", "unsupported constant kind"),
    ("query_ast_visitor", "visit_Compare", "guard-raise:len(node.ops) == 1", "chained comparison"),
    ("query_ast_visitor", "visit_Subscript", "guard-raise:cpp_collection", "indexing a non-collection (incl. slicing a value)"),
    ("query_ast_visitor", "visit_Call_Member", "guard-raise:cpp_value", "calling a method on a sequence"),
    ("query_ast_visitor", "visit_Dict", "guard-raise:node.keys", "dictionary unpacking"),
    ("query_ast_visitor", "call_Where", "guard-raise:cpp_sequence", "Where over a sequence of sequences"),
    ("query_ast_visitor", "_create_accumulator", "guard-raise:check_accumulator_type", "accumulating a non-number"),
    ("query_ast_visitor", "get_as_ROOT", "last-else-raise", "unknown terminal shape"),
    ("query_ast_visitor", "get_rep_value", "guard-raise:cpp_value", "a value was expected"),
    (None, "get_ttree_type", "guard-raise:cpp_sequence", "nested data structures in a column"),
    (None, "determine_type_mf", "guard-member:double,float,int", "method call on a number"),
    (None, "_is_format_request", "guard-raise:ast.Call", "query does not start with a call"),
    (None, "getAttribute", "first-raise", "templated getAttribute"),
    (None, "process_metadata", "loop-else-raise", "unknown metadata type"),
    (None, "build_CPPCodeValue", "guard-atom:spec.method_object is None", "function invoked like a method"),
    ("query_ast_visitor", "visit_Call", "guard-nonempty:call_node.keywords", "keyword arguments (they would be dropped)"),
    ("cpp_sequence", "as_cpp", "first-raise", "a sequence used where a C++ value is needed (arithmetic, comparison, argument)"),
]


def check_refusals(col, repo: Repo, m):
    col.floor("C09.R5", 20)
    for cls, fname, how, what in REFUSALS:
        if cls == "query_ast_visitor":
            f = m.get(fname)
        elif cls:
            f = repo.method(cls, fname)
        else:
            f = repo.function(fname)
        if f is None:
            raise AnalysisError(f"{fname} not found")
        body = [s for s in f.node.body if not (isinstance(s, ast.Expr) and isinstance(s.value, ast.Constant))]
        ok = False
        if how == "first-raise":
            ok = bool(body) and isinstance(body[0], ast.Raise)
        elif how in ("last-raise", "else-raise", "last-else-raise"):
            # the case that no branch handles must end in a raise: the function raises somewhere outside an exception handler, and no path
            # leaves it quietly - every path that does not raise returns a value or publishes a representation.  (Independent of how the
            # dispatch is spelled: guard clauses, if/elif/else, negated tests - see E-NORM N6.)
            pm = parent_map(f.node)
            has_raise = any(isinstance(r, ast.Raise) and not enclosing(f.node, r, (ast.ExceptHandler,), pm) for r in walk_no_nested(f.node))
            quiet = 0
            paths = enumerate_paths(f.node)
            for p_ in paths:
                if p_.status == "raise":
                    continue
                rets = [e.node for e in p_.events if e.kind == "return"]
                valued = bool(rets) and rets[-1].value is not None and not (isinstance(rets[-1].value, ast.Constant) and rets[-1].value.value is None)
                publishes = any(e.kind == "call" and call_name(e.node) in ("set_rep",) for e in p_.events)
                if not valued and not publishes:
                    quiet += 1
            ok = has_raise and quiet == 0 and bool(paths)
        elif how == "loop-else-raise":
            pm = parent_map(f.node)
            for sc in [lp for lp in body if isinstance(lp, ast.For)]:
                for r in walk_no_nested(sc):
                    if isinstance(r, ast.Raise) and not enclosing(f.node, r, (ast.ExceptHandler,), pm):
                        g = guards(sc, r, parent_map(sc))
                        if g and all(not tr_ for _, tr_ in g):
                            ok = True
        elif how.startswith("guard-raise:"):
            needle = how.split(":", 1)[1]
            pm = parent_map(f.node)
            for r in walk_no_nested(f.node):
                if isinstance(r, ast.Raise):
                    if any(needle in src(t) for t, _ in guards(f.node, r, pm)):
                        ok = True
        elif how.startswith("guard-member:"):
            # the raise stands under "<something> is one of these constants" (a list, a tuple, an or-chain of ==, a named table: alike)
            from sa.props._tr import const_membership, deep
            want_c = set(how.split(":", 1)[1].split(","))
            pm = parent_map(f.node)
            for r in walk_no_nested(f.node):
                if isinstance(r, ast.Raise):
                    for t, tr_ in guards(f.node, r, pm):
                        cm = const_membership(deep(f.node, t)) if tr_ else None
                        if cm is not None and cm[1] == want_c:
                            ok = True
        elif how.startswith("guard-atom:"):
            # the named test itself (an atom of the closed guard set) holds where the raise stands
            needle = how.split(":", 1)[1]
            pm = parent_map(f.node)
            ok = any(isinstance(r, ast.Raise) and (needle, True) in {(src(t), tr_) for t, tr_ in guards(f.node, r, pm)} for r in walk_no_nested(f.node))
        elif how.startswith("guard-nonempty:"):
            what_ = how.split(":", 1)[1].replace(" ", "")
            forms = {f"len({what_})>0", f"len({what_})!=0", f"len({what_})>=1", what_, f"0<len({what_})", f"bool({what_})", f"{what_}!=[]"}
            pm = parent_map(f.node)
            for r in walk_no_nested(f.node):
                if isinstance(r, ast.Raise):
                    g = [(src(t).replace(" ", ""), tr_) for t, tr_ in guards(f.node, r, pm)]
                    if len(g) == 1 and g[0][1] and g[0][0] in forms:
                        ok = True
        if not ok and how in ("else-raise", "last-raise", "last-else-raise"):
            # the dispatch may have been moved into a helper: then the fall-through statement itself must be the call of a helper
            # whose own fall-through raises
            last = body[-1] if body else None
            while isinstance(last, ast.If) and last.orelse:
                last = last.orelse[-1]
            c = last.value if isinstance(last, (ast.Return, ast.Expr)) and isinstance(getattr(last, "value", None), ast.Call) else None
            if c is not None:
                for g in repo.resolve_call(f, c):
                    gb = [s_ for s_ in g.node.body if not (isinstance(s_, ast.Expr) and isinstance(s_.value, ast.Constant))]
                    if g.module is f.module and gb and isinstance(gb[-1], ast.Raise) and g.name not in ("get_rep",):
                        ok = True
        col.add("C09.R5", f.short, f"refusal:{what}", ok, f"{what}: the function must still end this case in a raise ({how})", f.loc)


# ---------------------------------------------------------------------- R6
MD_TABLES = {
    "add_method_type_info": ("Method Return Type", None),
    "add_cpp_function": ("C++ Inline Functions and Methods", None),
    "add_job_script": ("Job Scripts", None),
}


def check_md_keys(col, repo: Repo):
    col.floor("C09.R6", 15)
    doc = Readme()
    pmf = repo.function("process_metadata")
    for n in ast.walk(pmf.node):
        if isinstance(n, ast.If) and isinstance(n.test, ast.Compare) and src(n.test.left) == "md_type" and const_str(n.test.comparators[0]) in MD_TABLES:
            mdt = const_str(n.test.comparators[0])
            body = ast.Module(body=n.body, type_ignores=[])
            read = set()
            for x in ast.walk(body):
                if isinstance(x, ast.Subscript) and src(x.value) == "md" and const_str(x.slice):
                    read.add(const_str(x.slice))
                if isinstance(x, ast.Call) and call_name(x) == "get" and src(x.func.value) == "md" and x.args and const_str(x.args[0]):
                    read.add(const_str(x.args[0]))
            keys = set()
            for t in doc.tables(MD_TABLES[mdt][0]):
                if any(r.get("Key") == "metadata_type" and mdt in r.get("Example", "") for r in t):
                    keys |= {r.get("Key") for r in t}
            keys.discard("metadata_type")
            if not keys:
                raise AnalysisError(f"README has no key table for {mdt}")
            for k in sorted(keys):
                col.add("C09.R6", f"process_metadata.{mdt}", f"documented-key-read:{k}", k in read,
                        f"README documents key `{k}` for {mdt} but the branch never reads it (read: {sorted(read)}): the user's setting is silently ignored", pmf.loc)
    # metadata without a type raises; unknown type raises (R5); missing metadata_type
    ok = any(isinstance(n, ast.If) and src(n.test) == "md_type is None" and any(isinstance(r, ast.Raise) for r in n.body) for n in ast.walk(pmf.node))
    col.add("C09.R6", pmf.short, "missing-metadata_type-raises", ok, "", pmf.loc)


# ---------------------------------------------------------------------- R7
def check_column_type(col, repo: Repo):
    f = repo.function("get_ttree_type")
    # the scalar branch: rep.cpp_type().tree_type - does it reject pointer types (raw objects)?
    s = src(f.node)
    rejects = bool(re.search(r"p_depth|is_a_pointer", s))
    col.add("C09.R7", f.short, "raw-object-column-refused", rejects,
            "the scalar branch hands out rep.cpp_type().tree_type whatever it is: a pointer-typed value (an event object such as "
            "e.EventInfo('EI') or jets.First()) becomes a column of raw pointers instead of being refused", f.loc)


# ---------------------------------------------------------------------- R8
def check_operand_types(col, repo: Repo, m):
    col.floor("C09.R8", 2)
    f = m.get("visit_BinOp")
    paths = [p for p in enumerate_paths(f.node) if p.status != "raise"]
    ok = bool(paths)
    for p in paths:
        names = [call_name(e.node) for e in p.events if e.kind == "call"]
        if "visit_special_BinOp" in names:
            continue
        mats = [e.node for e in p.events if e.kind == "call" and call_name(e.node) == "most_accurate_type"]
        good = len(mats) == 1 and src(mats[0].args[0]).replace(" ", "") == "[left.cpp_type(),right.cpp_type()]"
        ok = ok and good
    col.add("C09.R8", f.short, "operand-types-validated-for-every-operator", ok,
            "most_accurate_type([left.cpp_type(), right.cpp_type()]) is the only refusal of arithmetic on non-numbers; it must run on every "
            "path, including the one for `/` whose result type is fixed", f.loc)
    vu = m.get("visit_UnaryOp")
    pmu = parent_map(vu.node)
    mats = [c for c in walk_no_nested(vu.node) if isinstance(c, ast.Call) and call_name(c) in ("most_accurate_type", "check_accumulator_type")
            and "operand.cpp_type()" in src(c)]
    # validated on every path that renders `+`/`-` (a guard that exempts `not` is fine)
    oku = len(mats) >= 1 and all(all("ast.Not" in src(t) or "_known_unary_operators" in src(t) for t, _ in guards(vu.node, c, pmu)) for c in mats)
    col.add("C09.R8", vu.short, "unary-arithmetic-operand-validated", oku,
            "`-x` / `+x` are arithmetic: the operand's type must go through most_accurate_type like the operands of the binary operators, otherwise "
            "-e.Jets('A') or -j on an object is translated to (-(jets0)) instead of being refused", vu.loc)
    g = m.get("visit_special_BinOp")
    has = any(isinstance(c, ast.Call) and call_name(c) in ("most_accurate_type", "check_accumulator_type") for c in ast.walk(g.node))
    col.add("C09.R8", g.short, "power-operands-validated", has,
            "`**` is emitted as std::pow(left, right) without any check of the operand types: e.Jets('J') ** 2 or j ** 2 on an object is "
            "translated instead of refused", g.loc)
