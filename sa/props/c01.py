"""C01 - the generated job computes the rows the query denotes.

Not decided: value/row equivalence with LINQ semantics, the runtime scope algebra
(starts_with / deepest_scope / __getitem__ on runtime stacks).  Decided: structural
necessary conditions in the translator - cursor discipline, handler contracts, loop
identity, accumulator placement, no hoisted computed initialisers, the rep-cache
guard, the normalisation pipeline, all events processed.
"""
from __future__ import annotations

import ast
from typing import List

from sa.core.common import AnalysisError, Collector, REPO
from sa.core.paths import enumerate_paths, guards, parent_map
from sa.core.pyfacts import Repo, arg, call_name, const_str, kwarg, src, walk_no_nested, ordk, ordk_end
from sa.core.scope_typestate import ScopeInterp, St
from sa.props._tr import ACTIVE_HANDLERS, check_container_elements, cursor_actions, defs_of, resolve_name, strip_cast, visitor_methods

EXPLANATION = (
    "Abstract interpretation of the emission cursor (push block / pop / capture token / restore) over every structured path "
    "of every handler of query_ast_visitor and of cpp_ast.process_ast_node, plus def-use checks: R1 a handler only pops a "
    "block it pushed itself or restored by token (frozen exception: the terminal ResultTTree closes its source's loop after "
    "restoring its entry token); R2 frozen handler contracts (passive handlers never move the cursor; tuple/list/dict "
    "translate every element with retain_scope; IfExp/BoolOp end where they started; Where/Range/First/collection loops "
    "leave exactly their blocks open; Aggregate ends at the accumulator scope); R3 Select/Where reuse the source's loop "
    "iterator; R4 the accumulator is declared one block outside the loop (scope()[-1], never the current scope) and updated "
    "at the sequence-value scope; R5 no variable initialiser is computed from a translated query sub-expression (block.emit "
    "hoists declarations above the statements that compute it); R6 the rep cache is only reused under starts_with; R7 the "
    "normalisation pipeline order; R8 both CMS job configurations process all events; R9 top_level_scope() only at frozen "
    "sites; R10 the fill-scope operator table."
)
ASSUMPTIONS = [
    "the pure scope algebra of util_scope (starts_with, deepest_scope, [-1]) is correct on runtime stacks",
    "func_adl's own normalisations (aggregate shortcuts, chained-call simplification) preserve meaning",
]

PIPELINE = ["extract_metadata", "process_metadata", "change_extension_functions_to_calls", "aggregate_node_transformer",
            "simplify_chained_calls", "find_known_functions", "cpp_ast_finder"]


def check(col: Collector, tier: str):
    repo = Repo()
    si = ScopeInterp(repo)
    methods = visitor_methods(repo)
    pan = repo.function("process_ast_node")
    col.info["handlers"] = len(methods)
    col.floor("C01.R1", 1)
    col.floor("C01.R2", 40)

    results = {}
    for name, f in methods.items():
        unroll = 2 if name in ("visit_BoolOp",) else 1
        results[name] = si.run(f, unroll=unroll)
    results["process_ast_node"] = si.run(pan)

    # ---------------------------------------------------------------- R1 pops
    for name, res in results.items():
        f = methods.get(name, pan)
        seen = set()
        for recs, end, status in res:
            acts = [r for r in recs if r.kind in ("push", "pop", "restore", "set-derived", "nested", "helper")]
            for i, r in enumerate(acts):
                if r.kind != "pop":
                    continue
                key = (r.ev.node.lineno, r.what != "?")
                if key in seen:
                    continue
                seen.add(key)
                if r.what != "?":
                    # popping a block pushed by this handler: the state must be known at this point, i.e. reached by a
                    # push or a token restore with no nested translation in between
                    prev = acts[i - 1] if i else None
                    ok = prev is not None and prev.kind in ("push", "restore", "pop")
                    col.add("C01.R1", f.short, f"pop-of-own-block:{r.what}", ok,
                            f"pop_scope() closes the {r.what} this handler opened; it must directly follow the push or a set_scope(token) "
                            f"(previous cursor event: {prev.kind if prev else None} {prev.what if prev else ''})", f"{f.module.rel}:{r.ev.node.lineno}")
                else:
                    prev = acts[i - 1] if i else None
                    terminal_ok = name == "call_ResultTTree" and prev is not None and prev.kind == "restore" and i == len(acts) - 1
                    col.add("C01.R1", f.short, "pop-of-foreign-block", terminal_ok,
                            "pop_scope() is applied to a cursor state this handler does not know (no push of its own, no token restore "
                            "just before): whatever block a nested translation left open is closed instead"
                            if not terminal_ok else "terminal: closes the source sequence's loop right after restoring its entry token",
                            f"{f.module.rel}:{r.ev.node.lineno}")

    # ---------------------------------------------------------------- R2 contracts
    for name, res in results.items():
        f = methods.get(name, pan)
        live = [(recs, end, st) for recs, end, st in res if st != "raise"]
        if name == "process_ast_node":
            for recs, end, st in live[:1] + live[-1:]:
                acts = cursor_actions(recs)
                pushes = [r for r in acts if r.kind == "push"]
                pops = [r for r in acts if r.kind == "pop"]
                ok = len(pushes) == 1 and len(pops) == 1 and pushes[0].what == "block" and acts[-1].kind == "pop" and not end.pushed
                col.add("C01.R2", f.short, "own-block-opened-and-closed", ok,
                        "the injected code's block must be opened once and closed once, last", f.loc)
            continue
        if name not in ACTIVE_HANDLERS:
            moved = sorted({f"{r.kind}@{r.ev.node.lineno}" for recs, _, _ in res for r in cursor_actions(recs)})
            col.add("C01.R2", f.short, "passive-handler-does-not-move-cursor", not moved,
                    f"this handler is classified passive (it must leave the cursor to its operands' translations) but performs {moved}", f.loc)
            continue
        if name == "visit_IfExp":
            ends = {str(e) for _, e, s in live}
            col.add("C01.R2", f.short, "ends-where-it-started", ends == {"entry"}, f"end states {ends}", f.loc)
            for recs, end, st in live:
                seq = [(a.kind, a.what) for a in cursor_actions(recs) if a.kind in ("push", "pop")]
                col.add("C01.R2", f.short, "if-closed-before-else-opened", seq == [("push", "iftest"), ("pop", "iftest"), ("push", "elsephrase")],
                        f"block protocol must be push if, pop if, push else (an else emitted while another block is open attaches to that block): {seq}", f.loc)
        elif name == "visit_BoolOp":
            multi = [(recs, e) for recs, e, s in live if sum(1 for r in recs if r.kind in ("nested",)) >= 2]
            ends = {str(e) for _, e in multi}
            col.add("C01.R2", f.short, "ends-where-it-started", ends == {"entry"} and bool(multi),
                    f"end states with two or more operands {ends}", f.loc)
        elif name == "make_sequence_from_collection":
            ends = {str(e) for _, e, s in live}
            col.add("C01.R2", f.short, "leaves-its-loop-open", ends == {"entry+['loop']"}, f"end states {ends}", f.loc)
        elif name == "call_Where":
            for recs, end, st in live:
                acts = cursor_actions(recs)
                ok = bool(acts) and acts[-1].kind == "push" and acts[-1].what == "iftest" and end.pushed == ("iftest",) \
                    and sum(1 for a in acts if a.kind == "push") == 1
                col.add("C01.R2", f.short, "leaves-filter-if-open", ok,
                        f"last cursor action must be the single push of the filter's if, left open for downstream operators (actions: {[a.kind + ':' + a.what[:20] for a in acts]})", f.loc)
        elif name == "call_Range":
            for recs, end, st in live:
                acts = [r for r in recs if r.kind in ("push", "pop", "restore", "set-derived", "helper")]
                kinds = [(a.kind, a.what) for a in acts if a.kind in ("push", "pop", "restore", "set-derived") or (a.kind == "helper" and a.after.pushed != a.before.pushed)]
                ok = kinds[:1] == [("push", "block")] and kinds[-1:] == [("helper", "make_sequence_from_collection")] and len(kinds) == 2 \
                    and end.pushed[-1:] == ("loop",)
                col.add("C01.R2", f.short, "opens-block-then-loop-and-leaves-them-open", ok, f"cursor actions {kinds}", f.loc)
            # the elements: a vector of (end - begin) entries, filled with begin, begin+1, ... before the loop over it is opened
            fn_ = f.node
            iota = [c for c in ast.walk(fn_) if isinstance(c, ast.Call) and call_name(c) == "FunctionAST" and c.args and const_str(c.args[0]) == "std::iota"]
            okr = False
            why = "no std::iota call node"
            if len(iota) == 1:
                calls = [c for c in ast.walk(fn_) if isinstance(c, ast.Call) and src(c.func) == "ast.Call" and kwarg(c, "func") is iota[0]]
                if len(calls) == 1:
                    cvar = [n.targets[0].id for n in walk_no_nested(fn_) if isinstance(n, ast.Assign) and n.value is calls[0] and isinstance(n.targets[0], ast.Name)]
                    a_ = kwarg(calls[0], "args")
                    elts = [src(resolve_name(fn_, e.func.value))[:200] if isinstance(e, ast.Call) and call_name(e) == "as_ast" else src(e) for e in (a_.elts if isinstance(a_, ast.List) else [])]
                    # the third argument is the begin variable, i.e. the variable initialised with the translated lower bound (whether that
                    # translation is written inline or bound to a local first)
                    third = None
                    if isinstance(a_, ast.List) and len(a_.elts) == 3 and isinstance(a_.elts[2], ast.Call) and call_name(a_.elts[2]) == "as_ast":
                        third = resolve_name(fn_, a_.elts[2].func.value)
                    iv_ = kwarg(third, "initial_value") if isinstance(third, ast.Call) and call_name(third) == "cpp_variable" else None
                    from sa.props._tr import deep as _deep
                    begin_ok = iv_ is not None and src(_deep(fn_, iv_)).replace(" ", "") == "self.get_rep(args[0])"
                    shape_ok = len(elts) == 3 and ".begin()" in elts[0] and ".end()" in elts[1] and begin_ok
                    emitted = [c for c in walk_no_nested(fn_) if isinstance(c, ast.Call) and call_name(c) == "add_statement" and cvar
                               and f"self.get_rep({cvar[0]})" in src(c)]
                    mk = [c for c in walk_no_nested(fn_) if isinstance(c, ast.Call) and call_name(c) == "make_sequence_from_collection"]
                    okr = shape_ok and len(emitted) == 1 and len(mk) == 1 and ordk(emitted[0]) < ordk(mk[0])
                    why = f"iota arguments {elts}, emitted {len(emitted)} time(s)"
            col.add("C01.R2", f.short, "range-elements-are-begin..end-1", okr,
                    f"the vector behind Range must be filled by std::iota(v.begin(), v.end(), <begin>) emitted before the loop is opened ({why}); "
                    "without it the sequence is (end - begin) zeros", f.loc)
        elif name == "call_First":
            for recs, end, st in live:
                acts = cursor_actions(recs)
                ok = len(acts) == 2 and acts[0].kind == "set-derived" and acts[1].kind == "push" and acts[1].what == "iftest"
                col.add("C01.R2", f.short, "moves-to-sequence-value-scope-then-opens-if", ok,
                        f"cursor actions {[a.kind + ':' + a.what[:40] for a in acts]}", f.loc)
            # what First() hands on must have been computed INSIDE the first-element guard.  A sequence-valued element (First of a
            # sequence of sequences) has its loop already written by as_sequence, outside the guard: returning it unchanged yields
            # the inner elements of EVERY outer element, not of the first.
            pubs = [c for c in walk_no_nested(f.node) if isinstance(c, ast.Call) and call_name(c) == "set_rep"]
            # (every value the published expression can have, with the closed guard set it has it under: if/else, conditional expression
            # and guard clause read the same)
            from sa.props._tr import conditional_defs
            has_refusal = any(isinstance(r, ast.Raise) and any("cpp_sequence" in src(t) and tr_ for t, tr_ in guards(f.node, r, parent_map(f.node)))
                              for r in walk_no_nested(f.node))
            seq_arms = []
            if len(pubs) == 1:
                gp = frozenset((src(t), tr_) for t, tr_ in guards(f.node, pubs[0], parent_map(f.node)))
                for v, gs in conditional_defs(f.node, pubs[0].args[1], follow=False):
                    if any("cpp_sequence" in t_ and "isinstance" in t_ and tr_ for t_, tr_ in gs | gp):
                        seq_arms.append(v)
            if not seq_arms and not has_refusal:
                col.defer("call_First: no published value stands under `isinstance(<element>, cpp_sequence)` and that case is not refused: "
                          "C01.R15 sequence-valued-first-confined-to-the-guard not decided on this shape")
            confined = bool(seq_arms) and not any(isinstance(a_, ast.Name) for a_ in seq_arms)
            col.add("C01.R15", f.short, "sequence-valued-first-confined-to-the-guard", confined or has_refusal,
                    "when the element is itself a sequence, call_First publishes that sequence as it is: its loop was written before (outside) "
                    "`if (is_first)`, so every outer element contributes", f.loc)
        elif name == "visit_call_Aggregate_initial":
            for recs, end, st in live:
                acts = cursor_actions(recs)
                ok = len(acts) == 2 and all(a.kind == "set-derived" for a in acts) and acts[-1].what == "accumulator_scope" \
                    and ("iterator_value().scope()[-1]" in acts[0].what or acts[0].what.endswith(".scope()"))
                col.add("C01.R2", f.short, "update-at-sequence-scope-then-back-to-accumulator-scope", ok,
                        f"cursor actions {[a.kind + ':' + a.what[:50] for a in acts]}", f.loc)
        elif name == "call_ResultTTree":
            for recs, end, st in live[:1] + live[-1:]:
                acts = cursor_actions(recs)
                tail = [(a.kind, a.what) for a in acts[-3:]]
                ok = len(tail) == 3 and tail[0][0] == "set-derived" and tail[1][0] == "restore" and tail[2][0] == "pop"
                col.add("C01.R2", f.short, "fill-then-restore-then-close", ok, f"last cursor actions {tail}", f.loc)
            # the Fill statement goes to the mainline scope, decided once, not to wherever a column was computed
            ds = defs_of(f.node, "scope_fill")
            fills = [r for recs, _, _ in live for r in recs if r.kind == "set-derived" and r.what == "scope_fill"]
            ok = len(ds) == 1 and src(ds[0]).replace(" ", "") == "self.as_sequence(find_fill_scope(source)).scope()" and bool(fills)
            col.add("C01.R2", f.short, "fill-at-the-mainline-scope", ok,
                    "the scope restored before emitting Fill must be as_sequence(find_fill_scope(source)).scope(), defined once "
                    f"(definitions: {[src(d)[:60] for d in ds]}): a fill scope that follows the last scalar column puts Fill and the "
                    "other columns inside that column's if/loop", f.loc)
        elif name == "get_rep":
            check_get_rep(col, f)
            # the typestate treats a call without retain_scope as one that may move the cursor, and one with retain_scope=True as
            # one that does not: that reading is only right if the parameter defaults to False and is forwarded as given
            for gname in ("get_rep", "get_rep_value"):
                g = methods.get(gname)
                if g is None:
                    continue
                a = g.node.args
                names = [x.arg for x in a.args]
                dflt = dict(zip(names[len(names) - len(a.defaults):], a.defaults))
                d = dflt.get("retain_scope")
                ok = d is not None and isinstance(d, ast.Constant) and d.value is False
                if gname == "get_rep_value":
                    fw = [c for c in walk_no_nested(g.node) if isinstance(c, ast.Call) and call_name(c) == "get_rep"]
                    ok = ok and len(fw) == 1 and (src(arg(fw[0], 1, "retain_scope")) == "retain_scope" if arg(fw[0], 1, "retain_scope") is not None else False)
                col.add("C01.R2", g.short, "retain_scope-defaults-to-False-and-is-forwarded", ok,
                        "handlers that open a loop or an if rely on the cursor staying where the nested translation left it unless they ask otherwise", g.loc)
        elif name == "code_fill_ttree":
            pass  # its placement logic is the runtime scope algebra (not decided); C05 checks the statements it emits
    check_container_elements(col, "C01.R2", methods)
    # a flattened sequence spans TWO loops (the source's and the inner one): the terminals (Count/Sum/Aggregate accumulators, the
    # First flag) declare their state just outside `iterator_value().scope()`, which must therefore reach outside the source's loop
    sm = methods.get("call_SelectMany")
    if sm is not None:
        pubs = [c for c in walk_no_nested(sm.node) if isinstance(c, ast.Call) and call_name(c) == "set_rep"]
        v = pubs[0].args[1] if len(pubs) == 1 else None
        inner_only = False
        if isinstance(v, ast.Name):
            ds = [n for n in walk_no_nested(sm.node) if isinstance(n, ast.Assign) and any(isinstance(t, ast.Name) and t.id == v.id for t in n.targets)]
            last = max(ds, key=lambda n: n.lineno) if ds else None
            if last is not None and isinstance(last.value, ast.Call) and call_name(last.value) == "as_sequence" and last.value.args \
                    and isinstance(last.value.args[0], ast.Name):
                cd = defs_of(sm.node, last.value.args[0].id)
                inner_only = len(cd) == 1 and isinstance(cd[0], ast.Call) and src(cd[0].func) == "ast.Call"
        col.add("C01.R16", sm.short, "flattened-sequence-keeps-its-outer-loop", not inner_only,
                "call_SelectMany publishes the inner sequence as it is (as_sequence(<the lambda applied to the element>)): nothing in it refers to the "
                "source's loop, so Count()/Sum()/Aggregate()/First() on the flattened sequence declare their accumulator or flag INSIDE the source's "
                "loop and are evaluated once per outer element", sm.loc)

    # two uses of one bound sequence (`good.First().pt() + good.Count()`, a self join `jets.Select(lambda j1: jets.Select(lambda j2: ..))`)
    # denote two traversals.  as_sequence hands back the loop it cached for the same collection representation, so both uses are coded
    # into ONE loop body and their combination is evaluated at the deeper of the two scopes.
    asq = methods.get("as_sequence")
    if asq is not None:
        cached = [r for r in walk_no_nested(asq.node) if isinstance(r, ast.Return) and isinstance(r.value, ast.Name)
                  and any(isinstance(d, ast.Call) and call_name(d) == "get_rep" and "_gc" in src(d.func) for d in defs_of(asq.node, r.value.id))]
        col.add("C01.R18", asq.short, "each-use-of-a-bound-sequence-gets-its-own-loop", not cached,
                "as_sequence returns the loop cached on the block for the same collection (self._gc.get_rep(rep)): a second traversal of a bound "
                "sequence is merged into the first one's loop", asq.loc)

    check_loop_identity(col, repo, methods)
    check_accumulator(col, repo, methods)
    check_hoisted_init(col, repo)
    check_cache_guard(col, repo, methods)
    check_pipeline(col, repo)
    check_max_events(col)
    check_top_level_sites(col, repo, methods, pan)
    check_fill_scope_table(col, repo)
    from sa.props._tr import check_prefix_test, check_rescope, import_obligations
    col.floor("C01.R11", 2)
    check_prefix_test(col, "C01.R11", repo)
    col.floor("C01.R12", 1)
    check_rescope(col, "C01.R12", repo)
    from sa.props._tr import check_core_scope_semantics
    col.floor("C01.R14", 20)
    check_core_scope_semantics(col, "C01.R14", repo)
    import_obligations(col, "C01.R13", "c04", lambda o: o.rule in ("C04.R1", "C04.R2", "C04.R3", "C04.R4"),
                       "code emitted outside its guard also changes which rows are written: the guarded loop runs (and may throw) for events the guard rejects")
    import_obligations(col, "C01.R8", "c16", lambda o: o.rule == "C16.R2" and o.detail.startswith("step-context:") and any(k in o.detail for k in ("cmsRun", "ATestRun_eljob")),
                       "a job whose failure is masked (a pipeline into tee, `|| true`, a condition) delivers the rows written before the fault as if "
                       "they were all the rows of the input")
    import_obligations(col, "C01.R8", "c16", lambda o: o.rule == "C16.R5" and o.detail == "-d-file-is-sole-input",
                       "rows of a file that was not asked for are rows the query does not denote")
    import_obligations(col, "C01.R17", "c06", lambda o: o.rule in ("C06.R7", "C06.R8"),
                       "two mentions of a collection are two loops / two reads: a remembered code value or token makes the second one an alias of the first")
    import_obligations(col, "C01.R13", "c13", lambda o: o.rule in ("C13.R2", "C13.R7") or o.detail in ("binary-template", "comparison-template-and-type", "unary-template", "operands-in-order"),
                       "the value written is the value of this C++ expression")


def check_get_rep(col, f):
    n = f.node
    # the token is taken (current_scope) exactly when retain_scope is set, before the visit; it is restored after the visit exactly
    # when it was taken (tested through the flag or through the token itself)
    pm = parent_map(n)
    flag = n.args.args[2].arg if len(n.args.args) > 2 else "retain_scope"
    s_defs = [st for st in walk_no_nested(n) if isinstance(st, ast.Assign) and isinstance(st.value, ast.Call) and call_name(st.value) == "current_scope"]
    ok = len(s_defs) == 1 and (flag, True) in {(src(t), tr) for t, tr in guards(n, s_defs[0], pm)}
    if ok:
        tok = src(s_defs[0].targets[0])
        others = [st for st in walk_no_nested(n) if isinstance(st, ast.Assign) and src(st.targets[0]) == tok and st is not s_defs[0]]
        sets = [c for c in ast.walk(n) if isinstance(c, ast.Call) and call_name(c) == "set_scope" and src(c.args[0]) == tok]
        vis = [c for c in ast.walk(n) if isinstance(c, ast.Call) and call_name(c) == "visit"]
        ok = len(sets) == 1 and len(vis) == 1 and ordk(s_defs[0]) < ordk(vis[0]) < ordk(sets[0]) \
            and all(src(o.value) == "None" and ordk(o) < ordk(vis[0]) and (flag, False) in {(src(t), tr) for t, tr in guards(n, o, pm)} for o in others)
        if ok:
            gs = [(src(t), tr) for t, tr in guards(n, sets[0], pm)]
            ok = gs in ([(f"{tok} is None", False)], [(flag, True)]) and (gs == [(flag, True)] or len(others) == 1)
    col.add("C01.R2", f.short, "retain_scope-captures-before-and-restores-after", ok,
            "get_rep must capture the scope before visiting when retain_scope is set and restore it right after the visit", f.loc)


def check_loop_identity(col, repo, methods):
    col.floor("C01.R3", 3)
    for name in ("call_Select", "call_Where"):
        f = methods.get(name)
        if f is None:
            raise AnalysisError(f"{name} not found")
        seqs = [c for c in ast.walk(f.node) if isinstance(c, ast.Call) and call_name(c) == "cpp_sequence"]
        ok = len(seqs) == 1
        why = ""
        if ok:
            it = arg(seqs[0], 1, "iterator_value")
            ok = isinstance(it, ast.Call) and call_name(it) == "iterator_value" and isinstance(it.func.value, ast.Name)
            if ok:
                d = [strip_cast(x) for x in defs_of(f.node, it.func.value.id)]
                ok = len(d) == 1 and isinstance(d[0], ast.Call) and call_name(d[0]) == "as_sequence"
                why = f"iterator comes from {src(it)} with {it.func.value.id} = {src(d[0]) if d else None}"
        col.add("C01.R3", f.short, "reuses-source-iterator", ok,
                "the sequence published by Select/Where must keep the loop iterator of as_sequence(source) (no second loop); " + why, f.loc)
    f = methods.get("call_SelectMany")
    sets = [c for c in ast.walk(f.node) if isinstance(c, ast.Call) and call_name(c) == "set_rep"]
    ok = len(sets) == 1 and isinstance(sets[0].args[1], ast.Name)
    if ok:
        last_def = [st for st in walk_no_nested(f.node) if isinstance(st, ast.Assign) and src(st.targets[0]) == sets[0].args[1].id][-1]
        v = strip_cast(last_def.value)
        ok = isinstance(v, ast.Call) and call_name(v) == "as_sequence" and isinstance(v.args[0], ast.Name) and \
            any(isinstance(x, ast.Call) and call_name(x) == "Call" for x in defs_of(f.node, v.args[0].id))
    col.add("C01.R3", f.short, "publishes-loop-over-the-selected-collection", ok,
            "SelectMany must publish as_sequence(<lambda call on the source's value>)", f.loc)
    # the lambda call is applied to the source's sequence value
    for name in ("call_Select", "call_SelectMany", "call_Where"):
        f = methods[name]
        calls = [c for c in ast.walk(f.node) if isinstance(c, ast.Call) and src(c.func) == "ast.Call"]
        ok = len(calls) == 1
        if ok:
            a = kwarg(calls[0], "args")
            fn_ = kwarg(calls[0], "func")
            # the argument list with locals substituted along the path (a local may be re-used or split into two names):
            # [ as_sequence(<the operator's source>).sequence_value().as_ast() ]
            from sa.core.paths import substituted_paths
            import re as _re2
            texts = set()
            for items in substituted_paths(f.node):
                for k_, c_, *_ in items:
                    if k_ == "call" and src(c_.func) == "ast.Call" and kwarg(c_, "args") is not None:
                        texts.add(src(kwarg(c_, "args")).replace(" ", ""))
            ok = a is not None and fn_ is not None and len(texts) == 1 and _re2.fullmatch(
                r"\[self\.as_sequence\((cast\(ast\.expr,)?args\[0\]\)?\)\.sequence_value\(\)\.as_ast\(\)\]", next(iter(texts))) is not None
            lam = resolve_name(f.node, fn_)
            if isinstance(lam, ast.Name):
                lams = [strip_cast(d) for d in defs_of(f.node, lam.id)]
                ok = ok and any(isinstance(d, ast.Call) and call_name(d) == "lambda_unwrap" for d in lams)
            else:
                ok = ok and isinstance(lam, ast.Call) and call_name(lam) == "lambda_unwrap"
        col.add("C01.R3", f.short, "lambda-applied-to-the-sequence-value", ok,
                "the operator's lambda must be called with exactly the source's current sequence value", f.loc)


def check_accumulator(col, repo, methods):
    col.floor("C01.R4", 5)
    f = methods.get("_create_accumulator")
    if f is None:
        raise AnalysisError("_create_accumulator not found")
    ds = defs_of(f.node, "accumulator_scope")
    ok = len(ds) >= 1 and all(isinstance(d, ast.Subscript) and src(d.slice) == "-1" and src(d.value).endswith(".iterator_value().scope()") for d in ds)
    col.add("C01.R4", f.short, "declared-one-block-outside-the-loop", ok,
            f"accumulator scope must be <sequence>.iterator_value().scope()[-1] on every branch (found {[src(d) for d in ds]})", f.loc)
    decl = [c for c in ast.walk(f.node) if isinstance(c, ast.Call) and call_name(c) == "declare_variable"]
    ok = len(decl) == 1 and src(decl[0].func.value) == "accumulator_scope" and src(decl[0].args[0]) == "accumulator"
    col.add("C01.R4", f.short, "declared-on-that-scope-not-the-cursor", ok,
            f"the accumulator must be declared with accumulator_scope.declare_variable(accumulator) (found {[src(d) for d in decl]})", f.loc)
    acc = [c for c in ast.walk(f.node) if isinstance(c, ast.Call) and call_name(c) == "cpp_variable"]
    ok = len(acc) == 1 and src(arg(acc[0], 1, "scope")) == "accumulator_scope"
    col.add("C01.R4", f.short, "variable-valid-from-that-scope", ok, "the accumulator variable must carry accumulator_scope", f.loc)
    # the sequence-of-sequences branch picks the inner iterator
    ifs = [n for n in walk_no_nested(f.node) if isinstance(n, ast.If) and "isinstance(seq_val" in src(n.test)]
    ok = len(ifs) == 1 and "seq_val.iterator_value()" in src(ifs[0].body[0]) and "seq.iterator_value()" in src(ifs[0].orelse[0])
    col.add("C01.R4", f.short, "inner-sequence-aggregates-over-inner-loop", ok,
            "for a sequence of sequences the accumulator belongs outside the inner loop (seq_val.iterator_value()), else outside the sequence's own loop", f.loc)
    g = methods.get("visit_call_Aggregate_initial")
    paths = [p for p in enumerate_paths(g.node) if p.status != "raise"]
    ok = bool(paths)
    for p in paths:
        names = [(call_name(e.node), e.node) for e in p.events if e.kind == "call"]
        idx = {n: i for i, (n, _) in reversed(list(enumerate(names)))}
        sets = [i for i, (n, c) in enumerate(names) if n == "set_scope"]
        upd = [i for i, (n, c) in enumerate(names) if n == "set_var"]
        crt = idx.get("_create_accumulator", -1)
        ok = ok and len(sets) == 2 and len(upd) == 1 and crt >= 0 and crt < sets[0] < upd[0] < sets[1]
        if ok:
            ok = src(names[upd[0]][1].args[0]) == "accumulator"
    col.add("C01.R4", g.short, "create-then-move-then-update-then-return", ok,
            "order on every path: create accumulator, set_scope(sequence-value scope), translate+emit the update set_var(accumulator, ..), set_scope(accumulator_scope)", g.loc)


def _is_translated(fn, e, tainted_params=()):
    """Does expression e (after following single-definition locals) come from translating a query sub-expression?"""
    e = resolve_name(fn, e)
    if isinstance(e, ast.Call) and call_name(e) in ("get_rep", "get_rep_value", "as_sequence"):
        return True
    if isinstance(e, ast.Name) and e.id in tainted_params:
        return True
    if isinstance(e, ast.IfExp):
        return _is_translated(fn, e.body, tainted_params) or _is_translated(fn, e.orelse, tainted_params)
    return False


def _translated_before_its_block(fn, var_call, iv):
    """The one arrangement in which a translated initial value is sound: the translation is an unconditional statement of the function
    that comes BEFORE the cursor opens a fresh block (`self._gc.add_statement(statement.block())`, unconditional as well), and the variable
    lives in that fresh block (its scope is the cursor's current scope, taken after the push).  Whatever code the value needs was then
    emitted ahead of the block, whose declarations follow it."""
    top = list(fn.body)
    e = strip_cast(iv)
    if not isinstance(e, ast.Name):
        return False
    ds = [st for st in top if isinstance(st, ast.Assign) and len(st.targets) == 1 and isinstance(st.targets[0], ast.Name) and st.targets[0].id == e.id]
    if len(ds) != 1 or len(defs_of(fn, e.id)) != 1:
        return False
    pushes = [st for st in top if isinstance(st, ast.Expr) and isinstance(st.value, ast.Call) and call_name(st.value) == "add_statement"
              and src(st.value.func.value) == "self._gc" and st.value.args and isinstance(st.value.args[0], ast.Call)
              and src(st.value.args[0].func) in ("statement.block", "block") and not st.value.args[0].args]
    scope = arg(var_call, 1, "scope")
    return (len(pushes) == 1 and ordk_end(ds[0]) < ordk(pushes[0]) < ordk(var_call)
            and scope is not None and src(scope) == "self._gc.current_scope()")


def check_hoisted_init(col, repo: Repo):
    """block.emit writes `type name (init);` for all variables before any statement of the block. An initial value built
    from a translated query expression refers to statements emitted later in the same block."""
    col.floor("C01.R5", 5)
    tr = repo.mod("common.ast_to_cpp_translator")
    # parameters named initial_value that receive a translated value at some call site
    tainted = {}
    for f in tr.all_funcs:
        for c in walk_no_nested(f.node):
            if isinstance(c, ast.Call):
                iv = kwarg(c, "initial_value")
                if iv is not None and call_name(c) not in ("cpp_variable",) and _is_translated(f.node, iv):
                    tainted.setdefault(call_name(c), set()).add("initial_value")
    for f in repo.all_functions():
        if not f.module.name.startswith("func_adl_xAOD"):
            continue
        for c in walk_no_nested(f.node):
            if isinstance(c, ast.Call) and call_name(c) == "cpp_variable":
                iv = kwarg(c, "initial_value") or (c.args[3] if len(c.args) > 3 else None)
                if iv is None:
                    continue
                tp = tainted.get(f.name, set())
                bad = _is_translated(f.node, iv, tp) and not _translated_before_its_block(f.node, c, iv)
                nm = c.args[0] if c.args else kwarg(c, "cpp_expression")
                label = src(nm.args[0]).strip("'\"") if isinstance(nm, ast.Call) and call_name(nm) == "unique_name" and nm.args else src(nm)[:30]
                col.add("C01.R5", f.short, f"initialiser-of:{label}", not bad,
                        f"initial_value={src(iv)[:60]} "
                        + ("comes from translating a query sub-expression: the declaration is emitted at the top of its block, before the "
                           "statements that compute the value (e.g. an aggregate used as bound or seed reads its zero-initialised accumulator)"
                           if bad else "is built from literals/already declared names"), f"{f.module.rel}:{c.lineno}")
    # the premise: block.emit writes declarations first
    st = repo.mod("common.statement")
    emit = st.classes["block"].methods.get("emit")
    loops = [n for n in emit.node.body if isinstance(n, ast.For)]
    ok = len(loops) == 2 and src(loops[0].iter) == "self._variables" and src(loops[1].iter) == "self._statements"
    col.info["block_emit_declarations_first"] = ok


def check_cache_guard(col, repo, methods):
    col.floor("C01.R6", 1)
    f = methods.get("visit")
    if f is None:
        raise AnalysisError("query_ast_visitor.visit not found")
    paths = enumerate_paths(f.node)
    ok = bool(paths)
    n_skip = 0
    for p in paths:
        visited = any(e.kind == "call" and src(e.node.func).endswith("FuncADLNodeVisitor.visit") for e in p.events)
        if visited:
            continue
        n_skip += 1
        # the skip path must have established current_scope().starts_with(<rep scope>)
        good = False
        for e in p.events:
            if e.kind == "cond" and "starts_with(" in src(e.node):
                t = e.node
                neg = False
                while isinstance(t, ast.UnaryOp) and isinstance(t.op, ast.Not):
                    neg = not neg
                    t = t.operand
                truth = e.taken ^ neg
                if truth and isinstance(t, ast.Call) and "current_scope()" in src(t.func.value):
                    good = True
        ok = ok and good
    col.add("C01.R6", f.short, "cached-rep-reused-only-under-starts_with", ok and n_skip >= 1,
            f"every path that skips re-translation ({n_skip}) must have tested current_scope().starts_with(<scope of the cached rep>)", f.loc)
    # the scope used is the node's recorded scope, defaulting to the rep's own
    ds = defs_of(f.node, "rep_scope")
    ok = len(ds) == 1 and src(ds[0]).replace('"', "'") == "getattr(node, 'scope', rep.scope())"
    col.add("C01.R6", f.short, "compares-against-node-scope-or-rep-scope", ok, f"rep_scope = {[src(d) for d in ds]}", f.loc)


def check_pipeline(col, repo: Repo):
    col.floor("C01.R7", 2)
    f = repo.method("executor", "apply_ast_transformations", hint="common.executor")
    paths = [p for p in enumerate_paths(f.node) if p.status == "return"]
    ok = bool(paths)
    why = ""
    for p in paths:
        order = []
        for e in p.events:
            if e.kind == "call":
                n = call_name(e.node)
                if n in PIPELINE and n not in order:
                    order.append(n)
        if order != PIPELINE:
            ok = False
            why = f"order on a returning path: {order}"
    col.add("C01.R7", f.short, "normalisation-order", ok,
            "metadata must be extracted and processed first, then method->call normalisation, aggregate shortcuts, chained-call "
            "simplification, known functions, and finally the C++ plug-in rewriter; " + why, f.loc)
    # each stage consumes the previous stage's tree: `a = stage(a)` / `a, md = extract_metadata(a)`
    tree = f.node.args.args[1].arg
    chain_ok = True
    for st in walk_no_nested(f.node):
        if isinstance(st, ast.Assign):
            calls = [c for c in ast.walk(st.value) if isinstance(c, ast.Call) and call_name(c) in PIPELINE and call_name(c) != "process_metadata"]
            for c in calls:
                tgt = src(st.targets[0])
                # the call (or its .visit) receives the tree variable and the result is bound to the tree variable
                par_ok = tgt == tree or tgt.startswith(f"({tree},") or tgt.startswith(f"{tree},")
                if call_name(c) in ("extract_metadata", "change_extension_functions_to_calls"):
                    arg_ok = len(c.args) == 1 and src(c.args[0]) == tree
                else:
                    outer = st.value
                    arg_ok = isinstance(outer, ast.Call) and call_name(outer) == "visit" and src(outer.args[0]) == tree
                chain_ok = chain_ok and par_ok and arg_ok
    col.add("C01.R7", f.short, "stages-chained-on-the-same-tree", chain_ok,
            f"every stage must take `{tree}` and rebind `{tree}`", f.loc)


def check_max_events(col):
    col.floor("C01.R8", 2)
    from sa.props._tr import check_cfg_filelist
    check_cfg_filelist(col, "C01.R8")
    for rel in ("func_adl_xAOD/template/cms/r5/analyzer_cfg.py", "func_adl_xAOD/template/cms/r7/analyzer_cfg.py"):
        p = REPO / rel
        if not p.exists():
            raise AnalysisError(f"{rel} not found")
        try:
            tree = ast.parse(p.read_text())
        except SyntaxError as e:
            raise AnalysisError(f"{rel} does not parse as python: {e}")
        val = None
        for n in ast.walk(tree):
            if isinstance(n, ast.Assign) and src(n.targets[0]) == "process.maxEvents":
                for k in ast.walk(n.value):
                    if isinstance(k, ast.keyword) and k.arg == "input" and isinstance(k.value, ast.Call) and k.value.args:
                        a = k.value.args[0]
                        try:
                            val = ast.literal_eval(a)
                        except Exception:
                            val = src(a)
        backend = rel.split("/")[-2]
        col.add("C01.R8", f"template:cms/{backend}/analyzer_cfg.py", "processes-all-events", val == -1,
                f"process.maxEvents input is {val}: only -1 processes every event of the input files (rows of later events are never written)", rel)
        skip = [n for n in ast.walk(tree) if isinstance(n, ast.keyword) and n.arg in ("SkipEvent", "IgnoreCompletely")]
        col.add("C01.R8", f"template:cms/{backend}/analyzer_cfg.py", "no-event-skipping-policy", not skip,
                "a SkipEvent/IgnoreCompletely policy makes cmsRun continue after an exception inside analyze(): the faulty event's rows are "
                "dropped silently and its half-filled vector columns leak into the next event", rel)


def check_top_level_sites(col, repo, methods, pan):
    """Representations published by handlers must carry the current (or an operand-derived) scope; a top-level scope makes
    the rep cache treat the value as valid everywhere and lets aggregates hoist it out of loops."""
    col.floor("C01.R9", 1)
    allowed = {("call_First", "false")}
    sites = []
    for name, f in list(methods.items()) + [("process_ast_node", pan)]:
        for c in walk_no_nested(f.node):
            if isinstance(c, ast.Call) and call_name(c) in ("top_level_scope", "gc_scope_top_level"):
                # which rep constructor is it an argument of?
                owner = None
                for k in walk_no_nested(f.node):
                    if isinstance(k, ast.Call) and call_name(k).startswith("cpp_") and any(a is c for a in list(k.args) + [kw.value for kw in k.keywords]):
                        owner = k
                lit = const_str(owner.args[0]) if owner is not None and owner.args else None
                sites.append((name, lit, f, c))
    for name, lit, f, c in sites:
        col.add("C01.R9", f.short, f"top-level-scope-site:{lit}", (name, lit) in allowed,
                f"a representation is created with top_level_scope() for `{lit}`; frozen sites are {sorted(allowed)} "
                "(the constant `false` assigned inside the first-element if)", f"{f.module.rel}:{c.lineno}")
    col.add("C01.R9", "query_ast_visitor", "sites-enumerated", True, f"{len(sites)} top-level-scope site(s) in handlers")


def check_fill_scope_table(col, repo: Repo):
    col.floor("C01.R10", 2)
    f = repo.function("find_fill_scope")
    names = None
    for n in ast.walk(f.node):
        if isinstance(n, ast.Compare) and isinstance(n.ops[0], ast.In) and isinstance(n.comparators[0], (ast.List, ast.Tuple, ast.Set)):
            names = sorted(const_str(e) for e in n.comparators[0].elts)
    col.add("C01.R10", f.short, "mainline-operators", names == ["EventDataset", "SelectMany", "Where"],
            f"operators that define where Fill goes are {names}; Select must not be one (it keeps its source's loop) and "
            "Where/SelectMany/EventDataset must be (they open the if/loop the row lives in)", f.loc)
    # the visitor class nested in find_fill_scope (whatever it and its result attribute are called): its visit_Call
    vc_nodes = [n for k in ast.walk(f.node) if isinstance(k, ast.ClassDef) for n in k.body if isinstance(n, ast.FunctionDef) and n.name == "visit_Call"]

    class _G:
        def __init__(self, node):
            self.node = node
    vc = [_G(n) for n in vc_nodes]
    ok = False
    for g in vc:
        first_guard = [n for n in g.node.body if isinstance(n, ast.If)]
        t0 = first_guard[0].test if first_guard else None
        result_attr = src(t0.left) if isinstance(t0, ast.Compare) and isinstance(t0.ops[0], ast.Is) and src(t0.comparators[0]) == "None" else None
        assigned_here = result_attr is not None and any(isinstance(a, ast.Assign) and src(a.targets[0]) == result_attr for a in ast.walk(g.node))
        ok = bool(first_guard) and result_attr is not None and result_attr.startswith("self.") and assigned_here and any(
            isinstance(c, ast.Call) and call_name(c) == "generic_visit" for c in ast.walk(first_guard[0]))
        cpp = any("CPPCodeValue" in src(n) for n in ast.walk(g.node))
        ok = ok and cpp
    col.add("C01.R10", f.short, "outermost-match-wins-and-code-values-count", ok,
            "the first (outermost) mainline call must win, the search must descend only until then, and injected code values (collections) count as mainline", f.loc)
