"""C14 - injected code blocks land once, in order, in their documented places.

A five-table agreement decided statically: InjectCodeBlock fields, README "Code
Blocks" keys, executor properties (_ib_fetch names), info[...] keys of
write_cpp_files, and the loop variables / regions of the templates.
"""
from __future__ import annotations

import ast

from sa.core.common import AnalysisError, Collector
from sa.core.pyfacts import Repo, arg, call_name, const_str, src, walk_no_nested
from sa.core.readme_tables import Readme
from sa.core import jinja_facts as J

EXPLANATION = (
    "Static agreement check between meta_data.InjectCodeBlock, README 'Code Blocks', executor._ib_fetch "
    "properties, the info[...] keys of executor.write_cpp_files and the jinja2 parse trees of the ATLAS/CMS "
    "templates: R1 the five tables name the same fields; R2 each field is iterated exactly once in its documented "
    "C++/CMake region (brace/paren matcher over tag-blanked text); R3 slots are bare {{var}} with no filter, no "
    "autoescape/finalize/trim options on the Environment, concatenation in block order by itertools.chain, blocks "
    "assigned per translation; R4 duplicate/conflict/unknown-field handling in process_metadata."
)
ASSUMPTIONS = [
    "jinja2 renders a bare {{ x }} of a string unaltered when autoescape/finalize are off (jinja2 semantics)",
    "the region names produced by the brace matcher correspond to the C++ places the README documents",
]

# field -> (template basename, expected region, literal prefix/suffix requirement)
PLACES = {
    "body_includes": ("body_include_files", "query.cxx", "include-area"),
    "header_includes": ("header_include_files", "query.h", "include-area"),
    "private_members": ("private_members", "query.h", "class-body:query:private"),
    "instance_initialization": ("instance_initialization", "query.cxx", "ctor-init:query"),
    "ctor_lines": ("ctor_lines", "query.cxx", "body:query::query"),
    "initialize_lines": ("initialize_lines", "query.cxx", "body:query::initialize"),
    "link_libraries": ("link_libraries", "package_CMakeLists.txt", "atlas_add_library:LINK_LIBRARIES"),
}


def dataclass_fields(cls_node: ast.ClassDef):
    out = []
    for st in cls_node.body:
        if isinstance(st, ast.AnnAssign) and isinstance(st.target, ast.Name):
            out.append((st.target.id, st))
    return out


def info_keys(repo: Repo):
    """info["key"] = <expr> assignments in executor.write_cpp_files -> {key: expr}."""
    f = repo.method("executor", "write_cpp_files", hint="common.executor")
    out = {}
    for st in walk_no_nested(f.node):
        if isinstance(st, ast.Assign) and isinstance(st.targets[0], ast.Subscript) and src(st.targets[0].value) == "info":
            k = const_str(st.targets[0].slice)
            if k:
                out[k] = st.value
    return f, out


def check(col: Collector, tier: str):
    repo = Repo()
    doc = Readme()
    tpls = J.load_all()
    col.info["templates"] = len(tpls)

    icb = repo.find_class("InjectCodeBlock")
    fields = [n for n, _ in dataclass_fields(icb.node)]
    data_fields = [f for f in fields if f != "name"]
    col.floor("C14.R1", 20)

    # R1a dataclass fields == README keys
    readme_keys = [k for k in doc.table_keys("Code Blocks") if k not in ("metadata_type",)]
    for k in sorted(set(readme_keys) | set(fields)):
        col.add("C14.R1", "InjectCodeBlock", f"readme-vs-field:{k}", (k in readme_keys) and (k in fields),
                f"field '{k}': in README={k in readme_keys} in dataclass={k in fields}", icb.module.rel)
    # every data field defaults to an empty list (absent field = nothing injected)
    for n, st in dataclass_fields(icb.node):
        if n == "name":
            continue
        v = st.value
        ok = isinstance(v, ast.Call) and call_name(v) == "field" and any(
            k.arg == "default_factory" and src(k.value) == "list" for k in v.keywords)
        col.add("C14.R1", "InjectCodeBlock", f"default-empty:{n}", ok, f"default of {n} is {src(v)}", f"{icb.module.rel}:{st.lineno}")

    # R1b executor properties: property -> _ib_fetch("<field>")
    ex = repo.find_class("executor", hint="common.executor")
    prop_field = {}
    for name, m in ex.methods.items():
        is_prop = any(src(d) == "property" for d in m.node.decorator_list)
        for c in ast.walk(m.node):
            if isinstance(c, ast.Call) and call_name(c) == "_ib_fetch" and is_prop:
                prop_field[name] = const_str(arg(c, 0))
    for fld in data_fields:
        want_prop = PLACES.get(fld, (None,))[0]
        col.add("C14.R1", "executor", f"property-for:{fld}", want_prop is not None and prop_field.get(want_prop) == fld,
                f"executor property {want_prop} must fetch field '{fld}' (found {prop_field.get(want_prop)!r})", ex.module.rel)
    for p, fld in prop_field.items():
        col.add("C14.R1", "executor", f"property-reads-existing-field:{p}", fld in data_fields,
                f"property {p} fetches '{fld}' which is not an InjectCodeBlock field", ex.module.rel)

    # R1c info keys built from the properties
    wf, info = info_keys(repo)
    for fld, (prop, tname, region) in PLACES.items():
        v = _resolve_local(wf.node, info.get(prop))
        if prop in ("body_include_files", "link_libraries"):
            # these two are merged with the translator's own lists: <translator list> + self.<prop>
            ok = v is not None and isinstance(v, ast.BinOp) and isinstance(v.op, ast.Add) and src(v.right) == f"self.{prop}"
        else:
            ok = v is not None and src(v) == f"self.{prop}"
        col.add("C14.R1", "executor.write_cpp_files", f"info-key:{prop}", ok,
                f"info['{prop}'] must carry self.{prop} (found {src(v) if v is not None else None})", wf.loc)

    # R2 place: each variable iterated exactly once across the ATLAS templates, in its region
    atlas = {r: t for r, t in tpls.items() if "/atlas/" in r}
    col.floor("C14.R2", 9)
    for fld, (var, tname, region) in PLACES.items():
        slots = [s for t in atlas.values() for s in t.slots if s.var == var]
        col.add("C14.R2", f"template.atlas:{var}", "iterated-exactly-once", len(slots) == 1,
                f"{var} is iterated {len(slots)} time(s) in the ATLAS templates: {[s.template.split('/')[-1] for s in slots]}")
        for s in slots:
            t = tpls[s.template]
            base = s.template.split("/")[-1]
            if base.endswith("CMakeLists.txt"):
                reg = J.cmake_region(t.src, s.offset)
            else:
                reg = J.cpp_region(t.src, s.offset)
            s.region = reg
            col.add("C14.R2", f"template.atlas:{var}", "region", base == tname and reg == region,
                    f"slot for {var} sits in {base}:{reg}, documented place is {tname}:{region}", f"{s.template}:{s.lineno}")
            if fld == "initialize_lines":
                col.add("C14.R2", f"template.atlas:{var}", "before-return",
                        J.statement_after_in_body(t.src, s.end_offset, "return"),
                        "initialize lines must precede the method's return statement", f"{s.template}:{s.lineno}")
            if fld in ("body_includes", "header_includes"):
                bt = s.body_text.strip()
                col.add("C14.R2", f"template.atlas:{var}", "include-form", bt == '#include "{{' + s.target + '}}"',
                        f"slot body is {bt!r}; documented form is #include \"<file>\"", f"{s.template}:{s.lineno}")
            if fld == "instance_initialization":
                bt = s.body_text.strip()
                col.add("C14.R2", f"template.atlas:{var}", "comma-separated", bt == ",{{" + s.target + "}}",
                        f"each initialiser must be emitted after a comma (slot body {bt!r})", f"{s.template}:{s.lineno}")
            if fld in ("private_members", "ctor_lines", "initialize_lines"):
                bt = s.body_text.strip()
                col.add("C14.R2", f"template.atlas:{var}", "line-form", bt == "{{" + s.target + "}}" and "\n" in s.body_text,
                        f"each line must be emitted alone on its own line (slot body {s.body_text!r})", f"{s.template}:{s.lineno}")
            if fld == "link_libraries":
                bt = s.body_text
                col.add("C14.R2", f"template.atlas:{var}", "space-separated", bt.strip() == "{{" + s.target + "}}" and bt != bt.strip(),
                        f"libraries must be separated by whitespace (slot body {bt!r})", f"{s.template}:{s.lineno}")
    # every line-oriented slot (all but the comma/blank separated ones) puts each item on a line of its own: jinja whitespace control
    # (`-%}` / `{%-`) around the loop body glues `#include "a.h"#include "b.h"` into one malformed line
    for r, t in tpls.items():
        for s in t.slots:
            if s.var in ("link_libraries", "instance_initialization"):
                continue
            col.add("C14.R2", f"template:{r.split('template/')[-1]}:{s.var}", "one-item-per-line", "\n" in s.body_text,
                    f"the loop body as jinja sees it is {s.body_text!r}: consecutive items are not separated by a line break", f"{r}:{s.lineno}")
    # CMS: body includes honoured
    for r, t in tpls.items():
        if "/cms/" in r and r.endswith("Analyzer.cc"):
            slots = [s for s in t.slots if s.var == "body_include_files"]
            ok = len(slots) == 1 and J.cpp_region(t.src, slots[0].offset) == "include-area" \
                and slots[0].body_text.strip() == '#include "{{' + slots[0].target + '}}"'
            col.add("C14.R2", f"template.cms:{r.split('/')[-2]}", "body-includes-honoured", ok,
                    "CMS Analyzer.cc must iterate body_include_files once, in the include area, as #include \"<file>\"", r)

    # R3 unaltered, ordered
    col.floor("C14.R3", 12)
    for r, t in tpls.items():
        for s in t.slots:
            col.add("C14.R3", f"template:{r.split('template/')[-1]}:{s.var}", "bare-unfiltered-slot",
                    s.bare and not s.loop_filters and not s.out_filters and not s.has_test_or_else and len(s.body_outputs) == 1,
                    f"slot outputs {s.body_outputs} loop filters {s.loop_filters} output filters {s.out_filters} "
                    f"test/else={s.has_test_or_else}: text must pass through once, unfiltered, in list order",
                    f"{r}:{s.lineno}")
    # Environment options
    envs = [c for c in walk_no_nested(wf.node) if isinstance(c, ast.Call) and call_name(c) == "Environment"]
    if not envs:
        raise AnalysisError("write_cpp_files does not construct a jinja2.Environment")
    for c in envs:
        kws = {k.arg for k in c.keywords}
        bad = kws - {"loader"}
        col.add("C14.R3", "executor.write_cpp_files", "environment-options", not bad and not c.args[1:],
                f"jinja2.Environment is created with options {sorted(bad)}: anything besides the loader "
                "(autoescape, finalize, trim_blocks, lstrip_blocks, custom delimiters...) can alter or drop injected text", wf.loc)
    # template rendering call passes the info dict itself
    from sa.props._tr import check_copy_template as _cct
    sub_r = Collector("C14")
    _cct(sub_r, "C14.R3", repo, details=("renders-with-info", "truncate", None))
    for o in sub_r.obs:
        if o.detail == "renders-with-info" and o.construct.endswith("executor._copy_template_file"):
            col.add("C14.R3", "executor._copy_template_file", "renders-with-info", o.ok, o.msg, o.loc)
    # _ib_fetch concatenates in order: however it is spelled, it returns getattr(block, <its parameter>) of every block, chained in list order
    ib = repo.method("executor", "_ib_fetch", hint="common.executor")
    from sa.props._tr import flat_concat, selected_by_type
    fc = flat_concat(ib.node)
    prm_ib = ib.node.args.args[1].arg if len(ib.node.args.args) > 1 else "?"
    ordered_ok = fc is not None and fc[0] == "self._inject_blocks" and src(fc[1]) == f"getattr({fc[2]}, {prm_ib})"
    uses_chain = flat_comp = iter_all = ordered_ok
    reorder = False
    col.add("C14.R3", "executor._ib_fetch", "ordered-concatenation", (uses_chain or flat_comp) and not reorder and iter_all,
            "fields must be concatenated in order (itertools.chain, or one comprehension flattening each block's value) over every block of "
            "self._inject_blocks, no set/sorted/reversed", ib.loc)
    getattr_ok = any(isinstance(c, ast.Call) and call_name(c) == "getattr" and src(c.args[1]) == "name" for c in ast.walk(ib.node))
    col.add("C14.R3", "executor._ib_fetch", "fetches-requested-field", getattr_ok, "getattr(md, name) must read the requested field", ib.loc)
    check_ib_fetch_verbatim(col, "C14.R3", repo)
    # the rendered text reaches the disk unaltered: strict UTF-8, in the base executor and in every backend override
    from sa.props._tr import check_copy_template
    sub_ct = Collector("C14")
    check_copy_template(sub_ct, "C14.R3", repo, details=("render", "truncate", "written-as-strict-utf-8"))
    for o in sub_ct.obs:
        if o.detail == "written-as-strict-utf-8":
            col.add("C14.R3", o.construct, o.detail, o.ok, o.msg, o.loc)
    # blocks assigned (not appended) per translation, from the whole metadata list, filtered only by type
    aat = repo.method("executor", "apply_ast_transformations", hint="common.executor")
    assigned = [st for st in walk_no_nested(aat.node) if isinstance(st, ast.Assign) and src(st.targets[0]) == "self._inject_blocks"]
    appended = [c for c in walk_no_nested(aat.node) if isinstance(c, ast.Call) and call_name(c) in ("append", "extend", "insert")
                and src(c.func.value) == "self._inject_blocks"]
    pmv = [n.targets[0].id for n in walk_no_nested(aat.node) if isinstance(n, ast.Assign) and isinstance(n.value, ast.Call)
           and call_name(n.value) == "process_metadata" and isinstance(n.targets[0], ast.Name)]
    sel = selected_by_type(aat.node, "self._inject_blocks", "InjectCodeBlock")
    ok_assign = len(assigned) == 1 and len(pmv) == 1 and sel == pmv[0] and (not appended or src(assigned[0].value) in ("[]", "list()"))
    if not ok_assign and not assigned and len(appended) == 1:
        # equivalent form: appended item by item in metadata order, starting from the list that reset() emptied (the pending-
        # translation protocol checked by C07 guarantees reset ran since the previous query)
        from sa.core.paths import enclosing, guards, parent_map
        pma = parent_map(aat.node)
        lps = enclosing(aat.node, appended[0], (ast.For,), pma)
        gs = [src(t) for t, tr in guards(aat.node, appended[0], pma) if tr]
        rs = repo.method("executor", "reset", hint="common.executor")
        cleared = any(isinstance(n, ast.Assign) and src(n.targets[0]) == "self._inject_blocks" and src(n.value) in ("[]", "list()") for n in ast.walk(rs.node))
        ok_assign = len(lps) == 1 and src(lps[0].iter) == "cpp_functions" and call_name(appended[0]) == "append" and \
            src(appended[0].args[0]) == src(lps[0].target) and any("isinstance" in g and "InjectCodeBlock" in g for g in gs) and cleared
    col.add("C14.R3", "executor.apply_ast_transformations", "blocks-collected-per-translation", ok_assign,
            "self._inject_blocks must hold exactly the InjectCodeBlock items of this query's metadata, in order (assigned from them, or appended "
            "one by one to the list reset() emptied)", aat.loc)

    # R4 duplicates and conflicts
    check_r4(col, repo)


def _resolve_local(fn, v, depth=0):
    """Follow a local name to its single assignment (aliases such as x = self.header_include_files)."""
    while isinstance(v, ast.Name) and depth < 5:
        assigns = [st for st in walk_no_nested(fn) if isinstance(st, ast.Assign) and isinstance(st.targets[0], ast.Name)
                   and st.targets[0].id == v.id]
        if len(assigns) != 1:
            return v
        v = assigns[0].value
        depth += 1
    return v


def check_r4(col: Collector, repo: Repo):
    pm = repo.function("process_metadata")
    ok_fn = repo.function("ok_to_add_code_block")
    col.floor("C14.R4", 4)
    # the inject_code branch
    branch = None
    for n in ast.walk(pm.node):
        if isinstance(n, ast.If) and isinstance(n.test, ast.Compare) and const_str(n.test.comparators[0]) == "inject_code":
            branch = n
    if branch is None:
        raise AnalysisError("process_metadata has no inject_code branch")
    body = ast.Module(body=branch.body, type_ignores=[])
    appends = [c for c in ast.walk(body) if isinstance(c, ast.Call) and call_name(c) == "append"]
    # the one append stands under ok_to_add_code_block(<the appended block>, <the list appended to>) being true (an atom of the closed guard
    # set: the test may be combined with others, nested, or written as a guard clause)
    guarded = False
    if len(appends) == 1 and appends[0].args:
        from sa.core.paths import guards as _guards, parent_map as _pm
        want = f"ok_to_add_code_block({src(appends[0].args[0])}, {src(appends[0].func.value)})"
        guarded = (want, True) in {(src(t), tr_) for t, tr_ in _guards(pm.node, appends[0], _pm(pm.node))}
    col.add("C14.R4", "process_metadata.inject_code", "append-guarded-by-duplicate-check", guarded,
            "the block must be appended exactly once and only if ok_to_add_code_block(spec, already-seen) says so", pm.loc)
    # TypeError -> ValueError around InjectCodeBlock(**info)
    conv = False
    for n in ast.walk(body):
        if isinstance(n, ast.Try):
            builds = any(isinstance(c, ast.Call) and call_name(c) == "InjectCodeBlock" and any(k.arg is None for k in c.keywords)
                         for c in ast.walk(ast.Module(body=n.body, type_ignores=[])))
            for h in n.handlers:
                if h.type is not None and "TypeError" in src(h.type):
                    raises = [r for r in ast.walk(h) if isinstance(r, ast.Raise) and r.exc is not None and "ValueError" in src(r.exc)]
                    conv = builds and bool(raises)
    col.add("C14.R4", "process_metadata.inject_code", "unknown-field-is-ValueError", conv,
            "InjectCodeBlock(**info) must be built from all keys and its TypeError (unknown field) turned into ValueError", pm.loc)
    # the 'metadata_type' key is removed, nothing else
    # stated on the dict that is unpacked into InjectCodeBlock(**X): X is md without exactly the key 'metadata_type' - a copy of md with that key
    # deleted / popped, or a comprehension over md.items() that leaves out that key and nothing else
    ctor = [c for c in ast.walk(body) if isinstance(c, ast.Call) and call_name(c) == "InjectCodeBlock" and any(k.arg is None for k in c.keywords)]
    removed_ok = False
    removed = "?"
    if len(ctor) == 1:
        x = next(k.value for k in ctor[0].keywords if k.arg is None)
        xs = src(x)
        dels = [src(d.targets[0]) for d in ast.walk(body) if isinstance(d, ast.Delete) and len(d.targets) == 1]
        pops = [c for c in ast.walk(body) if isinstance(c, ast.Call) and call_name(c) == "pop" and src(c.func.value) == xs]
        defs = [st.value for st in ast.walk(body) if isinstance(st, ast.Assign) and len(st.targets) == 1 and src(st.targets[0]) == xs]
        removed = dels + [src(c) for c in pops]
        if len(defs) == 1 and isinstance(x, ast.Name):
            d = defs[0]
            copy_of_md = (isinstance(d, ast.Call) and call_name(d) in ("dict", "copy") and (src(d.args[0]) if d.args else src(d.func.value)) == "md") \
                or (isinstance(d, ast.Dict) and d.keys == [None] and src(d.values[0]) == "md")
            if copy_of_md:
                one_del = dels == [f"{xs}['metadata_type']"] and not pops
                one_pop = not dels and len(pops) == 1 and pops[0].args and const_str(pops[0].args[0]) == "metadata_type"
                removed_ok = one_del or one_pop
            elif isinstance(d, ast.DictComp) and len(d.generators) == 1 and src(d.generators[0].iter) == "md.items()" and len(d.generators[0].ifs) == 1 \
                    and isinstance(d.generators[0].target, ast.Tuple) and len(d.generators[0].target.elts) == 2 \
                    and src(d.key) == src(d.generators[0].target.elts[0]) and src(d.value) == src(d.generators[0].target.elts[1]) and not dels and not pops:
                t_ = d.generators[0].ifs[0]
                kname = src(d.generators[0].target.elts[0])
                removed = [src(t_)]
                removed_ok = isinstance(t_, ast.Compare) and len(t_.ops) == 1 and src(t_.left) == kname and (
                    (isinstance(t_.ops[0], ast.NotEq) and const_str(t_.comparators[0]) == "metadata_type") or
                    (isinstance(t_.ops[0], ast.NotIn) and isinstance(t_.comparators[0], (ast.Tuple, ast.List, ast.Set))
                     and [const_str(e) for e in t_.comparators[0].elts] == ["metadata_type"]))
    # ... and the block is built whenever at least one field is given: the only length condition on the field dict is "not empty"
    if len(ctor) == 1 and isinstance(x, ast.Name):
        from sa.core.paths import guards as _g2, parent_map as _pm2, len_values, len_aliases, _LEN_ALL, _LEN_TOP
        vs = _LEN_ALL
        for t_, tr_ in _g2(pm.node, ctor[0], _pm2(pm.node)):
            if isinstance(t_, (ast.For, ast.While)):
                continue
            r_ = len_values(t_, xs, tr_, len_aliases(pm.node))
            if r_ is not None:
                vs = vs & r_
        col.add("C14.R4", "process_metadata.inject_code", "built-whenever-a-field-is-given", vs >= frozenset(range(1, _LEN_TOP + 1)),
                f"the block must be constructed for every non-empty set of fields; the conditions on the way admit only sizes {sorted(vs)[:4]}.. "
                "(a block with a single field - its name - still competes with other blocks of that name)", pm.loc)
    col.add("C14.R4", "process_metadata.inject_code", "only-metadata_type-removed", removed_ok,
            f"keys removed before construction: {removed}; only metadata_type may be dropped (a dropped key is silently ignored input)", pm.loc)
    # ok_to_add_code_block: loop over all, same-name test, equality -> False, inequality -> raise, else True
    n = ok_fn.node
    s = src(n)
    loops = [x for x in n.body if isinstance(x, ast.For)]
    ok = False
    if len(loops) == 1:
        lp = loops[0]
        ifs = [x for x in lp.body if isinstance(x, ast.If)]
        if len(ifs) == 1:
            t = src(ifs[0].test)
            # same-name test between the loop variable and the new block; the kind restriction may be
            # spelled isinstance(b, InjectCodeBlock) or type(b) is type(spec) (both leave inject blocks alike)
            lv = src(lp.target)
            same_name = any(isinstance(c, ast.Compare) and isinstance(c.ops[0], ast.Eq)
                            and {src(c.left), src(c.comparators[0])} == {f"{lv}.name", f"{n.args.args[0].arg}.name"}
                            for c in ast.walk(ifs[0].test))
            inner_ifs = [x for x in ifs[0].body if isinstance(x, ast.If)]
            eq_false = len(inner_ifs) == 1 and isinstance(inner_ifs[0].test, ast.Compare) and isinstance(inner_ifs[0].test.ops[0], ast.Eq) \
                and any(isinstance(r, ast.Return) and src(r.value) == "False" for r in inner_ifs[0].body)
            raises = any(isinstance(r, ast.Raise) and "ValueError" in src(r.exc) for r in ifs[0].body)
            tail_true = isinstance(n.body[-1], ast.Return) and src(n.body[-1].value) == "True"
            ok = same_name and eq_false and raises and tail_true and src(lp.iter) in [a.arg for a in n.args.args]
    col.add("C14.R4", "ok_to_add_code_block", "same-name-equal-false-unequal-raise", ok,
            "must scan every earlier block: same name & equal -> False, same name & different -> ValueError, otherwise True", ok_fn.loc)
    # the list scanned holds every kind of specification (functions, collections, job scripts, inject blocks): only inject
    # blocks compete for an inject block's name - either the test restricts the kind or every caller passes a filtered list
    kind = False
    for lp in [x for x in ast.walk(n) if isinstance(x, ast.For)]:
        lv = src(lp.target)
        for c in ast.walk(lp):
            if isinstance(c, ast.Call) and call_name(c) == "isinstance" and len(c.args) == 2 and src(c.args[0]) == lv and "InjectCodeBlock" in src(c.args[1]):
                kind = True
            if isinstance(c, ast.Compare) and isinstance(c.ops[0], (ast.Is, ast.Eq)) and {src(c.left), src(c.comparators[0])} == {f"type({lv})", f"type({n.args.args[0].arg})"}:
                kind = True
    if not kind:
        callers = [c for f in repo.all_functions() for c in walk_no_nested(f.node) if isinstance(c, ast.Call) and call_name(c) == "ok_to_add_code_block"]
        kind = bool(callers) and all(len(c.args) > 1 and isinstance(c.args[1], (ast.ListComp, ast.GeneratorExp)) and "InjectCodeBlock" in src(c.args[1]) for c in callers)
    col.add("C14.R4", "ok_to_add_code_block", "name-competes-with-inject-blocks-only", kind,
            "the duplicate test must be restricted to InjectCodeBlock entries: a job script, function or collection of the same name declared further out "
            "is not a duplicate, and whether it is met first depends only on where along the chain the metadata was attached", ok_fn.loc)

    from sa.props._tr import import_obligations
    import_obligations(col, "C14.R3", "c07", lambda o: "_inject_blocks" in o.construct and o.rule in ("C07.R1", "C07.R3"),
                       "blocks kept in a cell that outlives the query (a class-level list, an attribute reset() does not re-create) are emitted "
                       "again for every later query: `exactly once` and `only this query's blocks` both fail")


def _flattening_comprehension(fn) -> bool:
    for c in ast.walk(fn):
        if isinstance(c, (ast.ListComp, ast.GeneratorExp)) and len(c.generators) == 2:
            g1, g2 = c.generators
            if src(g1.iter) == "self._inject_blocks" and not g1.ifs and not g2.ifs and isinstance(g2.iter, ast.Call) and call_name(g2.iter) == "getattr" \
                    and src(g2.iter.args[0]) == src(g1.target) and src(c.elt) == src(g2.target):
                return True
    return False


def check_ib_fetch_verbatim(col: Collector, rule: str, repo: Repo):
    """The field values are chained as they are: no per-value wrapper that treats lists, tuples or strings differently
    (a tuple-valued field - what a Python AST carries where qastle text carries a list - must expand like a list)."""
    ib = repo.method("executor", "_ib_fetch", hint="common.executor")
    from sa.props._tr import flat_concat
    fc = flat_concat(ib.node)
    ok = fc is not None and fc[0] == "self._inject_blocks" and isinstance(fc[1], ast.Call) and call_name(fc[1]) == "getattr" and src(fc[1].args[0]) == fc[2]
    typed = [src(c) for c in ast.walk(ib.node) if isinstance(c, ast.Call) and call_name(c) in ("isinstance", "type")]
    col.add(rule, "executor._ib_fetch", "field-values-chained-as-they-are", ok and not typed,
            f"each block's field value must be chained directly (getattr(md, name)); type-dependent wrapping {typed} makes a tuple-valued field "
            "(Python AST) expand differently from a list-valued one (qastle text)", ib.loc)
