"""C05 - the rows written for an event depend on that event only.

Decided: the inventory of C++ state that outlives one event (class-level
variables), that every vector column is cleared right after the Fill that
wrote it, that scalar columns are assigned unconditionally, that temporaries
are block locals with initial values, that the templates hold no other data
members or statics, and that neither the job configuration nor the runner keeps
events/inputs from an earlier event or run.  Not decided: placement of a
push_back relative to Fill/clear for an arbitrary composition; opaque user C++.
"""
from __future__ import annotations

import ast
import re

from sa.core.common import AnalysisError, Collector, REPO
from sa.core.pyfacts import Repo, arg, call_name, const_str, kwarg, src, walk_no_nested
from sa.core.scope_typestate import ScopeInterp
from sa.core import jinja_facts as J
from sa.props._tr import defs_of, resolve_name, visitor_methods

EXPLANATION = (
    "R1 who may declare a class-level (cross-event) C++ variable: exactly the TTree columns (call_ResultTTree) and the fields of "
    "injected code values (miniAOD tokens, assigned only in booking code); R2 in call_ResultTTree every column for which "
    "rep_is_collection holds - and nothing narrower - gets a container_clear of the same variable that received the push_backs, "
    "emitted after the Fill statement at the same restored scope; R3 scalar columns are assigned by an unconditional set_var; R4 "
    "temporaries (accumulators, first flags, 2-D storage vectors) are declared on blocks, never on the class, and carry an "
    "initial value where they are read before being assigned; R5 the class bodies of query.h / Analyzer.cc hold no data member "
    "besides myTree and the two slots, and no static or namespace-scope variable; R6 the CMS job configurations do not skip "
    "failed events (the clear after Fill would be skipped with them); R7 the runner scripts rewrite the input list per run."
)
ASSUMPTIONS = [
    "block-local C++ variables are re-created each time their block is entered",
    "the per-event method (execute/analyze) is the only code run per event; booking code runs once",
]


def check(col: Collector, tier: str):
    repo = Repo()
    m = visitor_methods(repo)
    # ------------------------------------------------------------ R1
    col.floor("C05.R1", 3)
    callers = {}
    for f in repo.all_functions():
        for c in walk_no_nested(f.node):
            if isinstance(c, ast.Call) and call_name(c) == "declare_class_variable":
                callers.setdefault(f.short, []).append(c)
    allowed = {"query_ast_visitor.call_ResultTTree": "TTree columns", "process_ast_node": "fields of injected code values (tokens)"}
    for k, v in callers.items():
        col.add("C05.R1", k, "may-declare-class-level-variable", k in allowed,
                f"{k} declares a class-level C++ variable, which keeps its value from one event to the next; only {sorted(allowed)} may", f"{v[0].lineno}")
    col.add("C05.R1", "generated_code.declare_class_variable", "callers-enumerated", set(callers) == set(allowed),
            f"callers are {sorted(callers)}")
    pan = repo.function("process_ast_node")
    # token fields: declared as class variables and assigned only by booking statements
    ok = False
    for n in walk_no_nested(pan.node):
        if isinstance(n, ast.For) and src(n.iter).endswith(".fields"):
            decl = [c for c in ast.walk(n) if isinstance(c, ast.Call) and call_name(c) == "declare_class_variable"]
            book = [c for c in ast.walk(n) if isinstance(c, ast.Call) and call_name(c) == "add_book_statement"]
            stmt = [c for c in ast.walk(n) if isinstance(c, ast.Call) and call_name(c) == "add_statement"]
            ok = len(decl) == 1 and len(book) == 1 and not stmt
    col.add("C05.R1", pan.short, "fields-assigned-in-booking-code-only", ok,
            "a code value's fields must be initialised by add_book_statement (once per job), never by a per-event statement", pan.loc)

    # ------------------------------------------------------------ R2
    col.floor("C05.R2", 4)
    f = m.get("call_ResultTTree")
    if f is None:
        raise AnalysisError("call_ResultTTree not found")
    fn = f.node
    clears = [c for c in ast.walk(fn) if isinstance(c, ast.Call) and call_name(c) == "container_clear"]
    okc = len(clears) == 1
    col.add("C05.R2", f.short, "single-clear-site", okc, f"{len(clears)} container_clear sites", f.loc)
    if okc:
        from sa.core.paths import enclosing, guards, parent_map
        pm = parent_map(fn)
        cl = clears[0]
        loops = enclosing(fn, cl, (ast.For,), pm)
        gs = [(t, tr) for t, tr in guards(loops[0] if loops else fn, cl, pm) if not isinstance(t, ast.Constant)]
        ok_loop = len(loops) == 1 and isinstance(loops[0].iter, ast.Call) and call_name(loops[0].iter) == "zip" and \
            [src(a) for a in loops[0].iter.args] == ["seq_values.values()", "var_names"]
        col.add("C05.R2", f.short, "clear-loop-covers-every-column", ok_loop,
                f"the clearing loop must run over zip(seq_values.values(), var_names) - all columns (found {src(loops[0].iter) if loops else None})", f.loc)
        lv = src(loops[0].target) if loops else "?"
        # guard: exactly rep_is_collection(<value element>)
        want_guard = [f"rep_is_collection({lv}[0])"] if loops and isinstance(loops[0].target, ast.Name) else None
        if loops and isinstance(loops[0].target, ast.Tuple):
            want_guard = [f"rep_is_collection({src(loops[0].target.elts[0])})"]
        have = [src(t) for t, tr in gs if tr]
        col.add("C05.R2", f.short, "clear-guard-is-exactly-rep_is_collection", have == want_guard and len(gs) == 1,
                f"the clear must be emitted for every column that is filled by push_back, i.e. under rep_is_collection(value) and nothing narrower "
                f"(guards found: {[src(t) + '=' + str(tr) for t, tr in gs]}): a narrower test leaves e.g. vector<vector<>> columns growing from event to event", f.loc)
        # ... and the predicate itself: true for sequences and for collections, false otherwise
        # (as a truth table over its isinstance tests: an if chain, one `or`, a tuple of classes all read the same)
        from sa.core.paths import predicate_table
        ric = repo.function("rep_is_collection")
        prm = ric.node.args.args[0].arg
        atoms, table = predicate_table(ric.node)
        tested = set()
        for a in atoms:
            m_ = re.fullmatch(r"isinstance\(" + re.escape(prm) + r", (?:\w+\.)*(\w+)\)", a)
            tested.add(m_.group(1) if m_ else a)
        verdicts = sorted((bits, r) for bits, r in table.items())
        okp = tested == {"cpp_sequence", "cpp_collection"} and all(r is any(bits) for bits, r in table.items())
        col.add("C05.R2", ric.short, "predicate-true-for-sequences-and-collections-only", okp,
                f"rep_is_collection must return True exactly when the value is a cpp_sequence or a cpp_collection (kinds tested {sorted(tested)}, "
                f"(any test taken, returned) per path {verdicts}); it decides which columns are filled by push_back and cleared after Fill", ric.loc)
        # cleared variable is the var_names entry's variable
        a = cl.args[0]
        okv = src(a) in (f"{lv}[1][1]",) or (loops and isinstance(loops[0].target, ast.Tuple) and src(a) == f"{src(loops[0].target.elts[1])}[1]")
        col.add("C05.R2", f.short, "clears-the-column-variable", okv, f"container_clear({src(a)}) must receive the column's class variable (var_names entry [1])", f.loc)
        # order: set_scope(scope_fill); add Fill; clears; no cursor move in between
        si = ScopeInterp(repo)
        good = True
        for recs, end, st in si.run(f):
            if st == "raise":
                continue
            acts = [r for r in recs if r.kind in ("push", "pop", "restore", "set-derived", "nested", "helper", "emit")]
            fills = [i for i, r in enumerate(acts) if r.kind == "emit" and r.what == "create_ttree_fill_obj"]
            if len(fills) != 1:
                good = False
                continue
            i = fills[0]
            before = acts[i - 1] if i else None
            # helper create_ttree_fill_obj is evaluated as an argument right before; skip it
            j = i - 1
            while j >= 0 and acts[j].kind == "helper" and acts[j].what == "create_ttree_fill_obj":
                j -= 1
            good = good and j >= 0 and acts[j].kind == "set-derived" and acts[j].what == "scope_fill"
            after = acts[i + 1:]
            k = 0
            while k < len(after) and after[k].kind == "emit" and after[k].what == "container_clear":
                k += 1
            good = good and k < len(after) and after[k].kind == "restore"
        col.add("C05.R2", f.short, "clears-follow-fill-at-the-same-scope", good,
                "order must be set_scope(fill scope), Fill, the clears, and only then the restore of the entry token", f.loc)
    # the push_back target in code_fill_ttree is the column variable handed in
    g = m.get("code_fill_ttree")
    pb = [c for c in ast.walk(g.node) if isinstance(c, ast.Call) and call_name(c) == "push_back"]
    ok = len(pb) == 1 and src(pb[0].args[0]) == "accumulator"
    fcl = [c for c in ast.walk(g.node) if isinstance(c, ast.Call) and call_name(c) == "fill_collection_levels"]
    top = [c for c in fcl if src(c.args[1]) == "e_name"]
    col.add("C05.R2", g.short, "push_back-into-the-column-variable", ok and len(top) == 1,
            "the outermost level must push into e_name (the class variable that is cleared), inner levels into their block-local storage", g.loc)

    # ------------------------------------------------------------ R3
    col.floor("C05.R3", 1)
    sv = [c for c in ast.walk(g.node) if isinstance(c, ast.Call) and call_name(c) == "set_var"]
    from sa.core.paths import guards as _g, parent_map as _pm
    pmg = _pm(g.node)
    ok = len(sv) == 1 and [src(a) for a in sv[0].args] == ["e_name", "e_rep"]
    if ok:
        gs = [(src(t), tr) for t, tr in _g(g.node, sv[0], pmg)]
        ok = gs == [("rep_is_collection(e_rep)", False)] or gs == [("isinstance(e_rep, crep.cpp_value)", True), ("rep_is_collection(e_rep)", False)]
    col.add("C05.R3", g.short, "scalar-column-assigned-unconditionally", ok,
            "a non-collection column must get set_var(e_name, e_rep) with no further condition (a skipped assignment keeps the previous event's value)", g.loc)

    # ------------------------------------------------------------ R4
    col.floor("C05.R4", 4)
    # 2-D storage: declared on the scope of the enclosing sequence, which must not be top level
    st_decl = [c for c in ast.walk(g.node) if isinstance(c, ast.Call) and call_name(c) == "declare_variable"]
    ok = len(st_decl) == 1 and src(st_decl[0].args[0]) == "storage" and src(st_decl[0].func.value) == "scope"
    asserts = [a for a in ast.walk(g.node) if isinstance(a, ast.Assert) and "gc_scope_top_level" in src(a.test) and "not isinstance(scope" in src(a.test)]
    sc = [d for d in defs_of([n for n in ast.walk(g.node) if isinstance(n, ast.FunctionDef) and n.name == "fill_collection_levels"][0], "scope")]
    ok = ok and bool(asserts) and any("as_sequence(find_fill_scope(seq.node())).scope()" in src(d).replace(" ", "") for d in sc)
    col.add("C05.R4", g.short, "2d-storage-is-a-block-local-of-the-outer-loop", ok,
            "the inner storage vector must be declared on the scope of the enclosing sequence (inside the outer loop), never at class/top level", g.loc)
    # every cpp_variable that is declared through a block and read before assignment has an initial value:
    # accumulators and first flags (the two read-modify-write temporaries)
    for hname, label in (("_create_accumulator", "aggResult"), ("call_First", "is_first")):
        h = m.get(hname)
        vs = [c for c in ast.walk(h.node) if isinstance(c, ast.Call) and call_name(c) == "cpp_variable"]
        ok = len(vs) == 1
        if ok:
            iv = kwarg(vs[0], "initial_value") or (vs[0].args[3] if len(vs[0].args) > 3 else None)
            ok = iv is not None and not (isinstance(iv, ast.Constant) and iv.value is None)
            if ok and isinstance(iv, ast.IfExp):
                ok = not any(isinstance(x, ast.Constant) and x.value is None for x in (iv.body, iv.orelse))
        col.add("C05.R4", h.short, f"read-modify-write-temporary-initialised:{label}", ok,
                "a temporary that is read before it is written in each event (accumulator, first flag) must be declared with an initial value", h.loc)
    # no handler caches a rep/variable on the visitor instance (self.<x> = ...) outside __init__
    bad = []
    for name, h in m.items():
        if name == "__init__":
            continue
        for n in walk_no_nested(h.node):
            if isinstance(n, (ast.Assign, ast.AugAssign)):
                for t in (n.targets if isinstance(n, ast.Assign) else [n.target]):
                    if isinstance(t, ast.Attribute) and isinstance(t.value, ast.Name) and t.value.id == "self":
                        bad.append(f"{name}: {src(t)}")
    col.add("C05.R4", "query_ast_visitor", "handlers-keep-no-state-on-the-visitor", not bad,
            f"handlers assigning visitor attributes: {bad}")

    from sa.props._tr import check_container_elements, import_obligations
    check_container_elements(col, "C05.R8", m)
    import_obligations(col, "C05.R8", "c17", lambda o: o.detail == "all-files-kept-in-order",
                       "a file list that is de-duplicated or re-ordered makes one job differ from the same files split across jobs")
    import_obligations(col, "C05.R8", "c16", lambda o: o.rule == "C16.R2" and o.detail.startswith("step-context:") and ("cmsRun" in o.detail or "ATestRun_eljob" in o.detail),
                       "a job step whose failure is masked lets the script deliver the output the PREVIOUS run left in the build directory")
    import_obligations(col, "C05.R8", "c16", lambda o: o.detail == "delivery-command-overwrites",
                       "a run that keeps the previous run's output delivers another job's rows")
    # ------------------------------------------------------------ R9 every block-local that feeds a column is assigned on every path of ITS event
    # (a local that is read without having been assigned holds whatever the previous event or row left in its slot)
    from sa.props.c04 import check_first, check_ifexp
    from sa.props._tr import check_no_state_on_query_nodes
    sub = Collector("C05")
    si = ScopeInterp(repo)
    check_first(sub, repo, si, m)
    check_ifexp(sub, repo, si, m)
    col.floor("C05.R9", 4)
    for o in sub.obs:
        if o.detail in ("failure-if-attached-after-the-loop", "false-arm-translated-under-else-after-if-closed", "true-arm-translated-under-if(test)", "translates-test-then-body-then-orelse",
                        "both-arms-assign-the-same-result"):
            col.add("C05.R9", o.construct, o.detail, o.ok, o.msg + " (otherwise an uninitialised local is written into the row: it holds the previous event's value)", o.loc)
    check_no_state_on_query_nodes(col, "C05.R9", repo)
    # a scalar column is assigned where its value is computed if that is inside the fill's block, else at the fill: assigned in an
    # enclosing block AFTER the inner loop that fills, every row carries the previous element's (or event's) value
    from sa.props._tr import check_core_scope_semantics
    subc = Collector("C05")
    check_core_scope_semantics(subc, "C05.R9", repo)
    for o in subc.obs:
        if o.construct.endswith("code_fill_ttree"):
            col.add("C05.R9", o.construct, o.detail, o.ok, o.msg, o.loc)
    # R10 a drop-in function is a pure function of its arguments: the table maps Python names to functions of namespace std only
    # (a generator such as gRandom->Rndm carries state from every earlier event, rejected ones included)
    cf = repo.mod("common.cpp_functions")
    rows = [c for c in ast.walk(cf.tree) if isinstance(c, ast.Call) and call_name(c) == "add_function_mapping" and len(c.args) >= 2]
    impure = [f"{const_str(c.args[0])} -> {const_str(c.args[1])}" for c in rows if not (const_str(c.args[1]) or "").startswith("std::")]
    if len(rows) < 40:
        raise AnalysisError(f"C05.R10: {len(rows)} function table rows found (at least 40 confirmed by hand)")
    col.add("C05.R10", "cpp_functions.table", "drop-in-functions-are-stateless", not impure,
            f"{len(rows)} rows; rows whose C++ side is not a function of namespace std: {impure}", cf.rel)
    # ------------------------------------------------------------ R5 templates
    check_templates(col)
    # ------------------------------------------------------------ R6 / R7
    check_cfg_and_runner(col)
    check_no_jump_in_emitted_code(col, repo)


def _members(src_text: str, class_name: str):
    """(data members, function declarations) at depth 1 of `class <name> ... { ... };` in tag-blanked, comment-stripped text."""
    code = J._strip_cpp(J.blank_tags(src_text))
    m = re.search(r"\bclass\s+" + class_name + r"\b[^;{]*\{", code)
    if not m:
        return None
    i = m.end()
    depth = 1
    stmt = ""
    data, funcs = [], []
    while i < len(code) and depth > 0:
        c = code[i]
        if c == "{":
            depth += 1
        elif c == "}":
            depth -= 1
        elif c == ";" and depth == 1:
            s = " ".join(stmt.split())
            s = re.sub(r"^(public|private|protected)\s*:\s*", "", s)
            s = re.sub(r"^(public|private|protected)\s*:\s*", "", s)
            if s:
                (funcs if "(" in s else data).append(s)
            stmt = ""
            i += 1
            continue
        if depth >= 1:
            stmt += c
        i += 1
    return data, funcs


def check_templates(col: Collector):
    col.floor("C05.R5", 6)
    tpls = J.load_all()
    for rel, cname, allowed in (("func_adl_xAOD/template/atlas/r21/query.h", "query", set()),
                                ("func_adl_xAOD/template/cms/r5/Analyzer.cc", "Analyzer", {"TTree *myTree"}),
                                ("func_adl_xAOD/template/cms/r7/Analyzer.cc", "Analyzer", {"TTree *myTree"})):
        t = tpls.get(rel)
        if t is None:
            raise AnalysisError(f"{rel} not found")
        mem = _members(t.src, cname)
        if mem is None:
            raise AnalysisError(f"{rel}: class {cname} not found")
        data, funcs = mem
        extra = [d for d in data if d not in allowed]
        col.add("C05.R5", f"template:{rel.split('template/')[-1]}", "no-data-member-beyond-tree-and-slots", not extra,
                f"data members of class {cname} besides the slots: {data}; allowed {sorted(allowed)} - any other member carries a value across events", rel)
        code = J._strip_cpp(J.blank_tags(t.src))
        # static / namespace-scope variables: `static <type> name ...;` without '(' at any depth, or depth-0 declarations
        statics = [s.strip() for s in re.findall(r"\bstatic\b[^;{(]*;", code)]
        col.add("C05.R5", f"template:{rel.split('template/')[-1]}", "no-static-variable", not statics,
                f"static variables: {statics}", rel)
        depth = 0
        stmt = ""
        globs = []
        for ch in code:
            if ch == "{":
                depth += 1
                stmt = ""
            elif ch == "}":
                depth -= 1
                stmt = ""
            elif ch == ";" and depth == 0:
                s = " ".join(stmt.split())
                if s and "(" not in s and not s.startswith(("class ", "struct ", "using ", "typedef ", "namespace ")):
                    globs.append(s)
                stmt = ""
            elif depth == 0:
                stmt += ch
        col.add("C05.R5", f"template:{rel.split('template/')[-1]}", "no-namespace-scope-variable", not globs,
                f"namespace-scope variable definitions: {globs}", rel)
    # query.cxx: no data definitions at file scope either
    # the per-event slot is inside execute()/analyze() and the booking slot in initialize()/constructor
    for rel, want in (("func_adl_xAOD/template/atlas/r21/query.cxx", {"query_code": "body:query::execute", "book_code": "body:query::initialize"}),
                      ("func_adl_xAOD/template/cms/r5/Analyzer.cc", {"query_code": "body:Analyzer::analyze", "book_code": "body:Analyzer::Analyzer", "class_decl": "class-body:Analyzer:private"}),
                      ("func_adl_xAOD/template/cms/r7/Analyzer.cc", {"query_code": "body:Analyzer::analyze", "book_code": "body:Analyzer::Analyzer", "class_decl": "class-body:Analyzer:private"}),
                      ("func_adl_xAOD/template/atlas/r21/query.h", {"class_decl": "class-body:query:private"})):
        t = tpls[rel]
        for var, region in want.items():
            slots = [s for s in t.slots if s.var == var]
            reg = J.cpp_region(t.src, slots[0].offset) if len(slots) == 1 else None
            col.add("C05.R5", f"template:{rel.split('template/')[-1]}", f"slot-region:{var}", reg == region,
                    f"{var} must be rendered exactly once in {region} (found {reg}, {len(slots)} slot(s)): per-event code outside the per-event "
                    "method, or booking code inside it, changes what is re-initialised per event", rel)


def check_no_jump_in_emitted_code(col: Collector, repo: Repo):
    """C05.R11: the C++ text the package itself puts into the per-event function (retrieval code of the collection coders, built-in code
    specifications, statement emitters) never jumps out of it.  `Fill()` and the `clear()` of every vector column are the LAST statements of
    the event function: a `return` (or `continue`/`break`/`goto` at that level) in front of them leaves the vectors filled so far in place
    for the next event.  A `throw` is loud and ends the job; it is not a jump in this sense.  Decided over every string literal of the
    package that is C++ statement text (contains `;`), docstrings and messages of raised exceptions excluded."""
    col.floor("C05.R11", 10)
    import re as _re
    jump = _re.compile(r"(?<![A-Za-z0-9_])(return|continue|break|goto)(?![A-Za-z0-9_])|(?<![A-Za-z0-9_:.>])exit\s*\(")
    n_lit = 0
    for mod in repo.modules.values():
        doc_ids = set()
        exc_ids = set()
        for n in ast.walk(mod.tree):
            if isinstance(n, ast.Expr) and isinstance(n.value, ast.Constant) and isinstance(n.value.value, str):
                doc_ids.add(id(n.value))
            if isinstance(n, (ast.Raise, ast.Assert)):
                for x in ast.walk(n):
                    exc_ids.add(id(x))
            if isinstance(n, ast.Call) and isinstance(n.func, ast.Attribute) and n.func.attr in ("debug", "info", "warning", "error", "log"):
                for x in ast.walk(n):
                    exc_ids.add(id(x))
        per_fn = {}
        for f in mod.all_funcs:
            for n in walk_no_nested(f.node):
                per_fn[id(n)] = f.short
        for n in ast.walk(mod.tree):
            if isinstance(n, ast.Constant) and isinstance(n.value, str) and id(n) not in doc_ids and id(n) not in exc_ids and ";" in n.value:
                # a throw statement's own message is text inside a C++ string literal: look at the code outside double quotes only
                code = _re.sub(r'"(?:[^"\\]|\\.)*"', '""', n.value)
                code = _re.sub(r"//.*", "", code)
                n_lit += 1
                hit = jump.search(code)
                where = per_fn.get(id(n), mod.name.split(".")[-1])
                col.add("C05.R11", where, f"no-jump-out-of-the-event:{n.value.strip()[:28]}", hit is None,
                        f"emitted C++ text {n.value.strip()[:60]!r} " + (f"contains `{hit.group(0)}`: the event function is left before Fill()/clear(), "
                        "the vector columns keep this event's entries for the next row" if hit else "stays inside the event function"), f"{mod.rel}:{n.lineno}")
    col.info["emitted_statement_literals"] = n_lit


def check_cfg_and_runner(col: Collector):
    col.floor("C05.R6", 2)
    from sa.props._tr import check_cfg_filelist
    check_cfg_filelist(col, "C05.R6")
    for rel in ("func_adl_xAOD/template/cms/r5/analyzer_cfg.py", "func_adl_xAOD/template/cms/r7/analyzer_cfg.py"):
        p = REPO / rel
        tree = ast.parse(p.read_text())
        skip = [n.arg for n in ast.walk(tree) if isinstance(n, ast.keyword) and n.arg in ("SkipEvent", "IgnoreCompletely", "FailPath")]
        col.add("C05.R6", f"template:{rel.split('template/')[-1]}", "failed-event-ends-the-job", not skip,
                f"exception policy {skip}: cmsRun would continue after an exception thrown in analyze(), skipping the clear() that follows Fill(), "
                "so the faulty event's partial vectors appear in the next event's row", rel)
    from sa.props.c16 import SCRIPTS, check_input
    from sa.core.shell_facts import parse_script
    col.floor("C05.R7", 9)
    sub = Collector("C05")
    for key, rel in SCRIPTS.items():
        root, cmds = parse_script(__import__('sa.core.shell_alpha', fromlist=['x']).runner_source(REPO / rel))
        check_input(sub, f"runner:{key}", rel, cmds)
    for o in sub.obs:
        col.add("C05.R7", o.construct, o.detail, o.ok,
                o.msg + " (an appended or stale list makes run n reprocess the inputs of runs 1..n-1)", o.loc)
