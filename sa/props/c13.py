"""C13 - arithmetic follows Python numerics on the declared value types.

Decided: operator tables against the language-level correspondence, expression
templates, true division, power, widest-type selection, accumulator widening
order, constant typing, casts on assignment.  Not decided: values; C++
conversion behaviour beyond the finite typing table.
"""
from __future__ import annotations

import ast

from sa.core.common import AnalysisError, Collector
from sa.core.paths import enumerate_paths, guards, parent_map
from sa.core.pyfacts import Repo, arg, call_name, const_str, kwarg, src, walk_no_nested
from sa.core.readme_tables import Readme
from sa.core.templates import parts, shape
from sa.props._tr import defs_of, resolve_name, visitor_methods

EXPLANATION = (
    "R1 the three operator tables map each Python operator class to its C++ namesake (oracle: the language correspondence, "
    "not the current text), README's operator lists are covered, and the expression templates are (left op right), "
    "(op(operand)) with bool-typed comparisons; R2 `/` is typed double and its left operand is converted when both operands "
    "are int; R3 `%` is not applied to a possibly floating operand; R4 type priority int < float < double, most_accurate_type "
    "returns the highest, visit_BinOp applies it to both operands, and the Aggregate accumulator is widened (update_type, "
    "which also re-types its initial value) on the mismatch path before the update is emitted; R5 constants: int->int, "
    "float->double, bool->bool by exact type; R6 set_var/push_back cast on a type mismatch; R7 `**` is std::pow typed double "
    "unconditionally with <cmath>; R8 a conditional is double and never re-typed; R9 constants are not shared between uses; "
    "R10 accumulators take the seed's type and only int/float/double may accumulate."
)
ASSUMPTIONS = ["C++ arithmetic conversions on int/float/double behave as the standard says", "std::pow(double, double) is a real power"]

ORACLE = {
    "compare_operations": {"Lt": "<", "LtE": "<=", "Gt": ">", "GtE": ">=", "Eq": "==", "NotEq": "!="},
    "_known_unary_operators": {"UAdd": "+", "USub": "-", "Not": "!"},
    "_known_binary_operators": {"Add": "+", "Sub": "-", "Mult": "*", "Div": "/", "Mod": "%"},
}
README_MAP = {"Math Operators": {"+": "Add", "-": "Sub", "*": "Mult", "/": "Div", "%": "Mod", "**": "Pow"},
              "Comparison Operators": {"<": "Lt", "<=": "LtE", ">": "Gt", ">=": "GtE", "==": "Eq", "!=": "NotEq"},
              "Unary Operators": {"+": "UAdd", "-": "USub", "not": "Not"}}


def table(mod, name):
    for n in mod.tree.body:
        tgt = n.targets[0] if isinstance(n, ast.Assign) else getattr(n, "target", None)
        if isinstance(tgt, ast.Name) and tgt.id == name and isinstance(n.value, ast.Dict):
            out = {}
            for k, v in zip(n.value.keys, n.value.values):
                out[src(k).replace("ast.", "")] = const_str(v) if const_str(v) is not None else (v.value if isinstance(v, ast.Constant) else src(v))
            return out, n
    raise AnalysisError(f"table {name} not found in {mod.rel}")


def check(col: Collector, tier: str):
    repo = Repo()
    m = visitor_methods(repo)
    tr = repo.mod("common.ast_to_cpp_translator")
    doc = Readme()
    # ------------------------------------------------------------ R1 tables
    col.floor("C13.R1", 20)
    tabs = {}
    for name, oracle in ORACLE.items():
        t, node = table(tr, name)
        tabs[name] = t
        for k, v in oracle.items():
            col.add("C13.R1", name, f"maps:{k}", t.get(k) == v, f"ast.{k} must render as `{v}` (table has {t.get(k)!r})", f"{tr.rel}:{node.lineno}")
        extra = set(t) - set(oracle)
        col.add("C13.R1", name, "no-unvetted-operators", not extra, f"operators {sorted(extra)} are in the table but not in the vetted correspondence", f"{tr.rel}:{node.lineno}")
    ops = doc.math_operators()
    for heading, mp in README_MAP.items():
        for sym in ops[heading]:
            cls = mp.get(sym)
            supported = cls is not None and (any(cls in t for t in tabs.values()) or cls == "Pow")
            col.add("C13.R1", "README.Math", f"documented-operator:{heading}:{sym}", supported, f"README documents `{sym}`", "README.md")
    # templates
    vb = m["visit_BinOp"]
    tpl = [c for c in ast.walk(vb.node) if isinstance(c, ast.Call) and call_name(c) == "cpp_value"]
    sh = shape(parts(vb.node, tpl[0].args[0])) if len(tpl) == 1 else []
    okb = len(sh) == 5 and sh[0] == "(" and sh[4] == ")" and sh[2] == "{_known_binary_operators[type(node.op)]}" and sh[3] == "{right.as_cpp()}"
    left_hole = sh[1] if len(sh) == 5 else ""
    col.add("C13.R1", vb.short, "binary-template", okb and left_hole in ("{left.as_cpp()}", "{left_cpp}"),
            f"binary expression template {sh} must be (left op right) with the operator looked up by the node's own op", vb.loc)
    vc = m["visit_Compare"]
    tpl = [c for c in ast.walk(vc.node) if isinstance(c, ast.Call) and call_name(c) == "cpp_value"]
    sh = shape(parts(vc.node, tpl[0].args[0])) if len(tpl) == 1 else []
    okc = sh == ["(", "{left.as_cpp()}", "{compare_operations[type(node.ops[0])]}", "{right.as_cpp()}", ")"]
    ty = src(tpl[0].args[2]).replace('"', "'") if tpl and len(tpl[0].args) > 2 else ""
    lr = {k: src(resolve_name(vc.node, ast.Name(id=k, ctx=ast.Load()))) for k in ("left", "right")}
    okc = okc and "terminal('bool')" in ty and "node.left" in lr["left"] and "node.comparators[0]" in lr["right"]
    col.add("C13.R1", vc.short, "comparison-template-and-type", okc, f"template {sh}, type {ty}, operands {lr}", vc.loc)
    vu = m["visit_UnaryOp"]
    tpl = [c for c in ast.walk(vu.node) if isinstance(c, ast.Call) and call_name(c) == "cpp_value"]
    sh = shape(parts(vu.node, tpl[0].args[0])) if len(tpl) == 1 else []
    oku = sh == ["(", "{_known_unary_operators[type(node.op)]}", "(", "{operand.as_cpp()}", "))"]
    col.add("C13.R1", vu.short, "unary-template", oku, f"unary expression template {sh} must be (op(operand))", vu.loc)
    # the result of a unary operator has the operand's numeric type: for every type name of the arithmetic type table the type expression
    # must come out as that same type for float and double (evaluated over the finite table when a helper computes it)
    if len(tpl) == 1:
        tyx = resolve_name(vu.node, tpl[0].args[2] if len(tpl[0].args) > 2 else kwarg(tpl[0], "cpp_type"))
        verdict, why_u = _unary_type_preserved(repo, vu, tyx)
        if verdict is None:
            col.defer(f"visit_UnaryOp types its result by `{src(tyx)[:60]}`, which cannot be evaluated over the type table ({why_u}): C13.R1 unary-result-type not decided")
        else:
            col.add("C13.R1", vu.short, "unary-result-keeps-the-operand's-floating-type", verdict,
                    f"-x and +x of a float/double operand must be typed float/double ({why_u}): typed int, the value is truncated in every column, "
                    "accumulator and further arithmetic", vu.loc)
    lrb = {k: src(resolve_name(vb.node, ast.Name(id=k, ctx=ast.Load()))) for k in ("left", "right")}
    col.add("C13.R1", vb.short, "operands-in-order", "node.left" in lrb["left"] and "node.right" in lrb["right"], f"{lrb}", vb.loc)

    # ------------------------------------------------------------ R2 true division
    col.floor("C13.R2", 2)
    pm = parent_map(vb.node)
    dbl = [n for n in walk_no_nested(vb.node) if isinstance(n, ast.Assign) and src(n.targets[0]) == "best_type" and "terminal('double'" in src(n.value).replace('"', "'")]
    ok = len(dbl) == 1 and any(tr_ and src(t) == "type(node.op) is ast.Div" for t, tr_ in guards(vb.node, dbl[0], pm))
    col.add("C13.R2", vb.short, "division-typed-double", ok, "under `type(node.op) is ast.Div` the result type must be forced to double", vb.loc)
    prom = [n for n in walk_no_nested(vb.node) if isinstance(n, ast.Assign) and "static_cast<double>" in src(n.value)]
    ok = False
    if len(prom) == 1 and left_hole == "{" + src(prom[0].targets[0]) + "}":
        gs = guards(vb.node, prom[0], pm)
        atoms = {src(t).replace('"', "'") for t, tr_ in gs if tr_ and not isinstance(t, ast.BoolOp)}
        ints = {a for a in atoms if a.endswith(".type == 'int'")}
        ok = any("ast.Div" in a for a in atoms) and len(ints) == 2 and any("left" in a for a in ints) and any("right" in a for a in ints)
    col.add("C13.R2", vb.short, "int/int-division-promoted", ok,
            "when both operands are typed int the emitted C++ must convert an operand to double (static_cast<double>(left)/right); (a/b) on two "
            "ints truncates: Count()/2 on three jets gives 1, Python gives 1.5", vb.loc)

    # ------------------------------------------------------------ R3 modulo on floats
    mods = [n for n in ast.walk(vb.node) if isinstance(n, (ast.If, ast.IfExp)) and "ast.Mod" in src(n.test)]
    handled = False
    for n in mods:
        s = src(n)
        if "fmod" in s or "raise" in s or "'int'" in s or '"int"' in s:
            handled = True
    col.add("C13.R3", vb.short, "modulo-not-applied-to-floating-operands", handled,
            "`%` is emitted for any operand types; C++ only defines it for integers, so j.pt() % 2 produces code that does not compile "
            "(no branch tests the operand types or uses std::fmod)", vb.loc)

    # ------------------------------------------------------------ R4 widest type
    col.floor("C13.R4", 5)
    um = repo.mod("common.utils")
    pr, node = table(um, "_type_priority")
    ok = set(pr) == {"'int'", "'float'", "'double'"} or set(pr) == {"int", "float", "double"}
    vals = {k.strip("'"): v for k, v in pr.items()}
    ok = ok and vals["int"] < vals["float"] < vals["double"]
    col.add("C13.R4", "utils._type_priority", "int<float<double", ok, f"priorities {vals}", f"{um.rel}:{node.lineno}")
    mat = repo.function("most_accurate_type")
    # what is returned, with locals substituted: the first of the highest-priority operands - sorted(.., key, reverse=True)[0] or max(.., key)
    from sa.core.paths import substituted_paths
    lst = mat.node.args.args[0].arg
    rets = [v for items in substituted_paths(mat.node) for k, v, *_ in items if k == "return"]
    ok = len(rets) == 1 and rets[0] is not None
    undecided = False
    hand_written = any(isinstance(n, (ast.For, ast.While)) for n in ast.walk(mat.node))
    if len(rets) > 1 and hand_written:
        undecided = True
        col.defer("most_accurate_type has several return paths (a hand-written selection): C13.R4 returns-highest-priority-type not decided on this shape")
    if ok:
        r = rets[0]
        core = None
        if isinstance(r, ast.Subscript) and src(r.slice) == "0" and isinstance(r.value, ast.Call) and call_name(r.value) == "sorted" \
                and kwarg(r.value, "reverse") is not None and src(kwarg(r.value, "reverse")) == "True":
            core = r.value
        elif isinstance(r, ast.Call) and call_name(r) == "max" and isinstance(r.func, ast.Name):
            core = r
        if core is None and hand_written and not (isinstance(r, ast.Call) and call_name(r) in ("min", "sorted")) \
                and not (isinstance(r, ast.Subscript) and isinstance(r.value, ast.Call) and call_name(r.value) == "sorted"):
            undecided = True
            col.defer(f"most_accurate_type returns `{src(r)[:60]}`: the choice is not made by sorted()/max() over the priority table "
                      "(a hand-written selection): C13.R4 returns-highest-priority-type not decided on this shape")
        key = kwarg(core, "key") if core is not None else None
        if isinstance(key, ast.Name):
            # a named one-line function given as the key reads as the lambda of its return expression
            kf = [f_ for f_ in um.funcs.values() if f_.name == key.id] if hasattr(um, "funcs") else []
            body_ = [s_ for s_ in kf[0].node.body if not (isinstance(s_, ast.Expr) and isinstance(s_.value, ast.Constant))] if len(kf) == 1 else []
            if len(body_) == 1 and isinstance(body_[0], ast.Return) and body_[0].value is not None and len(kf[0].node.args.args) == 1:
                key = ast.Lambda(args=kf[0].node.args, body=body_[0].value)
        ok = core is not None and len(core.args) == 1 and src(core.args[0]) == lst and isinstance(key, ast.Lambda) and len(key.args.args) == 1 \
            and src(key.body) == f"_type_priority[{key.args.args[0].arg}.type]"
    col.add("C13.R4", mat.short, "returns-highest-priority-type", ok or undecided,
            "the first operand type of the highest priority must be returned (sorted by priority descending, first element; or max by priority)", mat.loc)
    bt = defs_of(vb.node, "best_type")
    ok = any(isinstance(d, ast.Call) and call_name(d) == "most_accurate_type" and src(d.args[0]).replace(" ", "") == "[left.cpp_type(),right.cpp_type()]" for d in bt)
    col.add("C13.R4", vb.short, "result-typed-by-widest-operand", ok, "", vb.loc)
    ag = m["visit_call_Aggregate_initial"]
    ok = True
    n_paths = 0
    for p in enumerate_paths(ag.node):
        if p.status == "raise":
            continue
        n_paths += 1
        conds = [(src(e.node), e.taken) for e in p.events if e.kind == "cond"]
        mismatch = [t for s, t in conds if ".type != " in s and "update_lambda" in s and "init_val" in s]
        names = [call_name(e.node) for e in p.events if e.kind == "call"]
        if mismatch and mismatch[0]:
            good = "update_type" in names and "set_var" in names and names.index("update_type") < names.index("set_var") and "most_accurate_type" in names
            ok = ok and good
        ok = ok and bool(mismatch)
    col.add("C13.R4", ag.short, "accumulator-widened-before-the-update-is-emitted", ok and n_paths >= 2,
            "when the update expression's type differs from the seed's, the accumulator must be re-typed to the more accurate of the two before "
            "set_var(accumulator, update) is created (otherwise a float sum is truncated into an int accumulator)", ag.loc)
    cv = repo.find_class("cpp_variable").methods["update_type"]
    s = src(cv.node)
    col.add("C13.R4", "cpp_variable.update_type", "initial-value-retyped-with-the-variable", "_initial_value._cpp_type = new_type" in s and "cpp_value.update_type(self, new_type)" in s,
            "the declaration's initialiser must follow the variable's new type", cv.loc)
    ca = [c for c in ast.walk(ag.node) if isinstance(c, ast.Call) and call_name(c) == "_create_accumulator"]
    ok = len(ca) == 1 and src(arg(ca[0], 1, "acc_type")) == "init_val.cpp_type()" and src(kwarg(ca[0], "initial_value")) == "init_val"
    col.add("C13.R10", ag.short, "accumulator-takes-the-seed's-type-and-value", ok, "", ag.loc)
    cat = repo.function("check_accumulator_type")
    from sa.core.paths import substituted_paths
    from sa.props._tr import const_membership
    rets = [v for items in substituted_paths(cat.node) for k, v, *_ in items if k == "return"]
    cm = const_membership(rets[0]) if len(rets) == 1 and rets[0] is not None else None
    a0 = cat.node.args.args[0].arg
    col.add("C13.R10", cat.short, "only-numbers-accumulate", cm is not None and cm[0] == f"str({a0})" and cm[1] == {"float", "double", "int"},
            f"the accumulator type test must accept exactly float, double and int (found {cm})", cat.loc)

    # ------------------------------------------------------------ R5/R9 constants (shared with C18)
    from sa.props import c18
    sub = Collector("C13")
    c18.check(sub, tier)
    col.floor("C13.R5", 5)
    for o in sub.obs:
        if o.rule == "C18.R4" or (o.rule == "C18.R2" and "round-trip" in o.detail):
            col.add("C13.R5", o.construct, o.detail, o.ok, o.msg, o.loc)
        elif o.rule == "C18.R7":
            col.add("C13.R9", o.construct, o.detail, o.ok, o.msg + " (a shared literal object is also re-typed when an accumulator seeded with it is widened)", o.loc)
    # ------------------------------------------------------------ R6 casts (shared with C02)
    stm = repo.mod("common.statement")
    col.floor("C13.R6", 2)
    for cname in ("set_var", "push_back"):
        e = stm.classes[cname].methods["emit"]
        from sa.props._tr import cast_exactly_on_type_mismatch
        ok, why6 = cast_exactly_on_type_mismatch(e.node)
        col.add("C13.R6", f"{cname}.emit", "cast-to-target-type-on-mismatch", ok, why6, e.loc)

    # ------------------------------------------------------------ R7 power
    col.floor("C13.R7", 3)
    vs = m["visit_special_BinOp"]
    tpl = [c for c in ast.walk(vs.node) if isinstance(c, ast.Call) and call_name(c) == "cpp_value"]
    ok = len(tpl) == 1
    if ok:
        sh = shape(parts(vs.node, tpl[0].args[0]))
        ok = sh == ["std::pow(", "{left.as_cpp()}", ", ", "{right.as_cpp()}", ")"]
    col.add("C13.R7", vs.short, "power-is-std::pow(left, right)", ok, "", vs.loc)
    bt = defs_of(vs.node, "best_type")
    from sa.props._tr import is_plain_terminal
    ok = len(bt) == 1 and is_plain_terminal(bt[0], "double") and src(tpl[0].args[2]) == "best_type" if tpl else False
    pmv = parent_map(vs.node)
    if ok:
        asg = [n for n in walk_no_nested(vs.node) if isinstance(n, ast.Assign) and src(n.targets[0]) == "best_type"][0]
        ok = [src(t) for t, tr_ in guards(vs.node, asg, pmv)] == ["type(node.op) is ast.Pow"]
    col.add("C13.R7", vs.short, "power-typed-double-unconditionally", bool(ok),
            "`**` must be typed double whatever the operand types: an int-typed std::pow(n, -1) stores 0", vs.loc)
    inc = any(isinstance(c, ast.Call) and call_name(c) == "add_include" and const_str(c.args[0]) == "cmath" for c in ast.walk(vs.node))
    col.add("C13.R7", vs.short, "power-includes-cmath", inc, "", vs.loc)

    from sa.props._tr import check_no_fast_math, check_backend_visitors_override_only_abstract
    check_no_fast_math(col, "C13.R13")
    check_backend_visitors_override_only_abstract(col, "C13.R13", repo)
    from sa.props._tr import import_obligations
    import_obligations(col, "C13.R12", "c03", lambda o: o.detail == "branch-binds-name-k-to-variable-k",
                       "a branch booked with an explicit leaf description stores the value in that type, whatever the C++ variable's type is")
    import_obligations(col, "C13.R12", "c07", lambda o: o.rule == "C07.R4" and o.detail == "unfinished-translation-is-reset-before-the-next",
                       "a reset that runs after this query's metadata was read wipes the method types it just declared: an int method falls back to "
                       "double and `/` loses its cast")
    import_obligations(col, "C13.R12", "c10", lambda o: o.rule == "C10.R3" and o.detail in ("add-and-lookup-agree",),
                       "the cast of int/int division and the result's column type are chosen from the method's recorded return type: the LAST declaration must win")
    # ------------------------------------------------------------ R11 a conditional yields its arm's value (cursor discipline shared with C04)
    from sa.core.scope_typestate import ScopeInterp
    from sa.props.c04 import check_ifexp
    sub4 = Collector("C13")
    check_ifexp(sub4, repo, ScopeInterp(repo), m)
    col.floor("C13.R11", 4)
    for o in sub4.obs:
        col.add("C13.R11", o.construct, o.detail, o.ok, o.msg + " (an else attached to another if - e.g. the guard First() left open in the test - lets the "
                "false arm overwrite the true arm's value)", o.loc)
    # ------------------------------------------------------------ R8 conditional double (shared with C03)
    col.floor("C13.R8", 2)
    vi = m["visit_IfExp"]
    rv = [c for c in ast.walk(vi.node) if isinstance(c, ast.Call) and call_name(c) == "cpp_variable"]
    ok = len(rv) == 1 and src(kwarg(rv[0], "cpp_type") or rv[0].args[2]).replace('"', "'") == "ctyp.terminal('double')"
    col.add("C13.R8", vi.short, "conditional-result-is-double", ok, "", vi.loc)
    ut = [c for c in ast.walk(vi.node) if isinstance(c, ast.Call) and call_name(c) == "update_type"] + \
        [n for n in ast.walk(vi.node) if isinstance(n, ast.Assign) and any("_cpp_type" in src(t) for t in n.targets)]
    col.add("C13.R8", vi.short, "never-retyped-from-its-arms", not ut,
            "a conditional typed from its arms becomes int inside an Aggregate update (acc if c else acc + 1) and truncates the running float sum", vi.loc)


def _unary_type_preserved(repo: Repo, vu, tyx):
    """(True/False/None, explanation): does the type expression of visit_UnaryOp keep float and double as they are?"""
    from sa.core.finite_eval import Unknown, ev, literal_tables
    from sa.core.paths import enumerate_paths
    sx = src(tyx)
    if sx == "operand.cpp_type()":
        return True, "the operand's own type"
    # <helper>(operand.cpp_type()) possibly under a condition on the operator
    calls = [c for c in ast.walk(tyx) if isinstance(c, ast.Call)] if not isinstance(tyx, ast.Call) else [tyx]
    calls = [c for c in calls if len(c.args) == 1 and src(resolve_name(vu.node, c.args[0])) == "operand.cpp_type()"]
    # the local may be re-bound: r_type = operand.cpp_type(); if ...: r_type = helper(r_type)
    if not calls and isinstance(tyx, ast.Name):
        for n in walk_no_nested(vu.node):
            if isinstance(n, ast.Assign) and src(n.targets[0]) == tyx.id and isinstance(n.value, ast.Call) and len(n.value.args) == 1:
                calls.append(n.value)
    if not calls:
        ds = defs_of(vu.node, tyx.id) if isinstance(tyx, ast.Name) else []
        if ds and all(src(d) == "operand.cpp_type()" for d in ds):
            return True, "the operand's own type"
        return None, "no helper call found"
    helpers = repo.resolve_call(vu, calls[0])
    if len(helpers) != 1:
        return None, "helper not resolved"
    h = helpers[0]
    prm = h.node.args.args[0].arg
    tables = literal_tables(h.module.tree)
    table = tables.get("_type_priority")
    if not isinstance(table, dict):
        return None, "no literal type table in the helper's module"
    results = {}
    for tname in table:
        env = {f"{prm}.type": tname}
        got = None
        for p_ in enumerate_paths(h.node):
            if p_.status == "raise":
                continue
            try:
                local = dict(env)
                consistent = True
                for e in p_.events:
                    if e.kind == "assign" and isinstance(e.node, ast.Assign) and isinstance(e.node.targets[0], ast.Name):
                        try:
                            local[e.node.targets[0].id] = ev(e.node.value, local, tables)
                        except Unknown:
                            pass
                    if e.kind == "cond":
                        if bool(ev(e.node, local, tables)) != bool(e.taken):
                            consistent = False
                            break
                if not consistent:
                    continue
                rets = [e.node for e in p_.events if e.kind == "return"]
                rv = rets[-1].value if rets else None
                if isinstance(rv, ast.Name) and rv.id == prm:
                    got = tname
                elif isinstance(rv, ast.Call) and call_name(rv) == "terminal" and rv.args and isinstance(rv.args[0], ast.Constant):
                    got = rv.args[0].value
                else:
                    return None, f"return value {src(rv)[:40] if rv is not None else None} not understood"
            except Unknown as u:
                return None, f"cannot evaluate ({u})"
        results[tname] = got
    bad = {t: r for t, r in results.items() if t in ("float", "double") and r != t}
    return (not bad), f"{h.short} maps {results}"
